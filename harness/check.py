#!/venv/bin/python
"""check.py Cxx [--tier quick|thorough] [--replay FILE]

Exit 0: property held on everything explored (known findings are printed as KNOWN-FINDING lines).
Exit 1: a line `VIOLATION property=<id> replay=<path>` was printed.
Exit 2: tool failure / inconclusive.
"""
import argparse
import importlib
import json
import os
import sys
import traceback

HERE = os.path.dirname(os.path.abspath(__file__))
sys.path.insert(0, HERE)
os.environ.setdefault('ZEPID_VERIF', '1')       # hooks on (MANIFEST.hooks.guard)
os.environ.setdefault('MPLBACKEND', 'Agg')
os.environ.setdefault('OMP_NUM_THREADS', '1')
os.environ.setdefault('OPENBLAS_NUM_THREADS', '1')
if os.environ.get('ZEPID_REPO', '/repo') not in sys.path:
    sys.path.insert(0, os.environ.get('ZEPID_REPO', '/repo'))

import common  # noqa: E402


def main():
    ap = argparse.ArgumentParser()
    ap.add_argument('pid')
    ap.add_argument('--tier', default=os.environ.get('VERIF_TIER', 'quick'), choices=['quick', 'thorough'])
    ap.add_argument('--replay', default=None)
    a = ap.parse_args()
    seed = int(os.environ.get('VERIF_SEED', '0') or 0)
    pid = a.pid.upper()
    mod = importlib.import_module('props.' + pid.lower())
    if a.replay:
        with open(a.replay if os.path.isabs(a.replay) else os.path.join(common.VERIF, a.replay)) as f:
            rec = json.load(f)
        return mod.replay(rec)
    chk = common.Check(pid, a.tier, seed)
    lean = common.lean_gate(pid, getattr(mod, 'REQUIRED', []), a.tier)
    drv = common.Driver() if lean['driver_ok'] else None
    rng = common.rng_for(pid, seed)
    aborted = None
    try:
        with common.quiet():
            mod.run(chk, drv, rng, a.tier)
    except Exception as e:      # noqa: BLE001
        # an inconclusive / crashed run still reports the property failures it had already found
        aborted = '%s: %s' % (type(e).__name__, e)
        if chk.d_fail:
            chk.notes.append('run aborted after recording failures: ' + aborted)
        elif isinstance(e, RuntimeError):
            raise                      # tool failure / declared-inconclusive run: exit 2
        else:
            # the harness could not digest what the implementation returned (unexpected NaN, missing attribute, wrong
            # shape ...): the correspondence no longer checks; reported as such, with the traceback as replay
            chk.k_fail.append({'gate': 'K', 'what': 'harness could not process the implementation\'s output: ' + aborted,
                               'case': {'traceback': traceback.format_exc()[-3000:]}})
    finally:
        if drv is not None:
            drv.close()
    if drv is None:
        chk.k_fail.append({'gate': 'K', 'what': 'model driver unavailable (translator or build failure)', 'case': None})
    return chk.finish(lean, mod.RULE, getattr(mod, 'ASSUMPTIONS', None))


if __name__ == '__main__':
    try:
        sys.exit(main())
    except SystemExit:
        raise
    except Exception:
        traceback.print_exc()
        sys.exit(2)
