"""C17 -- probability truncation clips exactly and is applied wherever requested."""
import copy
import math
import sys

import numpy as np
import pandas as pd

from common import fx, unfx, dec_list, close

REQUIRED = ['clip1_spec', 'clip_spec', 'clip_mem', 'clip_id_of_mem', 'clip_eq_self_iff', 'clip_idem', 'clip_of_gt',
            'truncCount_eq_zero_iff', 'reject_iff', 'accept_float', 'accept_pair', 'parse_interval',
            'bound_unreached_noop', 'use_sites_unreached', 'estimatorBound_spec', 'weight_le', 'iptw_weight_le',
            'iptw_weight_le_sym', 'gpair_le', 'stoch_cf_le', 'ipmw_ipsw_le', 'probability_bounds_float_generated',
            'probability_bounds_pair_generated', 'probability_bounds_vector_generated',
            # Props/C17_Sites.lean: the regenerated call sites are the use-site models
            'ipsw_sampling_generated', 'snm_missing_generated', 'sites_unreached_generated',
            # Props/C17_BoundSites.lean: every call site of probability_bounds as regenerated from /repo
            'iptw_calculator_site_generated', 'iptw_calculator_callers', 'exposure_sites_generated',
            'missing_sites_generated', 'outcome_sites_generated', 'stochastic_exposure_site_generated',
            'crossfit_sites_generated', 'ipmw_sites_generated', 'ipsw_site_generated', 'bound_sites_unreached_generated',
            'sites_in_range_generated']
RULE = ('helper: every container type (list, tuple, ndarray float64/float32/int, Series with default and shuffled index, '
        'read-only ndarray, read-only view of a Series, strided view, frombuffer array) x every bound form (valid floats, '
        'valid pairs as list/tuple/ndarray/Series incl. lo=hi, ints in a pair, >2 entries; invalid: float <0 or >1, '
        'str, int, descending, out-of-range, strings inside, short sequences; unjudged oddities: 0.0, 1.0, b>1/2, nan, '
        'bool, None, numpy scalars) on random vectors with values inside, outside, exactly on the bounds and NaN, with a '
        'snapshot of the argument before/after.  estimators: random data sets (n 150-320, one binary + one continuous '
        'covariate, strong confounding), every estimator/method taking `bound` x its option cells (stabilized, '
        'standardize, generalize), each run unbounded, with an unreachable symmetric and asymmetric bound, and with a '
        'reachable symmetric and asymmetric bound placed at quantiles of the fitted probabilities.  distinct = '
        '(container, bound form, vector) or (estimator cell, data set, bound); non-trivial = at least one value is '
        'clipped (helper) / the bound kind does what its name says on the fitted probabilities (estimators)')
ASSUMPTIONS = ['statsmodels GLM (Binomial) is deterministic: the harness refits each nuisance model with the documented '
               'formula on the estimator\'s own public data frame and the unbounded run must reproduce it (measured; a '
               'mismatch is a K failure, a failed reference fit a discard)',
               'numpy / IEEE-754: comparison and assignment are exact, so clipped values are compared bit for bit',
               'cross-fit estimators: the probabilities handed to aipw_calculator / targeting_step are observed by '
               'wrapping those two module-level functions (same random_state => same splits, measured)']

FORMULA_A = 'L1 + L2'
FORMULA_M = 'A + L1 + L2'
FORMULA_Y = 'A + L1 + L2'

# The documented parameter order (and documented defaults) of every estimator method that takes `bound` -- the
# signature printed in the reference documentation, which is also the order of each docstring's Parameters section.
# A call that hands the arguments over POSITIONALLY in this order means the same as the keyword call (round 4).
REQ = object()
_W5 = [('model_denominator', REQ), ('model_numerator', None), ('stabilized', True), ('bound', False), ('print_results', True)]
_M4 = [('model', REQ), ('custom_model', None), ('bound', False), ('print_results', True)]
_G5 = [('model_denominator', REQ), ('model_numerator', '1'), ('bound', None), ('stabilized', True), ('print_results', True)]
_CF = [('covariates', REQ), ('estimator', REQ), ('bound', False)]
DOC = {
    'IPTW.treatment_model': [('model_denominator', REQ), ('model_numerator', '1')] + _W5[2:],
    'IPTW.missing_model': _W5,
    'GEstimationSNM.missing_model': _W5,
    'AIPTW.exposure_model': _M4, 'AIPTW.missing_model': _M4,
    'TMLE.exposure_model': _M4, 'TMLE.missing_model': _M4,
    'TMLE.outcome_model': _M4 + [('continuous_distribution', 'gaussian')],
    'StochasticTMLE.exposure_model': _M4[:3],
    'StochasticTMLE.outcome_model': _M4[:3] + [('continuous_distribution', 'gaussian')],
    'IPSW.sampling_model': _G5, 'IPSW.treatment_model': _G5,
    'AIPSW.treatment_model': _G5[:4] + [('print_results', False)],
    'SingleCrossfitAIPTW.exposure_model': _CF, 'DoubleCrossfitAIPTW.exposure_model': _CF,
    'SingleCrossfitTMLE.exposure_model': _CF, 'DoubleCrossfitTMLE.exposure_model': _CF,
}


def invoke(obj, name, cfg, **given):
    """call the method `name` ('Class.method') of `obj` with the arguments `given`: required arguments positionally and
    the options by keyword (the form of every example in the documentation), or -- cfg['_pos'] -- everything
    positionally in the documented order, options not given filled in with their documented defaults, up to the last
    one given"""
    import contextlib
    import io
    meth = getattr(obj, name.split('.')[1])
    order = DOC[name]
    assert set(given) <= {k for k, _ in order}, (name, given)
    with contextlib.redirect_stdout(io.StringIO()):
        if not cfg.get('_pos'):
            req = [given.pop(k) for k, d in order if d is REQ]
            return meth(*req, **given)
        last = max(i for i, (k, _) in enumerate(order) if k in given)
        return meth(*[given[k] if k in given else d for k, d in order[:last + 1]])


# =====================================================================================  part A: the helper
def same(a, b):
    """bit-for-bit equality of two float arrays (NaN pattern included, -0.0 == 0.0 tolerated)"""
    a = np.asarray(a, dtype=float)
    b = np.asarray(b, dtype=float)
    return a.shape == b.shape and bool(np.array_equal(a, b, equal_nan=True))


def classify(bound):
    """-> (driver spec, expectation): expectation is ('accept', lo, hi) | ('reject',) | ('unjudged', why)
"""
    t = type(bound)
    if isinstance(bound, float):            # a Python float or a subclass of it (numpy.float64)
        bound = float(bound)
        spec = 'float:' + fx(bound)
        if math.isnan(bound):
            return spec, ('unjudged', 'nan bound')
        if bound < 0 or bound > 1:
            return spec, ('reject',)
        if bound == 0.0 or bound == 1.0:
            return spec, ('unjudged', 'endpoint 0.0 / 1.0 accepted by the code (TMLE itself passes 0.0)')
        if bound > 0.5:
            return spec, ('unjudged', 'b > 1/2: interval [b, 1-b] is empty, the code returns the constant 1-b')
        return spec, ('accept', bound, 1 - bound)
    if t is str:
        return 'str', ('reject',)
    if t is int:
        return 'int', ('reject',)
    if bound is None or isinstance(bound, (bool, np.generic, complex)):
        return 'other', ('unjudged', 'non-indexable object')
    # sequences
    items = list(bound)
    enc = []
    for it in items:
        enc.append('s' if isinstance(it, str) else fx(float(it)))
    spec = 'seq:' + ';'.join(enc)
    if len(items) < 2:
        return spec, ('reject',)
    if isinstance(items[0], str) or isinstance(items[1], str):
        return spec, ('reject',)
    lo, hi = float(items[0]), float(items[1])
    if math.isnan(lo) or math.isnan(hi):
        return spec, ('unjudged', 'nan inside the pair')
    if lo > hi or lo < 0 or hi > 1:
        return spec, ('reject',)
    return spec, ('accept', lo, hi)


def bound_forms(rng):
    lo = float(np.round(rng.uniform(0.01, 0.4), 3))
    hi = float(np.round(rng.uniform(0.55, 0.99), 3))
    b = float(np.round(rng.uniform(0.005, 0.45), 3))
    return [
        b, 0.5, lo, 1e-6,                                                        # valid floats
        [lo, hi], (lo, hi), np.array([lo, hi]), pd.Series([lo, hi]), [lo, lo], [0, 1], [0.0, hi], [lo, 1.0],
        [lo, hi, 0.3], (lo, hi, 'x'), np.array([lo, hi, 0.5, 0.6]),            # more than two entries
        -0.1, 1.5, -1e-9, 1.0000001,                                             # floats outside
        'abc', '0.1', '', 0, 1, 5, -1,                                           # strings, ints
        [hi, lo], (0.9, 0.1), [-0.1, hi], [lo, 1.1], [-0.2, 1.2],                # descending / out of range
        ['a', hi], [lo, 'b'], ['a', 'b'], [lo], [], (hi,),                       # strings inside / too short
        0.0, 1.0, 0.7, float('nan'), True, False, None, np.float32(b), np.float64(0.0), [float('nan'), hi],
        np.float64(b), np.float64(lo), np.float64(1.5),                          # numpy float scalar = a float
    ]


def make_vector(rng, lo, hi):
    n = int(rng.choice([0, 1, 2, 5, 12, 40]))
    v = rng.uniform(0, 1, size=n)
    kind = rng.uniform(size=n)
    v = np.where(kind < 0.08, lo, v)          # exactly on the lower bound
    v = np.where((kind >= 0.08) & (kind < 0.16), hi, v)
    v = np.where((kind >= 0.16) & (kind < 0.22), 0.0, v)
    v = np.where((kind >= 0.22) & (kind < 0.28), 1.0, v)
    v = np.where((kind >= 0.28) & (kind < 0.32), -0.25, v)
    v = np.where((kind >= 0.32) & (kind < 0.36), 1.5, v)
    v = np.where((kind >= 0.36) & (kind < 0.40), np.nextafter(lo, 0), v)     # one ulp below the bound
    v = np.where((kind >= 0.40) & (kind < 0.44), np.nextafter(hi, 2), v)
    if n and rng.uniform() < 0.15:
        v[int(rng.integers(0, n))] = np.nan
    return v


def containers(rng, v):
    """name -> (object handed to the helper, function giving a comparable snapshot of it)"""
    def arr_snap(a):
        return (a.tobytes(), a.dtype.str, a.shape, a.flags.writeable)

    def ser_snap(s):
        return (s.to_numpy().tobytes(), tuple(s.index), s.dtype.str)
    out = {}
    out['list'] = ([float(x) for x in v], lambda o: repr(o))
    out['tuple'] = (tuple(float(x) for x in v), lambda o: repr(o))
    out['ndarray_f64'] = (np.array(v, dtype=np.float64), arr_snap)
    out['ndarray_f32'] = (np.array(v, dtype=np.float32), arr_snap)
    if not np.isnan(v).any():
        out['ndarray_int'] = (np.array(np.clip(np.round(v), 0, 1), dtype=np.int64), arr_snap)
    out['series'] = (pd.Series(np.array(v, dtype=float)), ser_snap)
    out['series_shuffled_index'] = (pd.Series(np.array(v, dtype=float), index=rng.permutation(len(v)) + 7), ser_snap)
    ro = np.array(v, dtype=float)
    ro.setflags(write=False)
    out['ndarray_readonly'] = (ro, arr_snap)
    s = pd.Series(np.array(v, dtype=float))
    out['series_values_view'] = (np.asarray(s), arr_snap)          # read-only under pandas copy-on-write
    big = np.repeat(np.array(v, dtype=float), 2)
    out['strided_view'] = (big[::2], arr_snap)
    out['frombuffer'] = (np.frombuffer(np.array(v, dtype=float).tobytes(), dtype=float), arr_snap)
    return out


def helper_case(chk, drv, cname, obj, snap, bound, bname):
    from zepid.calc import probability_bounds
    spec, expect = classify(bound)
    v64 = np.array(obj, dtype=float)            # the exact float64 values the helper is given
    before = snap(obj)
    bound_before = repr(bound)
    try:
        res = probability_bounds(obj, bound)
        status = 'ok'
    except (ValueError, TypeError, IndexError, KeyError) as ex:
        res, status = None, 'err:' + type(ex).__name__
    after = snap(obj)
    case = {'container': cname, 'bound': bound_before, 'bound_form': bname, 'spec': spec, 'v': [fx(x) for x in v64],
            'status': status, 'result': None if res is None else [fx(x) for x in np.asarray(res, dtype=float).ravel()]}
    clipped = expect[0] == 'accept' and bool(((v64 < expect[1]) | (v64 > expect[2])).any())
    chk.case(None, (cname, spec, tuple(case['v'])) if (clipped or expect[0] == 'reject') else None,
             sample=case if (clipped and chk.evals % 397 == 0) else None)
    chk.count('helper_' + expect[0])
    # ---- D: the argument is untouched (whatever happens), the result is a new object
    chk.d(before == after and repr(bound) == bound_before, 'the argument of probability_bounds is left untouched', case)
    if res is not None and isinstance(obj, (np.ndarray, pd.Series)) and v64.size:
        chk.d(not np.shares_memory(np.asarray(res), np.asarray(obj)), 'the result does not share memory with the argument',
              case)
    # ---- D: accept / reject and exact clip
    if expect[0] == 'reject':
        chk.d(status.startswith('err'), 'invalid bound specification is rejected', case)
    elif expect[0] == 'accept':
        lo, hi = expect[1], expect[2]
        want = np.minimum(np.maximum(v64, lo), hi)          # NaN propagates, as in the code
        want = np.where(np.isnan(v64), np.nan, want)
        ok = status == 'ok' and isinstance(res, np.ndarray) and res.dtype == np.float64 and same(res, want)
        chk.d(ok, 'result = elementwise clip to [lo, hi] as a new float64 array', case)
    # ---- K: model vs implementation (status, values bit for bit, number truncated)
    if drv is not None:
        rep, line = drv.ask('bounds', spec=spec, v=','.join(case['v']) or '[]')
        if status == 'ok' and expect[0] == 'unjudged' and 'nan' in expect[1]:
            # a NaN bound is accepted silently and leaves the vector alone (masked assignment) -- outside the property;
            # an equivalent rewrite with np.clip would return NaN instead, so only the accept/reject status is compared
            ok = rep['status'] == 'ok'
        elif status == 'ok':
            ok = rep['status'] == 'ok' and [x for x in dec_list(rep['v'], str)] == case['result']
            if ok and not np.isnan(v64).any() and expect[0] == 'accept':
                ok = int(rep['truncated']) == int(np.sum(np.asarray(res) != v64))
        else:
            ok = rep['status'] == 'err'
        chk.k(ok, 'bounds: model vs probability_bounds', {'case': case, 'model': rep})


# =====================================================================================  part B: estimators
def gen_data(rng, extreme=False, index_kind=None):
    """extreme: a rare outcome with a strong predictor, so that fitted risks fall below 0.0005 and above 0.9995
    (valid data; exposure and missingness models stay moderate)"""
    n = int(rng.integers(150, 320))
    L1 = rng.integers(0, 2, size=n)
    L2 = np.round(rng.normal(size=n), 3)
    ca, cb = rng.uniform(0.8, 1.6), rng.uniform(0.9, 1.8)
    if extreme:
        L2 = np.round(rng.normal(scale=1.6, size=n), 3)
        ca, cb = rng.uniform(0.3, 0.8), rng.uniform(0.3, 0.6)
    pa = 1 / (1 + np.exp(-(-0.3 + ca * L1 + cb * L2)))
    A = (rng.uniform(size=n) < pa).astype(int)
    if extreme:
        py = 1 / (1 + np.exp(-(-3.0 + 0.8 * A + 0.5 * L1 + 3.5 * L2)))
    else:
        py = 1 / (1 + np.exp(-(-0.5 + 0.8 * A + 0.5 * L1 - 0.4 * L2)))
    Y = (rng.uniform(size=n) < py).astype(float)
    kind = index_kind or str(rng.choice(['default', 'shuffled', 'string']))
    if kind == 'shuffled':
        idx = list(rng.permutation(n) + int(rng.integers(0, 30)))
    elif kind == 'string':
        idx = ['id%04d' % i for i in rng.permutation(n)]
    else:
        idx = list(range(n))
    df = pd.DataFrame({'A': A, 'L1': L1, 'L2': L2, 'Y': Y}, index=idx)
    dm = df.copy()
    pm = 1 / (1 + np.exp(-(-1.6 + (0.3 if extreme else 0.9) * L2 + 0.5 * A)))
    dm.loc[rng.uniform(size=n) < pm, 'Y'] = np.nan
    ds = df.copy()
    ps = 1 / (1 + np.exp(-(0.3 + 1.0 * L1 - (0.5 if extreme else 1.1) * L2)))
    ds['S'] = (rng.uniform(size=n) < ps).astype(int)
    ds.loc[ds['S'] == 0, ['A', 'Y']] = np.nan
    dc = df.copy()
    # continuous outcome: predictions under the other treatment leave the observed range (small noise, strong effects)
    dc['Y'] = np.round(2.0 * A + 1.5 * L2 + 0.5 * L1 + rng.normal(scale=0.3, size=n), 4)
    return {'full': df, 'miss': dm, 'sel': ds, 'cont': dc, 'n': n, 'extreme': extreme, 'index_kind': kind}


def pack(data):
    """JSON-able copy of a generated data set (stored in every failing estimator case for replay)"""
    out = {'n': data['n']}
    for k in ('full', 'miss', 'sel', 'cont'):
        d = data[k]
        out[k] = {'index': [i if isinstance(i, str) else int(i) for i in d.index], 'columns': {c: [None if (isinstance(x, float) and math.isnan(x))
                                                                      else float(x) for x in d[c]] for c in d.columns}}
    return out


def unpack(payload):
    data = {'n': payload['n'], 'extreme': False, 'index_kind': 'replay'}
    for k in ('full', 'miss', 'sel', 'cont'):
        if k not in payload:
            continue
        cols = {c: [float('nan') if x is None else x for x in v] for c, v in payload[k]['columns'].items()}
        df = pd.DataFrame(cols, index=payload[k]['index'])
        for c in ('A', 'L1', 'S'):
            if c in df.columns and not df[c].isna().any():
                df[c] = df[c].astype(int)
        data[k] = df
    return data


def ref_glm(formula, df):
    """the harness's own reference invocation of the nuisance model (documented arguments)"""
    import statsmodels.api as sm
    import statsmodels.formula.api as smf
    fit = smf.glm(formula, df, family=sm.families.family.Binomial()).fit()
    return fit


def arr(x):
    return np.array(x, dtype=float)


class Spy:
    """records pa1/pa0 handed to aipw_calculator / targeting_step of the cross-fit module"""

    def __init__(self):
        self.mod = sys.modules['zepid.causal.doublyrobust.crossfit']
        self.calls = []

    def __enter__(self):
        self.orig = (self.mod.aipw_calculator, self.mod.targeting_step)

        def w1(*a, **k):
            if k.get('difference', True):
                self.calls.append((arr(k['pa1']), arr(k['pa0']), arr(k['a'])))
            return self.orig[0](*a, **k)

        def w2(*a, **k):
            self.calls.append((arr(k['pa1']), arr(k['pa0']), arr(k['a'])))
            return self.orig[1](*a, **k)
        self.mod.aipw_calculator, self.mod.targeting_step = w1, w2
        return self

    def __exit__(self, *exc):
        self.mod.aipw_calculator, self.mod.targeting_step = self.orig


class Hist:
    """a history on ONE estimator object: the bound-taking method is called once per entry of `bounds` (the last
    call is the specification that counts); with fit_between the estimator is fitted between the calls"""

    def __init__(self, bounds, fit_between):
        self.bounds = list(bounds)
        self.fit_between = fit_between

    def __repr__(self):
        return 'Hist(%r, fit_between=%r)' % (self.bounds, self.fit_between)


def play(bound, specify, finish):
    if isinstance(bound, Hist):
        for i, b in enumerate(bound.bounds):
            specify(b)
            if bound.fit_between and i < len(bound.bounds) - 1:
                finish()
        return finish()
    specify(bound)
    return finish()


def logit(p):
    return np.log(p / (1 - p))


def expit(x):
    return 1 / (1 + np.exp(-x))


def recompute_tmle(t):
    """the TMLE point estimate recomputed by the harness from the probabilities the object exposes (QA1W, QA0W, g1W,
    g0W, m1W, m0W): documented targeting regression (logit offset = prediction under the observed treatment, clever
    covariates A/g1, -(1-A)/g0), then mean difference of the updated predictions (unit scale for a continuous outcome)"""
    import statsmodels.api as sm
    A = arr(t.df['A'])
    y = arr(t.df['Y'])
    g1, g0 = arr(t.g1W), arr(t.g0W)
    if getattr(t, '_fit_missing_model', False):
        g1, g0 = g1 * arr(t.m1W), g0 * arr(t.m0W)
    q1, q0 = arr(t.QA1W), arr(t.QA0W)
    qa = np.where(A == 1, q1, q0)
    H = np.column_stack((A / g1, -(1 - A) / g0))
    obs = ~np.isnan(y)
    eps = np.asarray(sm.GLM(y[obs], H[obs], offset=logit(qa)[obs], family=sm.families.family.Binomial()).fit().params)
    qs1 = expit(logit(q1) + eps[0] / g1)
    qs0 = expit(logit(q0) - eps[1] / g0)
    return float(np.mean(qs1 - qs0))


def recompute_aiptw(a):
    d = a.df
    A, y = arr(d['A']), arr(d['Y'])
    ps1, ps0 = arr(d['_g1_']), arr(d['_g0_'])
    if getattr(a, '_fit_missing_', False):
        ps1, ps0 = ps1 * arr(d['_ipmw_a1_']), ps0 * arr(d['_ipmw_a0_'])
    py1, py0 = arr(d['_pY1_']), arr(d['_pY0_'])
    y1 = np.where(A == 1, (y - py1 * (1 - ps1)) / ps1, py1)
    y0 = np.where(A == 0, (y - py0 * (1 - ps0)) / ps0, py0)
    return float(np.nanmean(y1 - y0))


def hajek_rd(y, a, w):
    ok = ~np.isnan(y) & ~np.isnan(w) & ~np.isnan(a)
    y, a, w = y[ok], a[ok], w[ok]
    return float(np.sum(w * y * (a == 1)) / np.sum(w * (a == 1)) - np.sum(w * y * (a == 0)) / np.sum(w * (a == 0)))


def with_a(df, a):
    d = df.copy()
    d['A'] = a
    return d


# ---- adapters: run(data, cfg, bound) -> {'p': {name: array}, 'w': {name: array}, 'est': {name: float},
#      'aux': {..., 'ref': {name of p: reference GLM fitted values}}}; bound may be a Hist
def run_iptw(data, cfg, bound):
    from zepid.causal.ipw import IPTW
    ipt = IPTW(data['full'], 'A', 'Y', standardize=cfg['std'])

    def specify(b):
        invoke(ipt, 'IPTW.treatment_model', cfg, model_denominator=FORMULA_A, model_numerator=cfg.get('num', '1'),
               bound=b, stabilized=cfg['stab'], print_results=False)

    def finish():
        ipt.marginal_structural_model('A')
        ipt.fit()
        p = {'denom': arr(ipt.df['__denom__'])}
        ref = {'denom': arr(ref_glm('A ~ ' + FORMULA_A, ipt.df).predict(ipt.df))}
        if cfg['stab']:
            p['numer'] = arr(ipt.df['__numer__'])
            ref['numer'] = arr(ref_glm('A ~ ' + cfg.get('num', '1'), ipt.df).predict(ipt.df))
        return {'p': p, 'w': {'iptw': arr(ipt.iptw)}, 'est': {'rd': float(ipt.risk_difference['RD'].iloc[1])},
                'aux': {'a': arr(ipt.df['A']), 'numer_col': arr(ipt.df['__numer__']), 'ref': ref,
                        'recomputed': {'rd': (hajek_rd(arr(ipt.df['Y']), arr(ipt.df['A']), arr(ipt.iptw)), 1e-6)}}}
    return play(bound, specify, finish)


def run_iptw_miss(data, cfg, bound):
    from zepid.causal.ipw import IPTW
    ipt = IPTW(data['miss'], 'A', 'Y')
    ipt.treatment_model(FORMULA_A, print_results=False)

    def specify(b):
        invoke(ipt, 'IPTW.missing_model', cfg, model_denominator=FORMULA_M, bound=b, stabilized=cfg['stab'],
               print_results=False)

    def finish():
        ipt.marginal_structural_model('A')
        ipt.fit()
        d = arr(ref_glm('__missing_indicator__ ~ ' + FORMULA_M, ipt.df).predict(ipt.df))
        n = arr(ref_glm('__missing_indicator__ ~ A', ipt.df).predict(ipt.df)) if cfg['stab'] else np.ones(len(d))
        return {'p': {}, 'w': {'ipmw': arr(ipt.ipmw)}, 'est': {'rd': float(ipt.risk_difference['RD'].iloc[1])},
                'aux': {'d_ref': d, 'n_ref': n, 'obs': arr(ipt.df['__missing_indicator__']) == 1, 'ref': {},
                        'recomputed': {'rd': (hajek_rd(arr(ipt.df['Y']), arr(ipt.df['A']),
                                                       arr(ipt.iptw) * arr(ipt.ipmw)), 1e-6)}}}
    return play(bound, specify, finish)


def run_snm_miss(data, cfg, bound):
    from zepid.causal.snm import GEstimationSNM
    g = GEstimationSNM(data['miss'], 'A', 'Y')
    g.exposure_model(FORMULA_A, print_results=False)

    def specify(b):
        invoke(g, 'GEstimationSNM.missing_model', cfg, model_denominator=FORMULA_M, bound=b, stabilized=cfg['stab'],
               print_results=False)

    def finish():
        g.structural_nested_model('A')
        g.fit()
        d = arr(ref_glm('__missing_indicator__ ~ ' + FORMULA_M, g.df).predict(g.df))
        n = arr(ref_glm('__missing_indicator__ ~ A', g.df).predict(g.df)) if cfg['stab'] else np.ones(len(d))
        return {'p': {}, 'w': {'ipmw': arr(g.ipmw)}, 'est': {'psi': float(np.asarray(g.psi).ravel()[0])},
                'aux': {'d_ref': d, 'n_ref': n, 'obs': arr(g.df['__missing_indicator__']) == 1, 'ref': {}}}
    return play(bound, specify, finish)


def miss_ref(df):
    fit = ref_glm('__missing_indicator__ ~ ' + FORMULA_M, df)
    return arr(fit.predict(with_a(df, 1))), arr(fit.predict(with_a(df, 0)))


def run_aiptw(data, cfg, bound):
    from zepid.causal.doublyrobust import AIPTW
    which = cfg['which']
    a = AIPTW(data['miss'] if which == 'missing' else data['full'], 'A', 'Y')
    if which == 'missing':
        a.exposure_model(FORMULA_A, print_results=False)

    def specify(b):
        if which == 'exposure':
            invoke(a, 'AIPTW.exposure_model', cfg, model=FORMULA_A, bound=b, print_results=False)
        else:
            invoke(a, 'AIPTW.missing_model', cfg, model=FORMULA_M, bound=b, print_results=False)

    def finish():
        a.outcome_model(FORMULA_Y, print_results=False)
        a.fit()
        if which == 'exposure':
            p = {'g1': arr(a.df['_g1_']), 'g0': arr(a.df['_g0_'])}
            g = arr(ref_glm('A ~ ' + FORMULA_A, a.df).predict(a.df))
            ref = {'g1': g, 'g0': 1 - g}
        else:
            p = {'m1': arr(a.df['_ipmw_a1_']), 'm0': arr(a.df['_ipmw_a0_'])}
            m1, m0 = miss_ref(a.df)
            obs = arr(a.df['__missing_indicator__']) == 1
            ref = {'m1': np.where(obs, m1, np.nan), 'm0': np.where(obs, m0, np.nan)}
        return {'p': p, 'w': {}, 'est': {'rd': float(a.risk_difference), 'rr': float(a.risk_ratio)},
                'aux': {'ref': ref, 'recomputed': {'rd': (recompute_aiptw(a), 1e-10)}}}
    return play(bound, specify, finish)


CB = 0.0005          # documented default of continuous_bound


def gauss_ref(df, newdf):
    import statsmodels.api as sm
    import statsmodels.formula.api as smf
    return arr(smf.glm('Y ~ ' + FORMULA_Y, df, family=sm.families.family.Gaussian()).fit().predict(newdf))


def run_tmle(data, cfg, bound):
    from zepid.causal.doublyrobust import TMLE
    which, cont = cfg['which'], cfg.get('cont', False)
    src = data['cont'] if cont else (data['miss'] if which == 'missing' else data['full'])
    t = TMLE(src, 'A', 'Y')
    if which != 'exposure':
        t.exposure_model(FORMULA_A, print_results=False)

    def specify(b):
        if which == 'exposure':
            invoke(t, 'TMLE.exposure_model', cfg, model=FORMULA_A, bound=b, print_results=False)
        elif which == 'missing':
            invoke(t, 'TMLE.missing_model', cfg, model=FORMULA_M, bound=b, print_results=False)
        else:
            invoke(t, 'TMLE.outcome_model', cfg, model=FORMULA_Y, bound=b, print_results=False)

    def finish():
        if which != 'outcome':
            t.outcome_model(FORMULA_Y, print_results=False)
        t.fit()
        if which == 'exposure':
            p = {'g1': arr(t.g1W), 'g0': arr(t.g0W)}
            g = arr(ref_glm('A ~ ' + FORMULA_A, t.df).predict(t.df))
            ref = {'g1': g, 'g0': 1 - g}
        elif which == 'missing':
            p = {'m1': arr(t.m1W), 'm0': arr(t.m0W)}
            m1, m0 = miss_ref(t.df)
            ref = {'m1': m1, 'm0': m0}
        elif cont:
            # the documented continuous_bound applies when no bound is given: fitted values clipped to [cb, 1-cb]
            p = {'q1': arr(t.QA1W), 'q0': arr(t.QA0W)}
            ref = {'q1': np.clip(gauss_ref(t.df, with_a(t.df, 1)), CB, 1 - CB),
                   'q0': np.clip(gauss_ref(t.df, with_a(t.df, 0)), CB, 1 - CB)}
        else:
            p = {'q1': arr(t.QA1W), 'q0': arr(t.QA0W)}
            fit = ref_glm('Y ~ ' + FORMULA_Y, t.df.dropna())
            ref = {'q1': arr(fit.predict(with_a(t.df, 1))), 'q0': arr(fit.predict(with_a(t.df, 0)))}
        # derived public state: the prediction under the observed treatment is assembled from the (truncated) pair
        A = arr(t.df['A'])
        derived = {'QAW = QA1W where A=1, QA0W where A=0': (arr(t.QAW), np.where(A == 1, arr(t.QA1W), arr(t.QA0W)))}
        if cont:
            rng_y = float(src['Y'].max() - src['Y'].min())
            est = {'ate': float(t.average_treatment_effect)}
            rec = {'ate': (recompute_tmle(t) * rng_y, 1e-6)}
        else:
            est = {'rd': float(t.risk_difference), 'rr': float(t.risk_ratio), 'or': float(t.odds_ratio)}
            rec = {'rd': (recompute_tmle(t), 1e-6)}
        return {'p': p, 'w': {}, 'est': est, 'aux': {'ref': ref, 'recomputed': rec, 'derived': derived}}
    return play(bound, specify, finish)


def run_stmle(data, cfg, bound):
    import statsmodels.api as sm
    from zepid.causal.doublyrobust import StochasticTMLE
    which, cont = cfg['which'], cfg.get('cont', False)
    s = StochasticTMLE(data['cont'] if cont else data['full'], 'A', 'Y')
    if which == 'outcome':
        s.exposure_model(FORMULA_A)

    def specify(b):
        if which == 'exposure':
            invoke(s, 'StochasticTMLE.exposure_model', cfg, model=FORMULA_A, bound=b)
        else:
            invoke(s, 'StochasticTMLE.outcome_model', cfg, model=FORMULA_Y, bound=b)

    def finish():
        if which == 'exposure':
            s.outcome_model(FORMULA_Y)
        s.fit(p=0.4, samples=8, seed=20260101)
        pred = arr(ref_glm('A ~ ' + FORMULA_A, s.df).predict(s.df))
        A = arr(s.df['A'])
        if which == 'exposure':
            p = {'den': arr(s._denominator_)}
            ref = {'den': np.where(A == 1, pred, 1 - pred)}
        elif cont:
            p = {'qinit': arr(s._Qinit_)}
            ref = {'qinit': np.clip(gauss_ref(s.df, s.df), CB, 1 - CB)}
        else:
            p = {'qinit': arr(s._Qinit_)}
            ref = {'qinit': arr(ref_glm('Y ~ ' + FORMULA_Y, s.df).predict(s.df))}
        # the fluctuation parameter recomputed from the exposed truncated quantities (documented weighted
        # intercept-only logistic regression with offset logit(Q) and weights Pr*(A|W)/g(A|W))
        haw = np.where(A == 1, 0.4, 0.6) / arr(s._denominator_)
        eps = float(np.asarray(sm.GLM(arr(s.df['Y']), np.ones(len(A)), offset=logit(arr(s._Qinit_)), freq_weights=haw,
                                      family=sm.families.family.Binomial()).fit().params)[0])
        return {'p': p, 'w': {}, 'est': {'psi': float(s.marginal_outcome), 'epsilon': float(s.epsilon)},
                'aux': {'a': A, 'pred_ref': pred, 'ntrunc': s._specified_bound_, 'ref': ref,
                        'recomputed': {'epsilon': (eps, 1e-6)}}}
    return play(bound, specify, finish)


def run_ipsw(data, cfg, bound):
    from zepid.causal.generalize import IPSW
    s = IPSW(data['sel'], 'A', 'Y', 'S', generalize=cfg['gen'])

    def specify(b):
        invoke(s, 'IPSW.sampling_model', cfg, model_denominator=FORMULA_A, bound=b if b else None,
               stabilized=cfg['stab'], print_results=False)

    def finish():
        s.fit()
        p = {'denom': arr(s.sample['__denom__'])}
        ref = {'denom': arr(ref_glm('S ~ ' + FORMULA_A, s.df).predict(s.sample))}
        if cfg['stab']:
            p['numer'] = arr(s.sample['__numer__'])
            ref['numer'] = arr(ref_glm('S ~ 1', s.df).predict(s.sample))
        return {'p': p, 'w': {'ipsw': arr(s.ipsw)}, 'est': {'rd': float(s.risk_difference), 'rr': float(s.risk_ratio)},
                'aux': {'numer_col': arr(s.sample['__numer__']), 'ref': ref,
                        'recomputed': {'rd': (hajek_rd(arr(s.sample['Y']), arr(s.sample['A']), arr(s.ipsw)), 1e-10)}}}
    return play(bound, specify, finish)


def run_ipsw_trt(data, cfg, bound):
    """IPSW.treatment_model / AIPSW.treatment_model: iptw_calculator on the sample (resp. the full frame)"""
    from zepid.causal.generalize import IPSW, AIPSW
    s = (IPSW if cfg['cls'] == 'IPSW' else AIPSW)(data['sel'], 'A', 'Y', 'S')
    s.sampling_model(FORMULA_A, print_results=False)

    def specify(b):
        invoke(s, cfg['cls'] + '.treatment_model', cfg, model_denominator=FORMULA_A, bound=b if b else None,
               stabilized=cfg['stab'], print_results=False)

    def finish():
        if cfg['cls'] == 'AIPSW':
            s.outcome_model(FORMULA_Y, print_results=False)
        s.fit()
        frame = s.sample if cfg['cls'] == 'IPSW' else s.df
        d = arr(ref_glm('A ~ ' + FORMULA_A, frame).predict(frame))
        n = arr(ref_glm('A ~ 1', frame).predict(frame)) if cfg['stab'] else np.ones(len(d))
        a = arr(frame['A'])
        return {'p': {}, 'w': {'iptw': arr(s.iptw)}, 'est': {'rd': float(s.risk_difference), 'rr': float(s.risk_ratio)},
                'aux': {'d_ref': d, 'n_ref': n, 'a': a, 'obs': ~np.isnan(a), 'ref': {}}}
    return play(bound, specify, finish)


def run_crossfit(data, cfg, bound):
    import statsmodels.api as sm
    import zepid.causal.doublyrobust as dr
    from zepid.superlearner import GLMSL
    cls = getattr(dr, cfg['cls'])
    c = cls(data['full'], 'A', 'Y')

    def specify(b):
        invoke(c, cfg['cls'] + '.exposure_model', cfg, covariates=FORMULA_A,
               estimator=GLMSL(sm.families.family.Binomial()), bound=b)

    def finish():
        c.outcome_model(FORMULA_Y, GLMSL(sm.families.family.Binomial()))
        with Spy() as spy:
            c.fit(n_splits=2 if cfg['cls'].startswith('Single') else 3, n_partitions=2, random_state=11)
        p = {}
        for j, (pa1, pa0, a) in enumerate(spy.calls):
            p['pa1_%d' % j] = pa1
            p['pa0_%d' % j] = pa0
        return {'p': p, 'w': {}, 'est': {'rd': float(c.risk_difference), 'rr': float(c.risk_ratio)},
                'aux': {'ncalls': len(spy.calls), 'ref': {}}}
    return play(bound, specify, finish)


SITES = [
    # name, runner, option cells, thorough-only?
    ('IPTW.treatment_model', run_iptw, [{'stab': s, 'std': d} for s in (True, False)
                                        for d in ('population', 'exposed', 'unexposed')] +
     [{'stab': True, 'std': 'population', 'num': 'L1'}]),
    ('IPTW.missing_model', run_iptw_miss, [{'stab': True}, {'stab': False}]),
    ('GEstimationSNM.missing_model', run_snm_miss, [{'stab': True}, {'stab': False}]),
    ('AIPTW', run_aiptw, [{'which': 'exposure'}, {'which': 'missing'}]),
    ('TMLE', run_tmle, [{'which': 'exposure'}, {'which': 'missing'}, {'which': 'outcome'},
                        {'which': 'outcome', 'cont': True}]),
    ('StochasticTMLE', run_stmle, [{'which': 'exposure'}, {'which': 'outcome'}, {'which': 'outcome', 'cont': True}]),
    ('IPSW.sampling_model', run_ipsw, [{'stab': s, 'gen': g} for s in (True, False) for g in (True, False)]),
    ('treatment_model(generalize)', run_ipsw_trt, [{'cls': c, 'stab': s} for c in ('IPSW', 'AIPSW')
                                                   for s in (True, False)]),
    ('crossfit', run_crossfit, [{'cls': c} for c in ('SingleCrossfitAIPTW', 'DoubleCrossfitAIPTW',
                                                     'SingleCrossfitTMLE', 'DoubleCrossfitTMLE')]),
]


def clipped_probs(site, cfg, U):
    """the raw fitted probabilities the bound is applied to (name -> array), as seen in the unbounded run"""
    if site in ('IPTW.missing_model', 'GEstimationSNM.missing_model', 'treatment_model(generalize)'):
        raw = {'d_ref': U['aux']['d_ref']}
        if site == 'treatment_model(generalize)' and cfg['stab']:
            raw['n_ref'] = U['aux']['n_ref']
        return raw
    if site == 'StochasticTMLE' and cfg['which'] == 'exposure':
        return {'pred_ref': U['aux']['pred_ref']}
    if site == 'crossfit':
        return {k: v for k, v in U['p'].items() if k.startswith('pa1_')}
    return dict(U['p'])


def choose_bounds(raw):
    allp = np.concatenate([v[~np.isnan(v)] for v in raw.values()])
    mn, mx = float(allp.min()), float(allp.max())
    out = {}
    bu = 0.5 * min(mn, 1 - mx)
    if bu > 0:
        out['unreached_sym'] = float(bu)
    out['unreached_asym'] = [mn / 2, (1 + mx) / 2]
    q = np.quantile(allp, [0.12, 0.2, 0.8, 0.9])
    br = float(min(0.45, max(q[0], 1 - q[3])))
    if br > 0 and (allp < br).any() or (allp > 1 - br).any():
        out['reached_sym'] = br
    if q[1] < q[2] and ((allp < q[1]).any() or (allp > q[2]).any()):
        out['reached_asym'] = [float(q[1]), float(q[2])]
        out['reached_tuple'] = (float(q[1]), float(q[2]))
    return out


def spec_of(bound):
    if not bound:
        return 'other', True, None, None
    if type(bound) is float:
        return 'float:' + fx(bound), False, bound, 1 - bound
    return 'seq:' + ';'.join(fx(x) for x in bound), False, float(bound[0]), float(bound[1])


def fl(xs):
    return ','.join(fx(x) for x in xs) or '[]'


def bl(xs):
    return ','.join('1' if x == 1 else '0' for x in xs) or '[]'


GEN_MODEL = {'agree': True}      # did every reply of the regenerated sites agree (bitwise) with the hand-written model?


def model_expect(drv, site, cfg, U, bound):
    """ask the Lean side what the bounded run must show, given the unbounded run's raw probabilities.  Every use site is
    evaluated by the code REGENERATED from the estimator method (Gen/BoundSites.lean, `gsite=`); the reply also says
    whether the hand-written use-site function of Model/Bounds.lean gives the same doubles (`model=1`)."""
    spec, falsy, lo, hi = spec_of(bound)
    base = dict(spec=spec, falsy='1' if falsy else '0')
    exp = {}

    def ask(**kw):
        rep, _ = drv.ask('bw', **kw, **base)
        if rep['status'] == 'ok' and rep.get('model', '1') != '1':
            GEN_MODEL['agree'] = False
            rep['status'] = 'generated-site-differs-from-model'
        return rep
    if site == 'IPTW.treatment_model':
        n = U['p']['numer'] if cfg['stab'] else np.ones(len(U['p']['denom']))
        rep = ask(kind='iptw', gsite='iptw_calculator', caller='IPTW', stab=int(cfg['stab']), std=cfg['std'],
                  a=bl(U['aux']['a']), n=fl(n), d=fl(U['p']['denom']))
        if rep['status'] == 'ok':
            exp = {'p.denom': dec_list(rep['d'], unfx), 'w.iptw': dec_list(rep['w'], unfx),
                   'aux.numer_col': dec_list(rep['n'], unfx)}
    elif site in ('IPTW.missing_model', 'GEstimationSNM.missing_model'):
        obs = U['aux']['obs']
        rep = ask(kind='ipmw', gsite=site.replace('.', '_'), n=fl(U['aux']['n_ref'][obs]), d=fl(U['aux']['d_ref'][obs]))
        if rep['status'] == 'ok' and site == 'GEstimationSNM.missing_model':
            # the per-row lines regenerated from GEstimationSNM.missing_model (Gen/Sites.lean) on the same raw
            # probabilities: identical to the hand-written use-site model (Props/C17_Sites.snm_missing_generated)
            g, _ = drv.ask('site', kind='snmmiss', stab=int(cfg['stab']), obs=bl(np.ones(int(obs.sum()))),
                           n=fl(U['aux']['n_ref'][obs]), d=fl(U['aux']['d_ref'][obs]), **base)
            if g.get('w') != rep['w']:
                return dict(g, status='err generated call site differs from the use-site model'), {}
        if rep['status'] == 'ok':
            w = np.full(len(obs), np.nan)
            w[obs] = dec_list(rep['w'], unfx)
            exp = {'w.ipmw': w}
    elif site in ('AIPTW', 'TMLE') and cfg['which'] == 'exposure':
        rep = ask(kind='gpair', gsite=site + '_exposure_model', p=fl(U['p']['g1']))
        if rep['status'] == 'ok':
            exp = {'p.g1': dec_list(rep['g1'], unfx), 'p.g0': dec_list(rep['g0'], unfx)}
    elif site in ('AIPTW', 'TMLE', 'StochasticTMLE') and cfg['which'] in ('missing', 'outcome'):
        for k, v in U['p'].items():
            ok = ~np.isnan(v)
            rep = ask(kind='clip', gsite='%s_%s_model' % (site, cfg['which']), comp=k, p=fl(v[ok]))
            if rep['status'] != 'ok':
                return rep, {}
            e = np.full(len(v), np.nan)
            e[ok] = dec_list(rep['p'], unfx)
            exp['p.' + k] = e
    elif site == 'StochasticTMLE':
        rep = ask(kind='stoch', gsite='StochasticTMLE_exposure_model', a=bl(U['aux']['a']), p=fl(U['aux']['pred_ref']))
        if rep['status'] == 'ok':
            exp = {'p.den': dec_list(rep['den'], unfx)}
    elif site == 'IPSW.sampling_model':
        n = U['p']['numer'] if cfg['stab'] else np.ones(len(U['p']['denom']))
        rep = ask(kind='ipsw', gsite='IPSW_sampling_model', gen=int(cfg['gen']), stab=int(cfg['stab']), n=fl(n),
                  d=fl(U['p']['denom']))
        if rep['status'] == 'ok':
            # the per-row lines regenerated from IPSW.sampling_model (Gen/Sites.lean) on the same raw probabilities:
            # identical to the hand-written use-site model (Props/C17_Sites.ipsw_sampling_generated)
            g, _ = drv.ask('site', kind='ipsw', gen=int(cfg['gen']), stab=int(cfg['stab']), n=fl(n),
                           d=fl(U['p']['denom']), **base)
            if (g.get('d'), g.get('n'), g.get('w')) != (rep['d'], rep['n'], rep['w']):
                return dict(g, status='err generated call site differs from the use-site model'), {}
        if rep['status'] == 'ok':
            exp = {'p.denom': dec_list(rep['d'], unfx), 'w.ipsw': dec_list(rep['w'], unfx),
                   'aux.numer_col': dec_list(rep['n'], unfx)}
    elif site == 'treatment_model(generalize)':
        obs = U['aux']['obs']
        rep = ask(kind='iptw', gsite='iptw_calculator', caller=cfg['cls'], stab=int(cfg['stab']), std='population',
                  a=bl(U['aux']['a'][obs]), n=fl(U['aux']['n_ref'][obs]), d=fl(U['aux']['d_ref'][obs]))
        if rep['status'] == 'ok':
            w = np.full(len(obs), np.nan)
            w[obs] = dec_list(rep['w'], unfx)
            exp = {'w.iptw': w}
    elif site == 'crossfit':
        for k, v in U['p'].items():
            if k.startswith('pa1_'):
                rep = ask(kind='cf', gsite=cfg['cls'], p=fl(v))
                if rep['status'] != 'ok':
                    return rep, {}
                exp['p.' + k] = dec_list(rep['pa1'], unfx)
                exp['p.pa0_' + k[4:]] = dec_list(rep['pa0'], unfx)
    else:
        raise KeyError(site)
    return rep, exp


def get(obs, dotted):
    a, b = dotted.split('.', 1)
    return obs[a][b]


def estimator_case(chk, drv, site, runner, cfg, data, U, kind, bound, seed_note):
    reach = kind.startswith('reached')
    spec, falsy, lo, hi = spec_of(bound)
    raw = clipped_probs(site, cfg, U)
    nclipped = int(sum(((v < lo) | (v > hi)).sum() for v in raw.values()))
    case = {'site': site, 'cfg': cfg, 'bound_kind': kind, 'bound': bound if not isinstance(bound, tuple) else list(bound),
            'n': data['n'], 'fitted_probabilities_outside': nclipped, 'data': seed_note}
    try:
        B = runner(data, cfg, bound)
    except Exception as ex:                                     # noqa: BLE001  (an estimator that dies is a failure)
        chk.case(None, None)
        chk.d(False, '%s runs with bound=%s (raised %s: %s)' % (site, kind, type(ex).__name__, str(ex)[:120]), case)
        return None
    consistency_case(chk, site, cfg, B, seed_note, kind, bound)
    nontriv = (nclipped > 0) == reach
    chk.case(None, (site, repr(sorted(cfg.items())), kind, seed_note['id']) if nontriv else None,
             sample=dict(case, data=seed_note['id'], estimates=B['est'], unbounded=U['est'])
             if chk.evals % 61 == 0 else None)
    chk.count('%s|%s' % (site, kind))
    if not nontriv:
        chk.count('bound_kind_not_as_labelled')
        return B
    # ---------------------------------------------------------------- D
    if not reach:
        for grp in ('p', 'w'):
            for k in B[grp]:
                chk.d(same(B[grp][k], U[grp][k]),
                      'unreached bound: %s %s identical to the run without bound' % (site, k), case)
        for k in B['est']:
            # estimates: 1e-12 relative (a pandas Series becomes an ndarray when bounded: reductions may sum in a
            # different order; a bound that bites moves an estimate by >= 1e-6 on these data)
            chk.d(close(B['est'][k], U['est'][k], rtol=1e-12, atol=1e-14),
                  'unreached bound: %s estimate %s identical to the run without bound' % (site, k), case)
        if site == 'StochasticTMLE' and cfg['which'] == 'exposure':
            chk.d(int(B['aux']['ntrunc']) == 0, 'unreached bound: StochasticTMLE reports 0 truncated', case)
    else:
        cap = max(1 / lo, 1 / (1 - hi)) if (lo > 0 and hi < 1) else math.inf
        # every fitted probability used equals the clip of the fitted probability and lies in [lo, hi]
        if site == 'StochasticTMLE' and cfg['which'] == 'exposure':
            p = np.clip(U['aux']['pred_ref'], lo, hi)
            want = np.where(U['aux']['a'] == 1, p, 1 - p)
            chk.d(same(B['p']['den'], want), 'StochasticTMLE denominators = clipped probability (p | 1-p)', case)
            chk.d(bool((1 / B['p']['den'] <= cap * (1 + 1e-12)).all()), 'StochasticTMLE weights <= max(1/lo,1/(1-hi))',
                  case)
            chk.d(int(B['aux']['ntrunc']) == nclipped, 'StochasticTMLE number truncated = number of clipped values', case)
        elif site == 'crossfit':
            chk.d(B['aux']['ncalls'] == U['aux']['ncalls'] and B['aux']['ncalls'] > 0,
                  'harness: cross-fit probabilities observed in both runs', case)
            for k, v in raw.items():
                want = np.clip(v, lo, hi)
                chk.d(k in B['p'] and same(B['p'][k], want), 'cross-fit %s: Pr(A=1) used = clipped prediction' % cfg['cls'],
                      case)
                k0 = 'pa0_' + k[4:]
                chk.d(k0 in B['p'] and same(B['p'][k0], 1 - want), 'cross-fit %s: Pr(A=0) used = 1 - clipped' % cfg['cls'],
                      case)
                if k in B['p']:
                    chk.d(bool((1 / B['p'][k] <= (1 / lo) * (1 + 1e-12)).all()) and
                          bool((1 / B['p'][k0] <= (1 / (1 - hi)) * (1 + 1e-12)).all()),
                          'cross-fit weights <= 1/lo and 1/(1-hi)', case)
        elif site in ('IPTW.missing_model', 'GEstimationSNM.missing_model'):
            obs = U['aux']['obs']
            want = U['aux']['n_ref'][obs] / np.clip(U['aux']['d_ref'][obs], lo, hi)
            got = B['w']['ipmw']
            chk.d(bool(np.isnan(got[~obs]).all()) and bool(np.allclose(got[obs], want, rtol=1e-10, atol=0)),
                  '%s: weights = numerator / clipped denominator' % site, case)
            chk.d(bool((got[obs] <= (1 / lo) * (1 + 1e-9)).all()), '%s: weights <= 1/lo' % site, case)
        elif site == 'treatment_model(generalize)':
            obs = U['aux']['obs']
            d = np.clip(U['aux']['d_ref'][obs], lo, hi)
            a = U['aux']['a'][obs]
            if cfg['stab']:
                n = np.clip(U['aux']['n_ref'][obs], lo, hi)
                want = np.where(a == 1, n / d, (1 - n) / (1 - d))
            else:
                want = np.where(a == 1, 1 / d, 1 / (1 - d))
            got = B['w']['iptw']
            chk.d(bool(np.allclose(got[obs], want, rtol=1e-10, atol=0)),
                  '%s.treatment_model: weights from clipped probabilities' % cfg['cls'], case)
            chk.d(bool((got[obs] <= cap * (1 + 1e-9)).all()), '%s.treatment_model: weights <= max(1/lo, 1/(1-hi))'
                  % cfg['cls'], case)
        else:
            for k, v in raw.items():
                chk.d(same(B['p'][k], np.where(np.isnan(v), np.nan, np.clip(v, lo, hi))),
                      '%s: %s used = clip of the fitted probability' % (site, k), case)
            if site == 'IPTW.treatment_model':
                d, a = B['p']['denom'], U['aux']['a']
                if cfg['std'] == 'population':
                    if cfg['stab']:
                        n = B['p']['numer']
                        want = np.where(a == 1, n / d, (1 - n) / (1 - d))
                    else:
                        want = np.where(a == 1, 1 / d, 1 / (1 - d))
                    chk.d(same(B['w']['iptw'], want), 'IPTW weights = formula on the clipped probabilities', case)
                    chk.d(bool((B['w']['iptw'] <= cap * (1 + 1e-12)).all()), 'IPTW weights <= max(1/lo, 1/(1-hi))', case)
            if site == 'IPSW.sampling_model':
                d = B['p']['denom']
                n = B['p']['numer'] if cfg['stab'] else 1.0
                if cfg['gen']:
                    want = n / d
                elif cfg['stab']:
                    want = ((1 - d) / d) * (n / (1 - n))
                else:
                    want = (1 - d) / d
                chk.d(bool(np.allclose(B['w']['ipsw'], want, rtol=1e-13, atol=0)),
                      'IPSW weights = formula on the clipped fitted probabilities (constant numerator 1 when '
                      'unstabilized)', case)
                if cfg['gen']:
                    chk.d(bool((B['w']['ipsw'] <= (1 / lo) * (1 + 1e-12)).all()), 'IPSW weights <= 1/lo', case)
            if site in ('AIPTW', 'TMLE') and cfg['which'] == 'exposure':
                chk.d(bool((1 / B['p']['g1'] <= (1 / lo) * (1 + 1e-12)).all()) and
                      bool((1 / B['p']['g0'] <= (1 / lo) * (1 + 1e-12)).all()), '%s: 1/g1, 1/g0 <= 1/lo' % site, case)
        moved = any(abs(B['est'][k] - U['est'][k]) > 0 for k in B['est'])
        chk.count('reached_bound_moved_estimate' if moved else 'reached_bound_estimate_unchanged')
    # ---------------------------------------------------------------- K
    if drv is not None:
        rep, exp = model_expect(drv, site, cfg, U, bound)
        ok = rep['status'] == 'ok' and bool(exp)
        bad = []
        for k, v in exp.items():
            got = get(B, k)
            tight = not k.startswith('w.') or site in ('IPTW.treatment_model',)
            if tight:
                good = same(got, v)
            else:           # weights whose inputs come from the harness's reference fit / a pandas expression
                good = bool(np.allclose(got, arr(v), rtol=1e-10, atol=0, equal_nan=True))
            if not good:
                bad.append(k)
        chk.k(ok and not bad, 'bw: the lines of %s regenerated from the source (Gen/BoundSites.lean) vs implementation (%s)'
              % (site, ','.join(bad) or 'status'),
              {'case': case, 'model_status': rep.get('status'), 'mismatch': bad})
    return B


def consistency_case(chk, site, cfg, obs, note, kind, bound):
    """D on ONE run (any bound): the reported estimate is the documented estimator evaluated at the probabilities the
    object exposes (so a truncated probability that is shown is also the one that is used), and derived public
    state is assembled from the truncated values.  Tolerances: 1e-6 where both sides end an IRLS, 1e-10 closed forms."""
    case = {'site': site, 'cfg': cfg, 'data': note, 'bound_kind': kind,
            'bound': list(bound) if isinstance(bound, tuple) else bound}
    for k, (val, tol) in obs['aux'].get('recomputed', {}).items():
        chk.case(None, None)
        chk.d(close(obs['est'][k], val, rtol=tol, atol=tol),
              '%s: reported %s = documented formula at the (truncated) probabilities the object exposes '
              '(reported %.12g, recomputed %.12g)' % (site, k, obs['est'][k], val), case)
    for what, (got, want) in obs['aux'].get('derived', {}).items():
        chk.case(None, None)
        chk.d(same(got, want), '%s: %s' % (site, what), case)


def nobound_case(chk, site, cfg, U, note):
    """D: no bound requested => the fitted probabilities are used as they are (reference GLM fit made by the harness
    with the documented formula on the estimator's own data frame; 1e-9 relative: the same IRLS on the same data)"""
    ucase = {'site': site, 'cfg': cfg, 'data': note, 'bound_kind': 'none', 'bound': False}
    for k, rv in U['aux'].get('ref', {}).items():
        chk.case(None, (site, repr(sorted(cfg.items())), 'noboundref', k, note['id']))
        if ((rv < 0.0005) | (rv > 0.9995)).any():
            chk.count('unbounded_run_with_fitted_probability_beyond_0.0005')
        chk.d(bool(np.allclose(U['p'][k], rv, rtol=1e-9, atol=0, equal_nan=True)),
              'no bound requested: %s %s = fitted values of the reference GLM (no truncation)' % (site, k), ucase)


def history_case(chk, site, runner, cfg, data, note, hist, want, what):
    """run a history on ONE object and judge what it shows at the end against a FRESH object (`want`)"""
    case = {'site': site, 'cfg': cfg, 'bound_kind': 'history', 'history': [list(b) if isinstance(b, tuple) else b
                                                                           for b in hist.bounds],
            'fit_between': hist.fit_between, 'data': note, 'compare_with': 'fresh object given the last specification'}
    chk.case(None, (site, repr(sorted(cfg.items())), repr(hist), note['id']))
    chk.count('history|%s' % site)
    try:
        H = runner(data, cfg, hist)
    except Exception as ex:                                      # noqa: BLE001
        chk.d(False, '%s history raised %s: %s' % (site, type(ex).__name__, str(ex)[:120]), case)
        return
    ok_arrays = all(same(H[g][k], want[g][k]) for g in ('p', 'w') for k in want[g])
    ok_est = all(close(H['est'][k], want['est'][k], rtol=1e-12, atol=1e-14) for k in want['est'])
    bad = [k for g in ('p', 'w') for k in want[g] if not same(H[g][k], want[g][k])] + \
          [k for k in want['est'] if not close(H['est'][k], want['est'][k], rtol=1e-12, atol=1e-14)]
    chk.d(ok_arrays and ok_est, '%s history: %s (differs in %s)' % (site, what, ','.join(bad) or '-'), case)


def estimators(chk, drv, rng, tier):
    ndata = 6 if tier == 'quick' else 24
    ncf = 2 if tier == 'quick' else 6
    ncf_done = 0
    pos_seen = {}
    for di in range(ndata):
        # one data set in three has fitted risks beyond 0.0005 / 0.9995 (rare outcome, strong predictor)
        data = gen_data(rng, extreme=(di % 3 == 1), index_kind=['default', 'shuffled', 'string'][(di + di // 3) % 3])
        note = {'id': 'dataset #%d of this seed/tier (n=%d%s, %s index)'
                      % (di, data['n'], ', extreme risks' if data['extreme'] else '', data['index_kind']),
                'frames': pack(data)}
        chk.count('dataset_%s_%s' % ('extreme' if data['extreme'] else 'ordinary', data['index_kind']))
        for site, runner, cells in SITES:
            if site == 'crossfit':
                # cross-fit only on ordinary data: on the extreme-risk data sets the outcome learner fitted on one small
                # split separates perfectly, predicts exactly 0/1 and statsmodels refuses the infinite offset of the
                # targeting step -- nothing to do with the exposure-model bound judged here
                if data['extreme'] or ncf_done >= ncf:
                    continue
                ncf_done += 1 if cells and site == 'crossfit' else 0
            for ci, cfg in enumerate(cells):
                try:
                    U = runner(data, cfg, False)
                except Exception as ex:                          # noqa: BLE001
                    # zEpid raised on valid data although no bound was requested.  Only a failure of the harness's own
                    # reference nuisance fits (separation, non-convergence) excuses it
                    try:
                        for fm, fr in (('A ~ ' + FORMULA_A, data['full']), ('Y ~ ' + FORMULA_Y, data['full'].dropna())):
                            ref_glm(fm, fr)
                        excused = False
                    except Exception:                            # noqa: BLE001
                        excused = True
                    if excused:
                        chk.discard('reference GLM fit failed on this data set')
                    else:
                        chk.case(None, None)
                        chk.d(False, '%s runs without a bound (raised %s: %s)'
                              % (site, type(ex).__name__, str(ex)[:100]), {'site': site, 'cfg': cfg, 'data': note,
                                                                           'bound_kind': 'none', 'bound': False})
                    continue
                # ---- H: the harness's reference nuisance fit is reproduced by the unbounded run
                chk.h_checked += 1
                if 'd_ref' in U['aux'] and 'ipmw' in U['w']:
                    obs = U['aux']['obs']
                    href = np.allclose(U['w']['ipmw'][obs], U['aux']['n_ref'][obs] / U['aux']['d_ref'][obs], rtol=1e-10)
                    chk.k(bool(href), 'nuisance layer: %s weights = reference GLM fit' % site, {'site': site, 'cfg': cfg})
                nobound_case(chk, site, cfg, U, note)
                consistency_case(chk, site, cfg, U, note, 'none', False)
                bounds = choose_bounds(clipped_probs(site, cfg, U))
                if cfg.get('cont'):
                    # the unbounded run already truncates at the documented continuous_bound, and an explicit bound
                    # replaces it: "unreached => identical" is only meaningful against the raw fitted values
                    bounds = {k: v for k, v in bounds.items() if k.startswith('reached')}
                fresh = {}
                for kind, bound in bounds.items():
                    if kind == 'reached_tuple' and tier == 'quick' and site != 'TMLE':
                        continue
                    cfg_run = cfg
                    if kind == 'reached_asym':
                        # call convention (round 4): on every other data set a cell sees, the reachable asymmetric bound is
                        # handed over POSITIONALLY in the documented parameter order (with the other options); it must be
                        # applied exactly as the keyword form is -- same predicates, same unbounded run to compare with
                        k = pos_seen.get((site, ci), 0)
                        pos_seen[(site, ci)] = k + 1
                        if (k + ci) % 2 == 0:
                            cfg_run = dict(cfg, _pos=True)
                            chk.count('call_convention_positional|%s' % site)
                    fresh[kind] = estimator_case(chk, drv, site, runner, cfg_run, data, U, kind, bound, note)
                # ---- histories on one object: the last specification is the one that counts
                hk = 'reached_sym' if fresh.get('reached_sym') is not None else 'reached_asym'
                if fresh.get(hk) is not None:
                    bb = bounds[hk]
                    history_case(chk, site, runner, cfg, data, note, Hist([bb, False], True), U,
                                 'bound then no bound (fitted in between) = fresh run without bound')
                    history_case(chk, site, runner, cfg, data, note, Hist([False, bb], False), fresh[hk],
                                 'no bound then bound = fresh run with that bound')
                    if tier == 'thorough' and 'unreached_asym' in bounds:
                        history_case(chk, site, runner, cfg, data, note, Hist([bb, bounds['unreached_asym'], bb], True),
                                     fresh[hk], 'bound, unreachable bound, bound again (fits in between) = fresh bounded run')
                # a falsy bound (0.0) must behave as no bound at all
                if site in ('IPTW.treatment_model', 'AIPTW') and cfg in cells[:1]:
                    Z = runner(data, cfg, 0.0)
                    case = {'site': site, 'cfg': cfg, 'bound': 0.0}
                    chk.case(None, None)
                    chk.d(all(same(Z['p'][k], U['p'][k]) for k in U['p']) and
                          all(close(Z['est'][k], U['est'][k], rtol=1e-12) for k in U['est']),
                          'bound=0.0 is falsy: identical to no bound', case)
        # invalid bounds must be rejected by the estimator as well (not silently ignored)
        from zepid.causal.ipw import IPTW
        from zepid.causal.doublyrobust import TMLE
        for badb in ([0.9, 0.1], 1.5, 'a', 2, [0.1, 1.2]):
            for nm in ('IPTW', 'TMLE'):
                try:
                    if nm == 'IPTW':
                        o = IPTW(data['full'], 'A', 'Y')
                        o.treatment_model(FORMULA_A, bound=badb, print_results=False)
                    else:
                        o = TMLE(data['full'], 'A', 'Y')
                        o.exposure_model(FORMULA_A, bound=badb, print_results=False)
                    rej = False
                except (ValueError, TypeError, IndexError):
                    rej = True
                chk.case(None, None)
                chk.d(rej, '%s rejects an invalid bound' % nm, {'estimator': nm, 'bound': repr(badb)})


def run(chk, drv, rng, tier):
    import zepid.causal.doublyrobust.crossfit  # noqa: F401  (so that Spy finds the module)
    rounds = 6 if tier == 'quick' else 40
    for r in range(rounds):
        forms = bound_forms(rng)
        for bi, bound in enumerate(forms):
            spec, expect = classify(bound)
            lo, hi = (expect[1], expect[2]) if expect[0] == 'accept' else (0.1, 0.9)
            v = make_vector(rng, lo, hi)
            conts = containers(rng, v)
            names = list(conts) if (tier == 'thorough' or r == 0) else \
                [list(conts)[i] for i in rng.choice(len(conts), size=4, replace=False)]
            for cname in names:
                obj, snap = conts[cname]
                helper_case(chk, drv, cname, obj, snap, copy.deepcopy(bound), 'form#%d' % bi)
    chk.extra['bound_forms'] = len(bound_forms(np.random.default_rng(0)))
    estimators(chk, drv, rng, tier)
    chk.extra['estimator_sites'] = [s[0] + ':' + ','.join(sorted(repr(c) for c in s[2])) for s in SITES]


def replay(rec):
    """re-run stored failing helper cases on the real code (estimator cases carry the seed/tier to regenerate)"""
    from zepid.calc import probability_bounds
    bad = 0
    for f in rec.get('failures', []) + rec.get('k_failures', []):
        case = f.get('case') or {}
        case = case.get('case', case)
        if 'container' in case:
            v = [unfx(x) for x in case['v']]
            bound = eval(case["bound"], {"nan": float("nan"), "array": np.array, "np": np, "float32": np.float32,
                                         'float64': np.float64, 'dtype': np.dtype})
            try:
                out = probability_bounds(v, bound).tolist()
            except Exception as ex:                              # noqa: BLE001
                out = 'raised %s: %s' % (type(ex).__name__, ex)
            print(f.get('what'), '| container', case['container'], '| bound', case['bound'])
            print('   v      =', v)
            print('   result =', out)
            bad += 1
        elif 'site' in case and isinstance(case.get('data'), dict) and 'frames' in case['data']:
            import common
            data = unpack(case['data']['frames'])
            site = case['site']
            runner = [r for n, r, _ in SITES if n == site][0]
            bound = case.get('bound')
            if case.get('bound_kind') == 'reached_tuple':
                bound = tuple(bound)
            chk = common.Check('C17', 'replay', 0)
            with common.quiet():
                try:
                    U = runner(data, case['cfg'], False)
                except Exception as ex:                          # noqa: BLE001
                    print(site, case['cfg'], 'run without bound raises %s: %s' % (type(ex).__name__, ex))
                    bad += 1
                    continue
                if case['bound_kind'] == 'history':
                    hb = [tuple(b) if isinstance(b, list) and len(b) == 2 and False else b for b in case['history']]
                    last = hb[-1]
                    want = U if not last else runner(data, case['cfg'], last)
                    history_case(chk, site, runner, case['cfg'], data, case['data'], Hist(hb, case['fit_between']), want,
                                 'history = fresh object given the last specification')
                elif case['bound_kind'] == 'none':
                    nobound_case(chk, site, case['cfg'], U, case['data'])
                    consistency_case(chk, site, case['cfg'], U, case['data'], 'none', False)
                else:
                    estimator_case(chk, None, site, runner, case['cfg'], data, U, case['bound_kind'], bound, case['data'])
            print(site, case['cfg'], case['bound_kind'], 'bound =', case.get('history', bound), '| n =', data['n'])
            print('   unbounded estimates:', U['est'])
            for g in chk.d_fail:
                print('   FAILS:', g['what'])
            if not chk.d_fail:
                print('   all predicates hold now')
            bad += bool(chk.d_fail)
        else:
            print(f.get('what'), '|', {k: v for k, v in case.items() if k != 'data'})
            bad += 1
    return 1 if bad else 0
