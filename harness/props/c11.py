"""C11 -- calls never modify the caller's data; refitting / re-specifying is history-independent; results before
the required models are specified raise.

Model (lean/ZepidVerif/Model/History.lean): per estimator class a table of what every public method reads and
writes (slots, fitted configuration, never-reset registers).  For a call history the native driver returns, per
call, whether the call raises and the *canonical call list* of the state before it (last specification of each slot,
last successful fit with the specifications in force then).

K  the real object, driven through the history, must raise exactly where the model says, and after every call
   its return value / printed summary / public result attributes must equal those of a freshly constructed
   object on which only the canonical list (computed by the model) and that call were run.
D  the property's own predicate, without the model: (1) the user's DataFrame / arrays are bit-identical
   before and after every call (values, NaN pattern, columns, dtypes, index) -- a run-time test, Python aliasing is
   not carried by the Lean model; (2) fit before the documented required models / summary before a successful
   fit raises; (3) the object after the history equals a fresh object given the last successful call of each
   specification method (+ last fit), computed by a Python rule from the calls the implementation accepted.
H  statsmodels GLM fits are deterministic functions of (formula, data) (basis of the 1e-9 tolerance), and
   np.random.seed makes the Monte Carlo steps reproducible.
"""
import contextlib
import copy
import io
import json
import math
import os
import re
import time
import warnings

import numpy as np
import pandas as pd

from common import close

REQUIRED = ['slots_last', 'guard_complete', 'results_guard', 'results_guard_nofit', 'fitted_isSome_iff',
            'spec_accepted', 'error_keeps_state', 'refit_fresh', 'lastSpecs_mem', 'history_independent',
            'clean_calm', 'normalize_short', 'calm_needed', 'tables_wf', 'tables_all', 'observer_keeps_state',
            'observers_erasable', 'spec_order_irrelevant']
RULE = ('per estimator class and configuration cell (outcome type x missing outcomes x weights x standardize / '
        'generalize ...) a random data set (n 150-300) and (a) the guard stream: every method on a fresh object and '
        'after every single specification; (b) random call histories of 3-8 (quick) / 4-14 (thorough) calls mixing '
        're-specification with other formulas / bounds / stabilisation / custom models, refits with other plans / '
        'p / solver, summaries and diagnostics in any order with repeats.  One case = one call of one history; '
        'distinct = distinct (class, cell, call list prefix); non-trivial = the call follows at least one '
        're-specification or refit (the canonical list is shorter than the history).  (c) the refit run: one '
        'specification, refits small -> large -> small with observers between them; (d) the observer stream: the '
        'specification calls in reverse of the documented order (labelled additive models: descending label) with a '
        'reporting / diagnostic / plotting call after each, observers before and after the fit.  After every observer '
        'call every public attribute of the object and every container handed out earlier is compared exactly.')
ASSUMPTIONS = ['statsmodels GLM/GEE fits and predictions are deterministic functions of (formula, data, weights): '
               'refitting the same model on the same data is bit-identical (measured per data set, gate H)',
               'np.random.seed(s) makes the Monte Carlo draws of StochasticTMLE / fit_stochastic / '
               'MonteCarloGFormula reproducible; histories always pass a seed',
               'non-mutation of the caller\'s data is monitored at run time (Python aliasing is outside the Lean model)',
               'matplotlib (Agg) axes expose the plotted data through Axes.lines']

COV = ['L1', 'L2', 'L1 + L2', 'L1 + L3', 'L1 + L2 + L3', 'L2 + L3 + L1:L3']
BOUNDS = [False, False, False, 0.1, 0.3, [0.35, 0.6]]     # strong enough to bite on most data sets


# ------------------------------------------------------------------------------------------ snapshots
def snap(x):
    """deep, value-level snapshot of a user object (DataFrame / Series / ndarray / list)"""
    if isinstance(x, pd.DataFrame):
        return ('df', [str(c) for c in x.columns], [str(t) for t in x.dtypes], snap(x.index),
                [snap(x[c].to_numpy(copy=True)) for c in x.columns])
    if isinstance(x, pd.Series):
        return ('series', str(x.name), str(x.dtype), snap(x.index), snap(x.to_numpy(copy=True)))
    if isinstance(x, pd.Index):
        return ('index', str(x.name), str(x.dtype), snap(x.to_numpy(copy=True)))
    if isinstance(x, np.ndarray):
        if x.dtype == object:
            return ('objarr', x.shape, [repr(v) for v in x.ravel().tolist()])
        return ('arr', str(x.dtype), x.shape, x.tobytes())
    if isinstance(x, (list, tuple)):
        return ('seq', type(x).__name__, [snap(v) for v in x])
    if isinstance(x, (set, frozenset)):
        return ('set', sorted(repr(snap(v)) for v in x))
    if isinstance(x, dict):
        return ('dict', sorted((repr(k), repr(snap(v))) for k, v in x.items()))
    if type(x).__module__.startswith('networkx'):
        return ('graph', sorted(map(repr, x.nodes)), sorted(map(repr, x.edges)))
    if isinstance(x, (str, bytes, int, float, bool, type(None), np.generic)) or callable(x) and not hasattr(x, 'fit'):
        return ('val', repr(x))
    if hasattr(x, '__dict__'):          # a learner object of the user: parameters and fitted attributes, nested
        return ('obj', type(x).__name__, sorted((k, repr(snap(v))) for k, v in vars(x).items()))
    return ('val', repr(x))


class Watch:
    """the user's objects; compared with their snapshots after every call"""

    def __init__(self):
        self.items = []

    def add(self, name, obj):
        self.items.append((name, obj, snap(obj)))

    def changed(self):
        """names of the objects that differ from their snapshot; each change is reported once (re-baselined)"""
        out = []
        for j, (name, obj, s) in enumerate(self.items):
            now = snap(obj)
            if now != s:
                out.append(name)
                self.items[j] = (name, obj, now)
        return out


def state_snap(x, depth=0):
    """exact snapshot of one attribute of an estimator object.  Data (frames, arrays, lists, scalars, graphs) by value;
    any other object (a fitted statsmodels result, a learner) by identity, type and -- when it has them -- its fitted
    coefficients: reading such an object may fill its private caches, replacing it or refitting it is a change."""
    if isinstance(x, (pd.DataFrame, pd.Series, pd.Index, np.ndarray, str, bytes, int, float, bool, type(None),
                      np.generic)) or type(x).__module__.startswith('networkx'):
        return snap(x)
    if isinstance(x, (list, tuple)) and depth < 4:
        return ('seq', type(x).__name__, [state_snap(v, depth + 1) for v in x])
    if isinstance(x, (set, frozenset)) and depth < 4:
        return ('set', sorted(repr(state_snap(v, depth + 1)) for v in x))
    if isinstance(x, dict) and depth < 4:
        return ('dict', sorted((repr(k), repr(state_snap(v, depth + 1))) for k, v in x.items()))
    par = getattr(x, 'params', None)
    coef = getattr(x, 'coef_', None) if par is None else par
    try:
        coef = None if coef is None or callable(coef) else np.asarray(coef, dtype=float).tobytes()
    except (TypeError, ValueError):
        coef = None
    return ('object', type(x).__name__, id(x), coef)


def public_state(spec, obj):
    """every public attribute of the object (and the result attributes the spec lists), exactly.  The object's private
    working copy of the data (`spec.stored`) column by column: see `state_moved`."""
    names = sorted({a for a in vars(obj) if not a.startswith('_')} | set(spec.obs))
    out = {}
    for a in names:
        v = getattr(obj, a, '<absent>')
        if a in spec.stored and isinstance(v, pd.DataFrame):
            out[a] = ('frame', id(v), snap(v.index),
                      {str(c): (str(v[c].dtype) if isinstance(v[c], pd.Series) else 'dup', snap(v[c].to_numpy(copy=True)))
                       for c in v.columns})
        else:
            out[a] = state_snap(v)
    return out


def state_moved(prev, cur, scratch, allowed=()):
    """names of the public attributes that differ between two `public_state`s.  In the object's private working frame a
    reporting call may add a scratch column of its own (`_ipfw_` of IPTW.positivity) and overwrite it at its next call:
    columns first introduced by a reporting call are collected in `scratch` and not judged; every other column (the
    caller's data, the columns the specification / fit calls stored), the index and the identity of the frame are."""
    out = []
    for a in sorted(set(prev) | set(cur)):
        p, c = prev.get(a), cur.get(a)
        if a in allowed or p == c:
            continue
        if p is not None and c is not None and p[0] == 'frame' and c[0] == 'frame':
            if p[1] != c[1] or p[2] != c[2]:
                out.append(a + (' (index)' if p[1] == c[1] else ' (another frame)'))
                continue
            scratch |= {(a, k) for k in c[3] if k not in p[3]}
            bad = sorted(k for k in p[3] if (a, k) not in scratch and p[3][k] != c[3].get(k))
            if bad:
                out.append('%s (columns %s)' % (a, ', '.join(bad)))
            continue
        out.append(a)
    return out


def handed_out(spec, obj):
    """(attribute, object) for every mutable container reachable through a public attribute: what a user may have
    taken from the object and still hold (a result vector, a table, a list of per-partition estimates)"""
    out = []
    for a in sorted({a for a in vars(obj) if not a.startswith('_')} | set(spec.obs)):
        v = getattr(obj, a, None)
        if isinstance(v, (pd.DataFrame, pd.Series, np.ndarray, list, dict)):
            out.append((a, v))
    return out


# ------------------------------------------------------------------------------------------ canonical values
def canon(v):
    """implementation value -> comparable plain structure"""
    import matplotlib.axes
    if v is None:
        return None
    if isinstance(v, (str, bool)):
        return v
    if isinstance(v, (int, float, np.integer, np.floating)):
        return float(v)
    if isinstance(v, pd.DataFrame):
        out = {}
        for c in sorted(str(c) for c in v.columns):
            col = v[c] if c in v.columns else v[[k for k in v.columns if str(k) == c][0]]
            if isinstance(col, pd.DataFrame):      # duplicated column labels
                out[c] = [canon(col.iloc[:, j]) for j in range(col.shape[1])]
            else:
                out[c] = canon(col)
        out['__index__'] = [str(i) for i in v.index.tolist()]
        return out
    if isinstance(v, pd.Series):
        return canon(v.to_numpy())
    if isinstance(v, np.ndarray):
        if v.dtype == object or v.dtype.kind in 'USO':
            return [canon(x) for x in v.tolist()]
        return np.asarray(v, dtype=float)
    if isinstance(v, (list, tuple)):
        return [canon(x) for x in v]
    if isinstance(v, (set, frozenset)):
        return sorted(repr(canon(x)) for x in v)
    if type(v).__module__.startswith('networkx'):
        return [sorted(map(repr, v.nodes)), sorted(map(repr, v.edges))]
    if isinstance(v, matplotlib.axes.Axes):
        return [np.asarray(l.get_xydata(), dtype=float) for l in v.lines]
    return repr(type(v))


def same_val(a, b, rtol=1e-9):
    """equality of canonical values; floats to 1e-9 relative (the two objects run the same deterministic
    computations on the same data, measured bit-identical by gate H), NaN / inf pattern exactly"""
    if a is None or b is None:
        return a is None and b is None
    if isinstance(a, (str, bool)) or isinstance(b, (str, bool)):
        return type(a) == type(b) and a == b
    if isinstance(a, float) and isinstance(b, float):
        return close(a, b, rtol=rtol, atol=1e-12)
    if isinstance(a, dict) or isinstance(b, dict):
        return isinstance(a, dict) and isinstance(b, dict) and sorted(a) == sorted(b) and \
            all(same_val(a[k], b[k], rtol) for k in a)
    if isinstance(a, np.ndarray) and isinstance(b, np.ndarray):
        if a.shape != b.shape:
            return False
        na, nb = np.isnan(a), np.isnan(b)
        if not np.array_equal(na, nb):
            return False
        x, y = a[~na], b[~nb]
        fin = np.isfinite(x)
        if not np.array_equal(fin, np.isfinite(y)) or not np.array_equal(x[~fin], y[~fin]):
            return False
        return bool(np.all(np.abs(x[fin] - y[fin]) <= 1e-12 + rtol * np.maximum(np.abs(x[fin]), np.abs(y[fin]))))
    if isinstance(a, list) and isinstance(b, list):
        return len(a) == len(b) and all(same_val(x, y, rtol) for x, y in zip(a, b))
    if isinstance(a, np.ndarray) or isinstance(b, np.ndarray):     # array vs list
        try:
            return same_val(np.asarray(a, dtype=float), np.asarray(b, dtype=float), rtol)
        except (TypeError, ValueError):
            return False
    return a == b


NUM = re.compile(r'-?\d+\.\d+(?:e[-+]?\d+)?|-?\d+(?:e[-+]?\d+)?|\bnan\b|\binf\b')


STAMP = re.compile(r'(Date:\s+)\w{3}, \d{2} \w{3} \d{4}|(Time:\s+)\d\d:\d\d:\d\d')


def same_text(a, b):
    """printed summaries: identical skeleton; printed numbers equal up to one unit of the last printed digit
    (a 1e-16 difference may flip a rounding)"""
    a, b = STAMP.sub('<stamp>', a), STAMP.sub('<stamp>', b)      # statsmodels prints the wall-clock time
    if a == b:
        return True
    if NUM.sub('#', a) != NUM.sub('#', b):
        return False
    for x, y in zip(NUM.findall(a), NUM.findall(b)):
        if x == y:
            continue
        try:
            dec = max(len(x.split('.')[1]) if '.' in x else 0, len(y.split('.')[1]) if '.' in y else 0)
            if abs(float(x) - float(y)) > 1.01 * 10 ** (-dec):
                return False
        except ValueError:
            return False
    return True


# ------------------------------------------------------------------------------------------ data
def expit(x):
    return 1 / (1 + np.exp(-x))


def gen_cross(rng, n, ybin=True, miss=False, perm=False):
    L1 = rng.binomial(1, 0.5, n)
    L2 = np.round(rng.normal(size=n), 3)
    L3 = rng.binomial(1, 0.35, n)
    A = rng.binomial(1, expit(-0.2 + 0.6 * L1 - 0.5 * L2 + 0.4 * L3))
    lin = -0.4 + 0.8 * A + 0.6 * L1 + 0.4 * L2 - 0.5 * L3
    if ybin:
        Y = rng.binomial(1, expit(lin)).astype(float)
    else:
        Y = np.round(np.exp(0.4 * lin + 0.35 * rng.normal(size=n)) + 0.5, 3)      # positive, continuous
    if miss:
        m = rng.uniform(size=n) < expit(-1.6 + 0.5 * A - 0.4 * L1)
        if m.sum() < 8:
            m[rng.choice(n, 8, replace=False)] = True
        Y = Y.copy()
        Y[m] = np.nan
    W = rng.integers(1, 4, n)
    df = pd.DataFrame({'A': A, 'Y': Y, 'L1': L1, 'L2': L2, 'L3': L3, 'W': W})
    if perm:
        df.index = rng.permutation(n) + 7
    return df


def gen_select(rng, n, ybin=True):
    L1 = rng.binomial(1, 0.5, n)
    L2 = np.round(rng.normal(size=n), 3)
    S = rng.binomial(1, expit(0.2 + 0.7 * L1 - 0.5 * L2))
    A = rng.binomial(1, expit(-0.1 + 0.4 * L1)).astype(float)
    lin = -0.5 + 0.9 * A + 0.5 * L1 - 0.4 * L2 + 0.5 * A * L1
    Y = rng.binomial(1, expit(lin)).astype(float) if ybin else np.round(1.5 + lin + 0.5 * rng.normal(size=n), 3)
    A[S == 0] = np.nan
    Y[S == 0] = np.nan
    W = rng.integers(1, 4, n)
    return pd.DataFrame({'S': S, 'A': A, 'Y': Y, 'L1': L1, 'L2': L2, 'W': W})


def gen_long(rng, nid, T=4):
    """person-period table: id, t (1..), enter (t-1), A and L1, L2 fixed at baseline, L (time-varying), d (event)"""
    rows = []
    for i in range(nid):
        L1 = int(rng.binomial(1, 0.5))
        L2 = round(float(rng.normal()), 3)
        A = int(rng.binomial(1, expit(-0.2 + 0.6 * L1 - 0.3 * L2)))
        tv = int(rng.binomial(1, 0.4))
        last = int(rng.integers(1, T + 1)) if rng.uniform() < 0.35 else T      # censoring time
        for t in range(1, last + 1):
            d = int(rng.binomial(1, expit(-2.2 + 0.7 * A + 0.5 * L1 + 0.3 * L2 + 0.4 * tv)))
            rows.append((i, t - 1, t, A, L1, L2, tv, d, int(rng.integers(1, 4))))
            if d:
                break
            tv = int(rng.binomial(1, expit(-0.5 + 1.2 * tv + 0.4 * A)))
    df = pd.DataFrame(rows, columns=['id', 'enter', 't', 'A', 'L1', 'L2', 'L', 'd', 'W'])
    return df.sample(frac=1.0, random_state=int(rng.integers(0, 2 ** 31))).reset_index(drop=True)   # shuffled rows


def gen_long_tv(rng, nid, T=4):
    """person-period table with TWO time-varying covariates: L (binary) and V (continuous), and the functional forms the
    covariate models' `recode` strings re-create during the simulation: Vhi = 1[V > 0], Lx = L * L1"""
    rows = []
    for i in range(nid):
        L1 = int(rng.binomial(1, 0.5))
        L2 = round(float(rng.normal()), 3)
        A = int(rng.binomial(1, expit(-0.2 + 0.6 * L1 - 0.3 * L2)))
        tv = int(rng.binomial(1, 0.4))
        v = round(float(rng.normal(0.2 * L1, 1.0)), 3)
        last = int(rng.integers(1, T + 1)) if rng.uniform() < 0.35 else T      # censoring time
        for t in range(1, last + 1):
            vhi = int(v > 0)
            d = int(rng.binomial(1, expit(-2.3 + 0.7 * A + 0.4 * L1 + 0.3 * L2 + 0.4 * tv + 0.7 * vhi)))
            rows.append((i, t - 1, t, A, L1, L2, tv, v, vhi, tv * L1, d))
            if d:
                break
            tv = int(rng.binomial(1, expit(-0.5 + 1.0 * tv + 0.4 * A + 0.5 * vhi)))
            v = round(float(0.5 * v + 0.4 * tv - 0.3 * A + rng.normal(0, 0.8)), 3)
    df = pd.DataFrame(rows, columns=['id', 'enter', 't', 'A', 'L1', 'L2', 'L', 'V', 'Vhi', 'Lx', 'd'])
    return df.sample(frac=1.0, random_state=int(rng.integers(0, 2 ** 31))).reset_index(drop=True)   # shuffled rows


def gen_flat(rng, nid, T=5):
    """one row per person (IPCW flat_df=True): id, follow-up time t, event d, baseline covariates; rows unsorted"""
    L1 = rng.binomial(1, 0.5, nid)
    L2 = np.round(rng.normal(size=nid), 3)
    A = rng.binomial(1, expit(-0.2 + 0.6 * L1 - 0.3 * L2))
    t = np.round(rng.uniform(0.6, T, nid), 2)
    t[rng.uniform(size=nid) < 0.3] = float(T)
    d = rng.binomial(1, expit(-0.8 + 0.6 * A + 0.4 * L1))
    df = pd.DataFrame({'id': np.arange(nid) + 100, 't': t, 'd': d, 'A': A, 'L1': L1, 'L2': L2})
    return df.sample(frac=1.0, random_state=int(rng.integers(0, 2 ** 31))).reset_index(drop=True)


def gen_wide(rng, n):
    L1 = rng.binomial(1, 0.5, n)
    A1 = rng.binomial(1, expit(-0.2 + 0.5 * L1))
    Y1 = rng.binomial(1, expit(-1.5 + 0.6 * A1 + 0.5 * L1)).astype(float)
    L2 = rng.binomial(1, expit(-0.3 + 0.8 * L1 + 0.4 * A1))
    A2 = rng.binomial(1, expit(-0.2 + 0.5 * L2 + 0.8 * A1))
    Y2 = rng.binomial(1, expit(-1.3 + 0.6 * A2 + 0.5 * L2)).astype(float)
    cens = rng.uniform(size=n) < 0.12
    Y2[cens | (Y1 == 1)] = np.nan
    return pd.DataFrame({'L1': L1, 'A1': A1, 'Y1': Y1, 'L2': L2, 'A2': A2, 'Y2': Y2})


def gen_ipmw(rng, n, kind):
    L1 = rng.binomial(1, 0.5, n)
    L2 = np.round(rng.normal(size=n), 3)
    X = np.round(rng.normal(size=n), 3)
    Z = np.round(rng.normal(size=n), 3)
    mx = rng.uniform(size=n) < expit(-1.2 + 0.6 * L1)
    if kind == 'uniform':
        mz = mx
    else:
        mz = mx | (rng.uniform(size=n) < 0.2)         # Z missing whenever X is: monotone, not uniform
    X[mx] = np.nan
    Z[mz] = np.nan
    return pd.DataFrame({'X': X, 'Z': Z, 'L1': L1, 'L2': L2})


def new_learner(kind):
    """learner objects of the user.  `*_ws` keep state between fits (scikit-learn warm_start=True with a tiny iteration
    budget: a second fit continues from the first), `pipe_ws` keeps it in a nested object."""
    from sklearn.linear_model import LinearRegression, LogisticRegression, SGDRegressor
    from sklearn.pipeline import Pipeline
    from sklearn.preprocessing import StandardScaler
    kind = kind.split(':')[0]
    if kind == 'logit':
        return LogisticRegression(C=1e4, tol=1e-10, max_iter=2000)
    if kind == 'logit_ws':
        return LogisticRegression(warm_start=True, max_iter=2)
    if kind == 'pipe_ws':
        return Pipeline([('sc', StandardScaler()), ('lr', LogisticRegression(warm_start=True, max_iter=2))])
    if kind == 'linear':
        return LinearRegression()
    if kind == 'sgd_ws':
        return SGDRegressor(warm_start=True, max_iter=2, tol=None, random_state=0, eta0=0.001)
    raise KeyError(kind)


BIN_LEARNERS = ['logit', 'logit_ws', 'pipe_ws']
CONT_LEARNERS = ['linear', 'sgd_ws']
LEARNERS = {}       # the user's learner objects of the current data set: ONE instance per name, handed to every call of
                    # every object (history object and fresh objects); zEpid must work on copies


def custom(kind):
    if kind is None:
        return None
    if kind not in LEARNERS:
        LEARNERS[kind] = new_learner(kind)
        if WATCH[0] is not None:
            WATCH[0].add('learner ' + kind, LEARNERS[kind])
    return LEARNERS[kind]


WATCH = [None]      # the monitor of the current data set


def pick(rng, xs):
    return xs[int(rng.integers(0, len(xs)))]


# ------------------------------------------------------------------------------------------ class specs
ARG_MUTATIONS = []      # arrays passed as arguments that a call changed (filled by the call wrappers)


USER_OBJECTS = {}   # other objects of the user handed to calls (arrays, graphs), watched like the DataFrame


class M:
    """a public method: id in the Lean class table, kind, how to draw arguments, how to call it"""

    def __init__(self, mid, name, kind, gen, call, once=False, result=()):
        self.mid, self.name, self.kind, self.gen, self.call, self.once = mid, name, kind, gen, call, once
        self.result = tuple(result)     # public attributes a result-reading method is documented to (re)compute


def noargs(rng, cell):
    return {}, False


class Spec:
    def __init__(self, name, cells, data, make, methods, obs, fit_req, lean_name='', taints=None,
                 feature=None, in_force=None, glm=True, stored=('df', 'gf', 'sample', 'target')):
        self.name = name
        self.lean_name = name if lean_name == '' else lean_name      # None: no Lean table, gate D only
        self.in_force = in_force      # additive classes: which accepted mutator calls are in force (default: last per method)
        self.glm = glm                # the data set is a frame on which the reference GLM of gate H can be fitted
        self.stored = stored          # attributes holding the object's private copy of the caller's frame
        self.known = None             # (ops involved) -> signature of a recorded finding or None
        self.quick_cells = None       # cap on the number of cells in the quick tier (expensive classes)
        self.cells = cells            # list of dicts (configuration cells)
        self.data = data              # (rng, cell, n) -> DataFrame
        self.make = make              # (df, cell) -> object
        self.methods = methods        # list of M, position = method id
        self.obs = obs                # public result attributes compared between objects
        self.fit_req = fit_req        # documented: fit-method name -> specification methods required before it
        self.taints = taints or {}    # model register -> observables it taints ('printed text', 'attribute x')
        self.feature = feature        # (history records, op) -> (name of a stale-state pattern, observables it may change)


def product(**kw):
    import itertools
    keys = list(kw)
    return [dict(zip(keys, vals)) for vals in itertools.product(*[kw[k] for k in keys])]


def mk_specs():
    from zepid.causal.ipw import IPTW, StochasticIPTW, IPMW, IPCW
    from zepid.causal.gformula import TimeFixedGFormula, SurvivalGFormula, MonteCarloGFormula, IterativeCondGFormula
    from zepid.causal.doublyrobust import AIPTW, TMLE, StochasticTMLE
    from zepid.causal.snm import GEstimationSNM
    from zepid.causal.generalize import IPSW, GTransportFormula, AIPSW
    S = {}

    def cross(rng, cell, n):
        return gen_cross(rng, n, ybin=cell.get('ybin', True), miss=cell.get('miss', False),
                         perm=bool(rng.uniform() < 0.3))

    def g_bound(rng):
        return copy.deepcopy(pick(rng, BOUNDS))

    # ---------------------------------------------------------------- IPTW
    def g_tm(rng, cell):
        stab = bool(rng.uniform() < 0.65)
        return {'model_denominator': pick(rng, COV), 'model_numerator': ('L1' if stab and rng.uniform() < 0.3 else '1'),
                'stabilized': stab, 'bound': g_bound(rng), 'print_results': bool(rng.uniform() < 0.2)}, False

    def g_mm(rng, cell):
        stab = bool(rng.uniform() < 0.65)
        return {'model_denominator': 'A + ' + pick(rng, COV),
                'model_numerator': ('A + L1' if stab and rng.uniform() < 0.3 else None),
                'stabilized': stab, 'bound': g_bound(rng), 'print_results': False}, False

    def g_msm(rng, cell):
        return {'model': pick(rng, ['A', 'A', 'A + L1', 'A + L1 + A:L1'])}, False

    def g_ifit(rng, cell):
        if cell['ybin']:
            return {}, False
        return {'continuous_distribution': pick(rng, ['gaussian', 'normal', 'poisson'])}, False

    def kw(name):
        def call(o, a):
            a = dict(a)
            arrs = {}
            if a.pop('as_array', False):
                for k in ('p', 'treatments'):
                    if isinstance(a.get(k), list):
                        a[k] = arrs[k] = np.array(a[k], dtype=float)
            before = {k: snap(v) for k, v in arrs.items()}
            try:
                return getattr(o, name)(**a)
            finally:
                for k, v in arrs.items():
                    if snap(v) != before[k]:
                        ARG_MUTATIONS.append('%s(%s=ndarray)' % (name, k))
        return call

    def fixed(name, **k):
        return lambda o, a: getattr(o, name)(**k)

    S['IPTW'] = Spec(
        'IPTW', product(ybin=[True, False], miss=[True, False], weights=[None, 'W'],
                        standardize=['population', 'exposed', 'unexposed']),
        cross, lambda df, c: IPTW(df, treatment='A', outcome='Y', weights=c['weights'], standardize=c['standardize']),
        [M(0, 'treatment_model', 'spec', g_tm, kw('treatment_model')),
         M(1, 'missing_model', 'spec', g_mm, kw('missing_model')),
         M(2, 'marginal_structural_model', 'spec', g_msm, kw('marginal_structural_model')),
         M(3, 'fit', 'fit', g_ifit, kw('fit')),
         M(4, 'summary', 'res', noargs, kw('summary')),
         M(5, 'positivity(iptw_only=True)', 'read', noargs, fixed('positivity', iptw_only=True)),
         M(6, 'positivity(iptw_only=False)', 'read', noargs, fixed('positivity', iptw_only=False)),
         M(7, 'standardized_mean_differences(iptw_only=True)', 'read', noargs,
           fixed('standardized_mean_differences', iptw_only=True)),
         M(8, 'standardized_mean_differences(iptw_only=False)', 'read', noargs,
           fixed('standardized_mean_differences', iptw_only=False)),
         M(9, 'plot_kde', 'read', noargs, kw('plot_kde')),
         M(10, 'plot_boxplot', 'read', noargs, kw('plot_boxplot')),
         M(11, 'plot_love(iptw_only=True)', 'read', noargs, fixed('plot_love', iptw_only=True)),
         M(12, 'plot_love(iptw_only=False)', 'read', noargs, fixed('plot_love', iptw_only=False)),
         M(13, 'run_diagnostics', 'read', noargs, kw('run_diagnostics'))],
        ['iptw', 'ipmw', 'risk_difference', 'risk_ratio', 'odds_ratio', 'average_treatment_effect'],
        {'fit': ['treatment_model', 'marginal_structural_model']})

    # ---------------------------------------------------------------- StochasticIPTW
    def g_p(rng, cell, name='df'):
        if rng.uniform() < 0.6:
            return {'p': float(pick(rng, [0.1, 0.25, 0.5, 0.8]))}
        return {'p': [float(pick(rng, [0.2, 0.6, 0.9])), float(pick(rng, [0.1, 0.5, 0.75]))],
                'conditional': ["%s['L1']==1" % name, "%s['L1']==0" % name], 'as_array': bool(rng.uniform() < 0.5)}

    S['StochasticIPTW'] = Spec(
        'StochasticIPTW', product(ybin=[True, False], miss=[False, True], weights=[None, 'W']),
        cross, lambda df, c: StochasticIPTW(df, treatment='A', outcome='Y', weights=c['weights']),
        [M(0, 'treatment_model', 'spec', lambda r, c: ({'model': pick(r, COV), 'print_results': False}, False),
           kw('treatment_model')),
         M(1, 'fit', 'fit', lambda r, c: (g_p(r, c), False), kw('fit')),
         M(2, 'summary', 'res', noargs, kw('summary'))],
        ['marginal_outcome'], {'fit': ['treatment_model']})

    # ---------------------------------------------------------------- AIPTW / TMLE
    def g_exp(rng, cell):
        cm = pick(rng, BIN_LEARNERS) if (cell.get('custom') and rng.uniform() < 0.4) else None
        return {'model': pick(rng, COV), 'bound': g_bound(rng), 'custom_model': cm, 'print_results': False}, cm is not None

    def g_miss(rng, cell):
        cm = pick(rng, BIN_LEARNERS) if (cell.get('custom') and rng.uniform() < 0.4) else None
        return {'model': 'A + ' + pick(rng, COV), 'bound': g_bound(rng), 'custom_model': cm,
                'print_results': False}, cm is not None

    def g_out_a(rng, cell):
        cm = pick(rng, BIN_LEARNERS if cell['ybin'] else CONT_LEARNERS) \
            if (cell.get('custom') and rng.uniform() < 0.4) else None
        a = {'model': 'A + ' + pick(rng, COV), 'custom_model': cm, 'print_results': False}
        if not cell['ybin']:
            a['continuous_distribution'] = pick(rng, ['gaussian', 'poisson'])
        return a, cm is not None

    def g_out_t(rng, cell):
        a, f = g_out_a(rng, cell)
        if not cell['ybin'] and rng.uniform() < 0.3:
            a['bound'] = pick(rng, [0.05, 0.2])
        return a, f

    def with_custom(name):
        def call(o, a):
            a = dict(a)
            if 'custom_model' in a:
                a['custom_model'] = custom(a.get('custom_model'))
            return getattr(o, name)(**a)
        return call

    def dr_methods(g_out):
        return [M(0, 'exposure_model', 'spec', g_exp, with_custom('exposure_model')),
                M(1, 'missing_model', 'spec', g_miss, with_custom('missing_model')),
                M(2, 'outcome_model', 'spec', g_out, with_custom('outcome_model')),
                M(3, 'fit', 'fit', noargs, kw('fit')),
                M(4, 'summary', 'res', noargs, kw('summary')),
                M(5, 'run_diagnostics', 'read', noargs, kw('run_diagnostics')),
                M(6, 'positivity', 'read', noargs, kw('positivity')),
                M(7, 'standardized_mean_differences', 'read', noargs, kw('standardized_mean_differences')),
                M(8, "plot_kde('exposure')", 'read', noargs, fixed('plot_kde', to_plot='exposure')),
                M(9, "plot_kde('outcome')", 'read', noargs, fixed('plot_kde', to_plot='outcome')),
                M(10, 'plot_love', 'read', noargs, kw('plot_love'))]

    S['AIPTW'] = Spec(
        'AIPTW', product(ybin=[True, False], miss=[True, False], weights=[None, 'W'], custom=[False, True]),
        cross, lambda df, c: AIPTW(df, exposure='A', outcome='Y', weights=c['weights']),
        dr_methods(g_out_a),
        ['risk_difference', 'risk_ratio', 'risk_difference_ci', 'risk_ratio_ci', 'risk_difference_se', 'risk_ratio_se',
         'average_treatment_effect', 'average_treatment_effect_ci', 'average_treatment_effect_se'],
        {'fit': ['exposure_model', 'outcome_model']})

    S['TMLE'] = Spec(
        'TMLE', product(ybin=[True, False], miss=[True, False], alpha=[0.05, 0.2], custom=[False, True]),
        cross, lambda df, c: TMLE(df, exposure='A', outcome='Y', alpha=c['alpha']),
        dr_methods(g_out_t),
        ['risk_difference', 'risk_ratio', 'odds_ratio', 'risk_difference_ci', 'risk_ratio_ci', 'odds_ratio_ci',
         'risk_difference_se', 'risk_ratio_se', 'odds_ratio_se', 'average_treatment_effect',
         'average_treatment_effect_ci', 'average_treatment_effect_se', 'g1W', 'g0W', 'm1W', 'm0W', 'QA1W', 'QA0W',
         'QAW'],
        {'fit': ['exposure_model', 'outcome_model']})

    # ---------------------------------------------------------------- StochasticTMLE
    def g_sexp(rng, cell):
        b = g_bound(rng)
        a = {'model': pick(rng, COV), 'bound': b}
        if cell.get('custom') and rng.uniform() < 0.4:
            a['custom_model'] = pick(rng, BIN_LEARNERS)     # the same (stateful) instances as for every other call
        return a, bool(b)

    def g_sout(rng, cell):
        a = {'model': 'A + ' + pick(rng, COV)}
        if cell.get('custom') and rng.uniform() < 0.4:
            a['custom_model'] = pick(rng, BIN_LEARNERS if cell['ybin'] else CONT_LEARNERS)
        if not cell['ybin']:
            a['continuous_distribution'] = pick(rng, ['gaussian', 'poisson'])
            if rng.uniform() < 0.3:
                a['bound'] = pick(rng, [0.05, 0.2])
        return a, False

    def g_sfit(rng, cell):
        a = g_p(rng, cell)
        a['samples'] = int(pick(rng, [3, 6]))
        a['seed'] = int(rng.integers(1, 10 ** 6))
        return a, False

    S['StochasticTMLE'] = Spec(
        'StochasticTMLE', product(ybin=[True, False], miss=[False, True], alpha=[0.05], custom=[False, True]),
        cross, lambda df, c: StochasticTMLE(df, exposure='A', outcome='Y', alpha=c['alpha']),
        [M(0, 'exposure_model', 'spec', g_sexp, with_custom('exposure_model')),
         M(1, 'outcome_model', 'spec', g_sout, with_custom('outcome_model')),
         M(2, 'fit', 'fit', g_sfit, kw('fit')),
         M(3, 'summary', 'res', noargs, kw('summary')),
         M(4, 'run_diagnostics', 'res', noargs, kw('run_diagnostics'))],
        ['marginal_outcome', 'marginal_se', 'marginal_ci', 'conditional_se', 'conditional_ci', 'epsilon',
         'marginals_vector'],
        {'fit': ['exposure_model', 'outcome_model']})

    # ---------------------------------------------------------------- TimeFixedGFormula
    def g_gfit(rng, cell):
        return {'treatment': pick(rng, ['all', 'none', 'all', 'none', "g['L1']==1", "(g['L2']>0) & (g['L3']==0)"]),
                'predict_missing': bool(rng.uniform() < 0.7)}, False

    def g_gsto(rng, cell):
        if rng.uniform() < 0.6:
            a = {'p': float(pick(rng, [0.25, 0.5, 0.8]))}
        else:
            a = {'p': [float(pick(rng, [0.2, 0.6])), float(pick(rng, [0.5, 0.75]))],
                 'conditional': ["g['L1']==1", "g['L1']==0"]}
        a.update(samples=int(pick(rng, [3, 5])), seed=int(rng.integers(1, 10 ** 6)),
                 predict_missing=bool(rng.uniform() < 0.7))
        return a, False

    S['TimeFixedGFormula'] = Spec(
        'TimeFixedGFormula', product(otype=['binary', 'normal', 'poisson'], miss=[False, True], weights=[None, 'W'],
                                     standardize=['population', 'exposed', 'unexposed']),
        lambda rng, c, n: gen_cross(rng, n, ybin=c['otype'] == 'binary', miss=c['miss'], perm=False),
        lambda df, c: TimeFixedGFormula(df, exposure='A', outcome='Y', outcome_type=c['otype'],
                                        standardize=c['standardize'], weights=c['weights']),
        [M(0, 'outcome_model', 'spec', lambda r, c: ({'model': 'A + ' + pick(r, COV), 'print_results': False}, False),
           kw('outcome_model')),
         M(1, 'fit', 'fit', g_gfit, kw('fit')),
         M(2, 'fit_stochastic', 'fit', g_gsto, kw('fit_stochastic')),
         M(3, 'run_diagnostics', 'read', noargs, kw('run_diagnostics')),
         M(4, 'plot_kde', 'read', noargs, kw('plot_kde'))],
        ['marginal_outcome', 'predicted_df'], {'fit': ['outcome_model'], 'fit_stochastic': ['outcome_model']})

    # ---------------------------------------------------------------- SurvivalGFormula
    S['SurvivalGFormula'] = Spec(
        'SurvivalGFormula', product(weights=[None, 'W']),
        lambda rng, c, n: gen_long(rng, max(60, n // 3)),
        lambda df, c: SurvivalGFormula(df[['id', 't', 'A', 'L1', 'L2', 'd', 'W']], idvar='id', exposure='A',
                                       outcome='d', time='t', weights=c['weights']),
        [M(0, 'outcome_model', 'spec',
           lambda r, c: ({'model': 'A + ' + pick(r, ['L1 + t', 'L1 + L2 + t', 'L2 + t + A:L1']),
                          'print_results': False}, False), kw('outcome_model')),
         M(1, 'fit', 'fit', lambda r, c: ({'treatment': pick(r, ['all', 'none', 'natural', "g['L1']==1"])}, False),
           kw('fit')),
         M(2, 'plot', 'res', noargs, kw('plot'))],
        ['marginal_outcome', 'predicted_df'], {'fit': ['outcome_model']})

    # ---------------------------------------------------------------- GEstimationSNM
    def g_snmfit(rng, cell):
        if rng.uniform() < 0.3:
            return {'solver': 'search', 'maxiter': int(pick(rng, [6, 10])),
                    'starting_value': None if rng.uniform() < 0.5 else 'zeros+0.1'}, True
        return {'solver': 'closed'}, False

    def call_snmfit(o, a):
        a = dict(a)
        if a.get('starting_value') == 'zeros+0.1':
            a['starting_value'] = [0.1] * (2 if o._snm_ and ':' in o._snm_ else 1)
        return o.fit(**a)

    S['GEstimationSNM'] = Spec(
        'GEstimationSNM', product(ybin=[False, True], miss=[True, False], weights=[None, 'W']),
        cross, lambda df, c: GEstimationSNM(df, exposure='A', outcome='Y', weights=c['weights']),
        [M(0, 'exposure_model', 'spec', lambda r, c: ({'model': pick(r, COV), 'print_results': False}, False),
           kw('exposure_model')),
         M(1, 'structural_nested_model', 'spec', lambda r, c: ({'model': pick(r, ['A', 'A', 'A + A:L1'])}, False),
           kw('structural_nested_model')),
         M(2, 'missing_model', 'spec', g_mm, kw('missing_model')),
         M(3, 'fit', 'fit', g_snmfit, call_snmfit),
         M(4, 'summary', 'res', noargs, kw('summary'))],
        ['psi', 'psi_labels', 'ipmw'], {'fit': ['exposure_model', 'structural_nested_model']})

    # ---------------------------------------------------------------- generalize
    SEL = ['L1', 'L1 + L2', 'L1 + L2 + L1:L2']

    def g_samp(bound):
        def g(rng, cell):
            stab = bool(rng.uniform() < 0.6)
            a = {'model_denominator': pick(rng, SEL), 'model_numerator': '1', 'stabilized': stab, 'print_results': False}
            if bound:
                a['bound'] = pick(rng, [None, None, 0.3, [0.4, 0.7]])
            return a, False
        return g

    def g_gtm(rng, cell):
        stab = bool(rng.uniform() < 0.6)
        return {'model_denominator': pick(rng, ['L1', 'L2', 'L1 + L2']), 'model_numerator': '1', 'stabilized': stab,
                'bound': pick(rng, [None, None, 0.35]), 'print_results': False}, False

    def sel(rng, c, n):
        return gen_select(rng, n, ybin=c.get('otype', 'binary') == 'binary')

    S['IPSW'] = Spec(
        'IPSW', product(generalize=[True, False], weights=[None, 'W']), sel,
        lambda df, c: IPSW(df, exposure='A', outcome='Y', selection='S', generalize=c['generalize'],
                           weights=c['weights']),
        [M(0, 'sampling_model', 'spec', g_samp(True), kw('sampling_model')),
         M(1, 'treatment_model', 'spec', g_gtm, kw('treatment_model')),
         M(2, 'fit', 'fit', noargs, kw('fit')),
         M(3, 'summary', 'res', noargs, kw('summary'))],
        ['risk_difference', 'risk_ratio', 'ipsw', 'iptw'], {'fit': ['sampling_model']})

    OUTF = ['A + L1', 'A + L1 + L2', 'A + L1 + L2 + A:L1']
    S['GTransportFormula'] = Spec(
        'GTransportFormula', product(generalize=[True, False], otype=['binary', 'normal'], weights=[None, 'W']), sel,
        lambda df, c: GTransportFormula(df, exposure='A', outcome='Y', selection='S', outcome_type=c['otype'],
                                        generalize=c['generalize'], weights=c['weights']),
        [M(0, 'outcome_model', 'spec', lambda r, c: ({'model': pick(r, OUTF), 'print_results': False}, False),
           kw('outcome_model')),
         M(1, 'fit', 'fit', noargs, kw('fit')),
         M(2, 'summary', 'res', noargs, kw('summary'))],
        ['risk_difference', 'risk_ratio'], {'fit': ['outcome_model']})

    S['AIPSW'] = Spec(
        'AIPSW', product(generalize=[True, False], otype=['binary', 'normal']), sel,
        lambda df, c: AIPSW(df, exposure='A', outcome='Y', selection='S', generalize=c['generalize']),
        [M(0, 'sampling_model', 'spec', g_samp(False), kw('sampling_model')),
         M(1, 'treatment_model', 'spec', g_gtm, kw('treatment_model')),
         M(2, 'outcome_model', 'spec',
           lambda r, c: ({'model': pick(r, OUTF), 'outcome_type': c['otype'], 'print_results': False}, False),
           kw('outcome_model')),
         M(3, 'fit', 'fit', noargs, kw('fit')),
         M(4, 'summary', 'res', noargs, kw('summary'))],
        ['risk_difference', 'risk_ratio', 'ipsw', 'iptw'], {'fit': ['sampling_model', 'outcome_model']})

    # ---------------------------------------------------------------- IPMW / IPCW
    def g_ipmw(rng, cell):
        if cell['kind'] == 'single':
            num = 'L1' if (cell['stabilized'] and rng.uniform() < 0.5) else '1'
            return {'model_denominator': pick(rng, ['L1', 'L2', 'L1 + L2']), 'model_numerator': num,
                    'print_results': False}, False
        a = {'model_denominator': [pick(rng, ['L1', 'L1 + L2']), pick(rng, ['L2', 'L1 + L2'])], 'print_results': False}
        if cell['stabilized']:
            a['model_numerator'] = ['1', '1']
        return a, True

    def mk_ipmw(df, c):
        mv = 'X' if c['kind'] == 'single' else ['X', 'Z']
        return IPMW(df, missing_variable=mv, stabilized=c['stabilized'], monotone=True)

    ipmw_methods = [M(0, 'regression_models', 'spec', g_ipmw, kw('regression_models')),
                    M(1, 'fit', 'fit', noargs, kw('fit'))]
    S['IPMW'] = Spec('IPMW', product(kind=['single', 'monotone'], stabilized=[False, True]),
                     lambda rng, c, n: gen_ipmw(rng, n, c['kind']), mk_ipmw, ipmw_methods, ['Weight'],
                     {'fit': ['regression_models']})
    S['IPMWuniform'] = Spec('IPMW', product(kind=['uniform'], stabilized=[False, True]),
                            lambda rng, c, n: gen_ipmw(rng, n, 'uniform'), mk_ipmw, ipmw_methods, ['Weight'],
                            {'fit': ['regression_models']}, lean_name='IPMWuniform')

    def g_ipcw(r, c):
        t = 't_enter' if c['flat'] else 'enter'
        return {'model_denominator': pick(r, [t + ' + A + L1', t + ' + A + L1 + L2', t + ' + L2']),
                'model_numerator': pick(r, [t, t + ' + A', '1']), 'print_results': False}, False

    S['IPCW'] = Spec(
        'IPCW', product(flat=[False, True]),
        lambda rng, c, n: gen_flat(rng, max(60, n // 2)) if c['flat'] else gen_long(rng, max(60, n // 3)),
        lambda df, c: IPCW(df, idvar='id', time='t', event='d', flat_df=c['flat']),
        [M(0, 'regression_models', 'spec', g_ipcw, kw('regression_models')),
         M(1, 'fit', 'fit', noargs, kw('fit'))],
        ['Weight'], {'fit': ['regression_models']})

    # ---------------------------------------------------------------- time-varying g-formulas
    def call_mcfit(o, a):
        a = dict(a)
        np.random.seed(a.pop('seed'))
        return o.fit(**a)

    # add_covariate_model is additive and *labelled*: "covariate models are fit in the order from lowest to highest
    # label".  One method variant per label (each called at most once per object: a second call with the same label
    # would add a second model, it does not re-specify); the cell decides which covariate carries the lower label.  The
    # result of a specification must depend on the labels only, not on the order in which the calls were made.
    def g_cov(k):
        def g(r, c):
            cov = c['first'] if k == 0 else ('V' if c['first'] == 'L' else 'L')
            if cov == 'L':
                a = {'label': k + 1, 'covariate': 'L', 'model': pick(r, ['A + L1 + Vhi', 'A + L1 + enter + Vhi', 'L1 + V']),
                     'recode': pick(r, [None, "g['Lx'] = g['L'] * g['L1'];", "g['Lx'] = g['L'] * g['L1'];",
                                        "g['Lx'] = np.where(g['L1'] == 1, g['L'], 0);"]),
                     'var_type': 'binary'}
            else:
                a = {'label': k + 1, 'covariate': 'V', 'model': pick(r, ['A + L + L2', 'L + Lx + enter', 'A + L1 + L']),
                     'recode': pick(r, ["g['Vhi'] = np.where(g['V'] > 0, 1, 0);",
                                        "g['V'] = np.clip(g['V'], -2, 2); g['Vhi'] = np.where(g['V'] > 0, 1, 0);",
                                        "g['Vhi'] = (g['V'] > 0).astype(int);", None]),
                     'var_type': 'continuous'}
            a['print_results'] = False
            return a, False
        return g

    S['MonteCarloGFormula'] = Spec(
        'MonteCarloGFormula', product(weights=[None], first=['L', 'V']),
        lambda rng, c, n: gen_long_tv(rng, max(60, n // 3)),
        lambda df, c: MonteCarloGFormula(df[['id', 'enter', 't', 'A', 'L1', 'L2', 'L', 'V', 'Vhi', 'Lx', 'd']],
                                         idvar='id', exposure='A', outcome='d', time_in='enter', time_out='t'),
        [M(0, 'exposure_model', 'spec',
           lambda r, c: ({'model': pick(r, ['L1 + L + Vhi', 'L1 + L2 + L + Lx', 'L + Vhi + enter']),
                          'restriction': pick(r, [None, None, "g['enter']==0"]), 'print_results': False}, False),
           kw('exposure_model')),
         M(1, 'outcome_model', 'spec',
           lambda r, c: ({'model': 'A + ' + pick(r, ['L1 + L + Vhi', 'L1 + L2 + L + Vhi + enter', 'L + Lx + Vhi']),
                          'print_results': False}, False), kw('outcome_model')),
         M(2, 'censoring_model', 'spec',
           lambda r, c: ({'model': pick(r, ['A + L1', 'A + L + enter']), 'print_results': False}, False),
           kw('censoring_model')),
         M(3, 'add_covariate_model(label=1)', 'spec', g_cov(0), kw('add_covariate_model'), once=True),
         M(4, 'add_covariate_model(label=2)', 'spec', g_cov(1), kw('add_covariate_model'), once=True),
         M(5, 'fit', 'fit',
           lambda r, c: ({'treatment': pick(r, ['all', 'none', 'natural', "g['L']==1"]), 'sample': int(pick(r, [150, 300])),
                          't_max': pick(r, [None, 3]), 'seed': int(r.integers(1, 10 ** 6))}, False), call_mcfit)],
        ['predicted_outcomes'], {'fit': ['exposure_model', 'outcome_model']})

    S['IterativeCondGFormula'] = Spec(
        'IterativeCondGFormula', product(weights=[None]),
        lambda rng, c, n: gen_wide(rng, n),
        lambda df, c: IterativeCondGFormula(df, exposures=['A1', 'A2'], outcomes=['Y1', 'Y2']),
        [M(0, 'outcome_model', 'spec',
           lambda r, c: ({'models': [pick(r, ['A1 + L1', 'A1']), pick(r, ['A2 + A1 + L2', 'A2 + L2', 'A2 + L1 + L2'])],
                          'print_results': False}, False), kw('outcome_model')),
         M(1, 'fit', 'fit',
           lambda r, c: ({'treatments': pick(r, [[1, 1], [0, 0], [1, 0], [0, 1]]), 'as_array': bool(r.uniform() < 0.5)},
                         False), kw('fit'))],
        ['marginal_outcome'], {'fit': ['outcome_model']})
    # ================================================================ classes without a Lean table (gate D only)
    import zepid
    from zepid.causal.causalgraph import DirectedAcyclicGraph
    from zepid.superlearner import SuperLearner
    from zepid.causal.doublyrobust import (SingleCrossfitAIPTW, DoubleCrossfitAIPTW, SingleCrossfitTMLE,
                                           DoubleCrossfitTMLE)

    # ---------------------------------------------------------------- association measures (zepid.base)
    def gen_measure(rng, c, n):
        df = gen_cross(rng, n, ybin=True, miss=True)
        df['A2'] = rng.binomial(1, 0.45, n).astype(float)
        df['A'] = df['A'].astype(float)
        df.loc[rng.uniform(size=n) < 0.12, 'A'] = np.nan          # each exposure column has its own missing rows
        df.loc[rng.uniform(size=n) < 0.12, 'A2'] = np.nan
        df['t'] = np.round(rng.uniform(0.5, 6, n), 2)
        return df

    def call_mfit(o, a):
        a = dict(a)
        if not a.pop('rate'):
            a.pop('time')
        return o.fit(USER_DF[0], **a)

    S['Measure'] = Spec(
        'Measure', product(cls=['RiskDifference', 'RiskRatio', 'OddsRatio', 'NNT', 'IncidenceRateRatio',
                                'IncidenceRateDifference']),
        gen_measure, lambda df, c: getattr(zepid, c['cls'])(),
        [M(0, 'fit', 'fit', lambda r, c: ({'exposure': pick(r, ['A', 'A2']), 'outcome': 'Y', 'time': 't',
                                           'rate': c['cls'].startswith('Incidence')}, False), call_mfit, once=True),
         M(1, 'summary', 'res', lambda r, c: ({'decimal': int(pick(r, [1, 3]))}, False), kw('summary')),
         M(2, 'plot', 'res', noargs, kw('plot'))],        # (NNT has no plot method: AttributeError on every object alike)
        ['results', 'risks', 'incidence_rate', '_missing_e', '_missing_d', '_missing_ed', 'n'], {'fit': []},
        lean_name=None)

    # ---------------------------------------------------------------- DirectedAcyclicGraph (additive mutators)
    ORDER = ['W', 'V', 'X', 'M', 'Z', 'Y']          # arrows only go forward in this order: always acyclic

    def g_arrow(r, c):
        i, j = sorted(r.choice(len(ORDER), 2, replace=False).tolist())
        return {'source': ORDER[i], 'endpoint': ORDER[j]}, False

    def g_arrows(r, c):
        prs = []
        for _ in range(int(r.integers(1, 4))):
            i, j = sorted(r.choice(len(ORDER), 2, replace=False).tolist())
            prs.append([ORDER[i], ORDER[j]])
        return {'pairs': prs}, False

    def g_nx(r, c):
        prs = [['X', 'Y']]
        for _ in range(int(r.integers(2, 6))):
            i, j = sorted(r.choice(len(ORDER), 2, replace=False).tolist())
            prs.append([ORDER[i], ORDER[j]])
        return {'edges': prs}, False

    def call_nx(o, a):
        import networkx as nx
        key = 'graph ' + json.dumps(a['edges'])
        if key not in USER_OBJECTS:
            g = nx.DiGraph()
            g.add_edges_from([tuple(e) for e in a['edges']])
            USER_OBJECTS[key] = g
            if WATCH[0] is not None:
                WATCH[0].add(key, g)
        return o.add_from_networkx(USER_OBJECTS[key])

    def dag_in_force(rs):
        """add_from_networkx replaces the graph, add_arrow(s) add to it"""
        out = []
        for r in rs:
            if r['name'] == 'add_from_networkx':
                out = []
            out.append(r['pos'])
        return out

    S['DirectedAcyclicGraph'] = Spec(
        'DirectedAcyclicGraph', product(x=['X']), lambda rng, c, n: pd.DataFrame({'unused': [0.0, 1.0]}),
        lambda df, c: DirectedAcyclicGraph(exposure='X', outcome='Y'),
        [M(0, 'add_arrow', 'spec', g_arrow, kw('add_arrow')),
         M(1, 'add_arrows', 'spec', g_arrows, lambda o, a: o.add_arrows(pairs=[tuple(p) for p in a['pairs']])),
         M(2, 'add_from_networkx', 'spec', g_nx, call_nx),
         M(3, 'calculate_adjustment_sets', 'fit', noargs, kw('calculate_adjustment_sets')),
         M(4, 'assess_misdirections', 'read',
           lambda r, c: ({'chosen_adjustment_set': sorted(r.choice(['W', 'V', 'Z'], int(r.integers(0, 3)),
                                                                 replace=False).tolist())}, False),
           lambda o, a: o.assess_misdirections(chosen_adjustment_set=set(a['chosen_adjustment_set'])),
           result=('arrow_misdirections',)),
         M(5, 'draw_dag', 'read', lambda r, c: ({'invert': bool(r.uniform() < 0.3)}, False),
           lambda o, a: None if o.draw_dag(**a) is None else 'axes')],
        ['adjustment_sets', 'minimal_adjustment_sets', 'dag'], {'calculate_adjustment_sets': []},
        lean_name=None, in_force=dag_in_force, glm=False, stored=())

    # ---------------------------------------------------------------- SuperLearner (candidates are the user's objects)
    def mk_sl(df, c):
        cands = [custom(k) for k in c['cands']]
        return SuperLearner(estimators=cands, estimator_labels=list(c['cands']), folds=int(c['folds']),
                            loss_function=c['loss'], discrete=c['discrete'])

    def xy(which, target):
        key = 'array %s %s' % (which, target)
        if key not in USER_OBJECTS:
            d = USER_DF[0] if which == 'a' else USER_DF[0].iloc[::2]
            USER_OBJECTS[key] = np.asarray(d[['A', 'L1', 'L2', 'L3']], dtype=float) if target == 'X' else \
                np.asarray(d['Y'], dtype=float)
            if WATCH[0] is not None:
                WATCH[0].add(key, USER_OBJECTS[key])
        return USER_OBJECTS[key]

    S['SuperLearner'] = Spec(
        'SuperLearner', product(cands=[['logit_ws', 'pipe_ws', 'linear']], folds=[3], loss=['nloglik', 'L2'],
                                discrete=[False, True]),
        lambda rng, c, n: gen_cross(rng, n, ybin=True, miss=False),
        mk_sl,
        [M(0, 'fit', 'fit', lambda r, c: ({'data': pick(r, ['a', 'b'])}, False),
           lambda o, a: o.fit(xy(a['data'], 'X'), xy(a['data'], 'y'))),
         M(1, 'predict', 'res', lambda r, c: ({'data': pick(r, ['a', 'b'])}, False),
           lambda o, a: o.predict(xy(a['data'], 'X'))),
         M(2, 'summary', 'res', noargs, kw('summary'))],
        ['coefficients', 'est_performance'], {'fit': []}, lean_name=None, stored=())

    # ---------------------------------------------------------------- cross-fit estimators
    def g_cexp(r, c):
        return {'covariates': pick(r, ['L1 + L2', 'L1 + L2 + L3', 'L2 + L3']),
                'estimator': pick(r, ['logit_ws', 'pipe_ws']), 'bound': pick(r, [False, False, 0.2])}, False

    def g_cout(r, c):
        return {'covariates': 'A + ' + pick(r, ['L1 + L2', 'L1 + L2 + L3']),
                'estimator': pick(r, ['logit_ws', 'pipe_ws'] if c['ybin'] else CONT_LEARNERS)}, False

    def with_est(name):
        def call(o, a):
            a = dict(a)
            a['estimator'] = custom(a['estimator'])
            return getattr(o, name)(**a)
        return call

    def g_cfit(r, c):
        # (two or three partitions: the diagnostic plot is a kernel density of the per-partition estimates)
        return {'n_splits': int(pick(r, [2, 3, 4, 5] if c['cls'].startswith('Single') else [3, 4, 5])),
                'n_partitions': int(pick(r, [2, 2, 3])), 'method': pick(r, ['median', 'mean']),
                'random_state': int(pick(r, [0, 0, 7, 12345]))}, False

    CF = {'SingleCrossfitAIPTW': SingleCrossfitAIPTW, 'DoubleCrossfitAIPTW': DoubleCrossfitAIPTW,
          'SingleCrossfitTMLE': SingleCrossfitTMLE, 'DoubleCrossfitTMLE': DoubleCrossfitTMLE}
    S['Crossfit'] = Spec(
        'Crossfit', product(cls=sorted(CF), ybin=[True, False]),
        lambda rng, c, n: gen_cross(rng, min(n, 200), ybin=c['ybin'], miss=False),
        lambda df, c: CF[c['cls']](df, exposure='A', outcome='Y'),
        [M(0, 'exposure_model', 'spec', g_cexp, with_est('exposure_model')),
         M(1, 'outcome_model', 'spec', g_cout, with_est('outcome_model')),
         M(2, 'fit', 'fit', g_cfit, kw('fit')),
         M(3, 'summary', 'res', noargs, kw('summary')),
         M(4, 'run_diagnostics', 'read', noargs, lambda o, a: o.run_diagnostics())],
        ['risk_difference', 'risk_difference_se', 'risk_difference_ci', 'risk_difference_vector',
         'risk_difference_var_vector', 'risk_ratio', 'risk_ratio_se', 'risk_ratio_ci', 'risk_ratio_vector',
         'risk_ratio_var_vector', 'odds_ratio', 'odds_ratio_se', 'odds_ratio_ci', 'odds_ratio_vector',
         'odds_ratio_var_vector', 'ace', 'ace_se', 'ace_ci', 'ace_vector', 'ace_var_vector'],
        {'fit': ['exposure_model', 'outcome_model']}, lean_name=lambda c: c['cls'])     # one generated table per class
    S['Crossfit'].quick_cells = 2
    return S


USER_DF = [None]    # the caller's DataFrame of the current data set (methods that take it as an argument)


# ------------------------------------------------------------------------------------------ running histories
def opkey(op):
    return json.dumps([op['mid'], op['args']], sort_keys=True, default=str)


def do_call(spec, obj, op):
    """-> (status, canonical return value, printed text)"""
    import matplotlib.pyplot as plt
    plt.close('all')
    buf = io.StringIO()
    try:
        with warnings.catch_warnings():
            warnings.simplefilter('ignore')
            with contextlib.redirect_stdout(buf):
                ret = spec.methods[op['mid']].call(obj, copy.deepcopy(op['args']))
        out = ('ok', canon(ret), buf.getvalue())
    except Exception as e:          # every exception type the classes use maps to one enum: "raises"
        out = ('err', type(e).__name__ + ': ' + str(e)[:80], buf.getvalue())
    plt.close('all')
    return out


def observe(spec, obj, user_cols=()):
    """public result attributes + the user's columns of the object's private copy of the data (a call may add
    working columns to its copy, it must not rewrite the data it was given)"""
    out = {a: canon(getattr(obj, a, '<absent>')) for a in spec.obs}
    for a in spec.stored:
        fr = getattr(obj, a, None)
        if isinstance(fr, pd.DataFrame):
            cols = [c for c in user_cols if c in fr.columns]
            out['stored data ' + a] = {str(c): canon(fr[c]) for c in cols}
    return out


def user_columns(df):
    return list(df.columns) if isinstance(df, pd.DataFrame) else []


def make(spec, df, cell):
    with warnings.catch_warnings():
        warnings.simplefilter('ignore')
        with contextlib.redirect_stdout(io.StringIO()):
            return spec.make(df, cell)


class Fresh:
    """freshly constructed objects driven by a call list, cached per data set"""

    def __init__(self, spec, df, cell, watch, chk, tag):
        self.spec, self.df, self.cell, self.watch, self.chk, self.tag = spec, df, cell, watch, chk, tag
        self.cache = {}
        self.calls = {}
        self.live = {}         # call list -> the object on which exactly that list was run and nothing since
        self.runs = 0

    def run_list(self, calls):
        """-> (result of every call, public attributes at the end).  A fresh object on which exactly `calls` are made;
        when the list extends, by one call, a list that was run before and whose object was not used since, that object
        is continued (it is the fresh object after the first len-1 calls) instead of repeating them."""
        key = tuple(opkey(o) for o in calls)
        if key not in self.cache:
            got = self.live.pop(key[:-1], None) if len(key) > 1 else None
            if got is not None:
                obj, res = got[0], list(got[1]) + [do_call(self.spec, got[0], calls[-1])]
                self.chk.count('fresh_object_continued')
            else:
                obj = make(self.spec, self.df, self.cell)
                res = [do_call(self.spec, obj, o) for o in calls]
            self.cache[key] = (res, observe(self.spec, obj, user_columns(self.df)))
            self.live[key] = (obj, res)
            self.calls[key] = list(calls)
            self.runs += 1
            bad = self.watch.changed() + ARG_MUTATIONS[:]
            del ARG_MUTATIONS[:]
            self.chk.count('nonmutation_checks')
            self.chk.d(not bad, 'caller data unchanged by a fresh object run (%s)' % self.spec.name,
                       {'tag': self.tag, 'changed': bad, 'calls': [o['name'] for o in calls],
                        'args': [o['args'] for o in calls]},
                       signature=self.spec.known(calls) if self.spec.known else None)
        return self.cache[key]


def py_normalize(spec, recs):
    """the property's 'last specification', from the calls the implementation accepted (no Lean model involved):
    specifications in force at the last successful fit + that fit, then the last successful call of each
    specification method (in the order the methods are documented)"""
    def last_specs(rs):
        if spec.in_force is not None:
            return spec.in_force([r for r in rs if r['kind'] == 'spec' and r['status'] == 'ok'])
        out = []
        for m in spec.methods:
            if m.kind == 'spec':
                c = [r for r in rs if r['mid'] == m.mid and r['status'] == 'ok']
                if c:
                    out.append(c[-1]['pos'])
        return out
    fits = [r for r in recs if r['kind'] == 'fit' and r['status'] == 'ok']
    pre = []
    if fits:
        j = fits[-1]['pos']
        pre = last_specs([r for r in recs if r['pos'] < j]) + [j]
    return pre + last_specs(recs)


def compare(spec, res_h, obs_h, res_f, obs_f, skip=(), state=True):
    """-> list of differing observables between the history object and the fresh object"""
    if res_h[0] != res_f[0]:
        return ['status(history=%s, fresh=%s)' % (res_h[0] + ' ' + str(res_h[1])[:60] if res_h[0] == 'err' else 'ok',
                                                   res_f[0] + ' ' + str(res_f[1])[:60] if res_f[0] == 'err' else 'ok')]
    diffs = []
    if res_h[0] == 'ok':
        if not same_val(res_h[1], res_f[1]):
            diffs.append('return value')
        if 'printed text' not in skip and not same_text(res_h[2], res_f[2]):
            diffs.append('printed text')
    if state:
        for a in obs_h:
            nm = a if a.startswith('stored data') else 'attribute ' + a
            if nm not in skip and not same_val(obs_h[a], obs_f.get(a)):
                diffs.append(nm)
    return diffs


def against_fresh(spec, fresh, ops, i, res, obs, pre_list, post_list, skip=()):
    """Compare call i of the history with a fresh object.
    A specification / fit call is compared *in canonical position*: the fresh object receives exactly `post_list`
    (which contains i where the rule puts it: the earlier specification of the same slot / the earlier fit are not
    replayed), and the call's own outcome and the final public attributes must agree.  Any other call (summary,
    diagnostics) is made on the fresh object after `pre_list`."""
    op = ops[i]
    if op['kind'] in ('spec', 'fit') and post_list is not None and i in post_list:
        rs, of = fresh.run_list([ops[j] for j in post_list])
        k = len(post_list) - 1 - post_list[::-1].index(i)
        both_ok = res[0] == 'ok' and rs[k][0] == 'ok'
        return compare(spec, res, obs, rs[k], of, skip=skip, state=both_ok), [ops[j] for j in post_list]
    rs, of = fresh.run_list([ops[j] for j in pre_list] + [op])
    return compare(spec, res, obs, rs[-1], of, skip=skip, state=(res[0] == 'ok' and rs[-1][0] == 'ok')), \
        [ops[j] for j in pre_list] + [op]


def lean_of(spec, cell):
    """name of the class table the driver runs for this spec / cell (None: no table, gate D only)"""
    return spec.lean_name(cell) if callable(spec.lean_name) else spec.lean_name


def run_history(chk, drv, spec, cell, df, dseed, ops, tag, judge_every=True, ngen=None, unavailable=()):
    """drive one object through `ops`; K / D after every call"""
    watch = Watch()
    watch.add('df', df)
    USER_DF[0] = df
    for k, v in LEARNERS.items():
        watch.add('learner ' + k, v)
    for k, v in USER_OBJECTS.items():
        watch.add(k, v)
    WATCH[0] = watch
    fresh = run_history.fresh.get(tag)
    if fresh is None:
        fresh = run_history.fresh[tag] = Fresh(spec, df, cell, watch, chk, tag)
    fresh.watch = watch
    base = {'class': spec.name, 'lean_class': lean_of(spec, cell), 'cell': cell, 'dseed': dseed,
            'n': ngen if ngen is not None else len(df),
            'ops': [{'mid': o['mid'], 'name': o['name'], 'args': o['args'], 'flag': o['flag']} for o in ops]}
    # ---- the model's prediction for the whole history
    model = None
    if drv is not None and lean_of(spec, cell) is not None:
        rep, line = drv.ask('hist', cls=lean_of(spec, cell), miss=int(bool(cell.get('miss', False))),
                            ops=','.join('%d:%d' % (o['mid'], int(o['flag'])) for o in ops))
        if rep['status'] == 'ok':
            model = []
            for s in rep['steps'].split(';'):
                f = s.split('/')
                ints = [[int(t) for t in x.split('.') if t != ''] for x in f[1:]]
                model.append({'ok': f[0] == 'k', 'replay': ints[0], 'stale': ints[1] if len(ints) > 1 else [],
                              'after': ints[2] if len(ints) > 2 else ints[0]})
        else:
            chk.k(False, 'driver rejected the history', {'case': base, 'reply': rep})
    obj = make(spec, df, cell)
    bad = watch.changed()
    chk.count('nonmutation_checks')
    chk.d(not bad, 'constructor leaves the caller\'s DataFrame unchanged (%s)' % spec.name,
          {'case': base, 'changed': bad})
    recs = []
    ucols = user_columns(df)
    held = []          # result objects the user may still hold from earlier calls: (description, object, snapshot)
    born = [o for _, o in handed_out(spec, obj)]         # tables the object keeps from construction on are not results
                                                         # *of a call*; they are compared with the fresh object instead
    prev_obs = observe(spec, obj, ucols)
    prev_pub = public_state(spec, obj)
    scratch = set()    # (stored frame, column) introduced by a reporting call: its own working column
    for i, op in enumerate(ops):
        res = do_call(spec, obj, op)
        obs = observe(spec, obj, ucols)
        rec = {'pos': i, 'mid': op['mid'], 'name': op['name'], 'kind': op['kind'], 'flag': op['flag'],
               'status': res[0]}
        case = dict(base, step=i, call=op['name'], impl_status=res[0] if res[0] == 'ok' else res[1])
        nontriv = len(py_normalize(spec, recs)) < i
        chk.case(case, (spec.name, json.dumps(cell, sort_keys=True), tuple(opkey(o) for o in ops[:i + 1]))
                 if nontriv else None,
                 sample={'class': spec.name, 'cell': cell, 'calls': [o['name'] for o in ops[:i + 1]],
                         'status': res[0]} if (nontriv and chk.evals % 53 == 0) else None)
        chk.count('%s:%s:%s' % (spec.name, op['kind'], res[0]))
        # ---- D1: the caller's data is untouched
        bad = watch.changed() + ARG_MUTATIONS[:]
        del ARG_MUTATIONS[:]
        chk.count('nonmutation_checks')
        ksig = spec.known(ops[:i + 1]) if spec.known else None
        chk.d(not bad, 'call leaves the caller\'s data unchanged (%s.%s)' % (spec.name, op['name']),
              dict(case, changed=bad), signature=ksig)
        # ---- D1b: result objects handed out by earlier calls are not rewritten behind the user's back
        rewritten = [d for d, o, sn in held if state_snap(o) != sn]
        chk.count('nonmutation_checks')
        chk.d(not rewritten, 'call leaves the result objects of earlier calls unchanged (%s.%s)'
              % (spec.name, op['name']), dict(case, changed=rewritten), signature=ksig)
        held = [(d, o, sn) for d, o, sn in held if d not in rewritten]
        for a, o in handed_out(spec, obj):
            if a not in spec.stored and not any(o is h[1] for h in held) and not any(o is b for b in born):
                held.append(('%s after call %d (%s)' % (a, i, op['name']), o, state_snap(o)))
        # ---- D1c: summaries / diagnostics / plots and calls that raise do not change the results or the stored data;
        # a reporting / diagnostic / plotting call (raising or not) leaves *every* public attribute exactly as it was
        pub = public_state(spec, obj)
        if op['kind'] in ('read', 'res') or res[0] == 'err':
            moved = [a for a in obs if not same_val(obs[a], prev_obs.get(a))]
            if op['kind'] in ('read', 'res'):
                moved += ['public attribute ' + a for a in state_moved(prev_pub, pub, scratch,
                                                                        spec.methods[op['mid']].result)
                          if a not in moved]
            chk.d(not moved, '%s.%s (%s) leaves results and stored data as they were'
                  % (spec.name, op['name'], 'raised' if res[0] == 'err' else 'read-only'), dict(case, differs=moved),
                  signature=ksig)
        prev_obs, prev_pub = obs, pub
        # ---- D2: results before the required specifications raise
        if op['kind'] == 'fit':
            need = spec.fit_req[op['name']]
            have = {r['name'] for r in recs if r['kind'] == 'spec' and r['status'] == 'ok'}
            if not set(need) <= have:
                chk.d(res[0] == 'err', '%s.%s before %s raises' % (spec.name, op['name'], ' / '.join(need)), case)
        if op['name'] == 'summary' and not any(r['kind'] == 'fit' and r['status'] == 'ok' for r in recs):
            chk.d(res[0] == 'err', '%s.summary before a successful fit raises' % spec.name, case)
        # ---- K1: the model predicts where the object raises
        if op['mid'] in unavailable or (res[0] == 'err' and any(e in res[1] for e in ENV_ERRORS)):
            # incompatibility of zEpid with the installed numpy / matplotlib (same failure on a fresh object, which
            # D3 below still compares); the model is not asked to predict it
            chk.count('k_status_not_judged_unavailable_in_environment')
        elif model is not None:
            chk.k(model[i]['ok'] == (res[0] == 'ok'), '%s.%s raises iff the model says so' % (spec.name, op['name']),
                  dict(case, model=model[i]))
        # (`judge: False` = an observer placed in a structured history for what it may do to the object: non-mutation
        # and the model's raise / no-raise prediction are judged here, its own output against a fresh object elsewhere)
        judge = op.get('judge', True) and (judge_every or op['kind'] != 'spec' or i == len(ops) - 1 or res[0] == 'err')
        if judge:
            # ---- D3: history object == fresh object given the last specification (Python rule, no model)
            d_pre = py_normalize(spec, recs)
            d_post = py_normalize(spec, recs + [dict(rec, status='ok')]) if op['kind'] in ('spec', 'fit') else None
            diffs, calls = against_fresh(spec, fresh, ops, i, res, obs, d_pre, d_post)
            feat = spec.feature(recs, op) if (spec.feature and diffs) else None
            sig = None
            if feat and all(d in feat[1] or (d.startswith('status') and 'status' in feat[1]) for d in diffs):
                sig = {'class': spec.name, 'feature': feat[0]}
            if sig is None and diffs and ksig is not None:
                sig = ksig
            chk.d(not diffs, '%s: result after the history = fresh object with the last specification'
                  % spec.name, dict(case, differs=diffs, fresh_calls=[o['name'] for o in calls],
                                    fresh_args=[o['args'] for o in calls]), signature=sig)
            # ---- K2: history object == fresh object driven by the model's canonical list
            if model is not None and model[i]['ok'] and res[0] == 'ok':
                tainted = [t for r in model[i]['stale'] for t in spec.taints.get(r, [])]
                if tainted:
                    chk.count('k_observable_not_judged_stale_register')
                kd, kcalls = against_fresh(spec, fresh, ops, i, res, obs, model[i]['replay'], model[i]['after'],
                                           skip=tainted)
                chk.k(not kd, '%s: implementation = fresh object on the model\'s canonical call list' % spec.name,
                      dict(case, differs=kd, model=model[i]))
        recs.append(rec)
    return recs


run_history.fresh = {}


ENV_ERRORS = ('only 0-dimensional arrays can be converted to Python scalars',      # float(ndarray of size 1), numpy >= 2.x
              "unexpected keyword argument 'labels'",                                # Axes.boxplot(labels=), matplotlib >= 3.11
              "module 'numpy' has no attribute 'str'",       # GEstimationSNM.summary after fit(solver='search'): np.str
              'array must not contain infs or NaNs')   # scipy's gaussian_kde in the cross-fit diagnostic plot when a
                                                       # per-partition estimate is not finite (the user's warm-start SGD
                                                       # learner diverged): a failure on the values, not a guard


def probe_unavailable(rng, spec, cell, df):
    """methods that raise even on a fully specified and fitted fresh object *with one of the listed messages*:
    incompatibilities between zEpid and the installed numpy / matplotlib, not guards.  They stay in the histories
    (non-mutation, same status as on the fresh object) but the model is not asked to predict them (gate H: measured
    per data set, listed in the evidence)."""
    def plain(m):
        for _ in range(30):
            o = new_op(rng, m, cell)
            if not o['flag'] or spec.lean_name == 'IPMWuniform':
                return o
        return o
    obj = make(spec, df, cell)
    for m in spec.methods:
        if m.kind == 'spec':
            do_call(spec, obj, plain(m))
    for m in spec.methods:
        if m.kind == 'fit':
            do_call(spec, obj, plain(m))
    bad = {}
    for m in spec.methods:
        if m.kind in ('read', 'res'):
            r = do_call(spec, obj, plain(m))
            if r[0] == 'err' and any(e in r[1] for e in ENV_ERRORS):
                bad[m.mid] = r[1]
    return bad


def gen_ops(rng, spec, cell, length):
    """random history: specifications, fits, reads in any order with repeats; the first calls are sometimes
    premature on purpose"""
    ms = spec.methods
    kinds = {'spec': [m for m in ms if m.kind == 'spec'], 'fit': [m for m in ms if m.kind == 'fit'],
             'read': [m for m in ms if m.kind in ('read', 'res')]}
    ops = []
    nspec = len(kinds['spec'])
    for i in range(length):
        u = rng.uniform()
        if i < nspec and rng.uniform() < 0.75:
            m = kinds['spec'][i] if rng.uniform() < 0.7 else pick(rng, kinds['spec'])
        elif u < 0.40 and kinds['spec']:
            m = pick(rng, kinds['spec'])
        elif u < 0.70 or not kinds['read']:
            m = pick(rng, kinds['fit'])
        else:
            m = pick(rng, kinds['read'])
        ops.append(new_op(rng, m, cell))
    return ops


def new_op(rng, m, cell):
    args, flag = m.gen(rng, cell)
    return {'mid': m.mid, 'name': m.name, 'kind': m.kind, 'args': args, 'flag': bool(flag)}


def guard_stream(rng, spec, cell):
    """every method on a fresh object, after each single specification, and after all specifications"""
    ms = spec.methods
    specs = [m for m in ms if m.kind == 'spec']
    hs = [[new_op(rng, m, cell)] for m in ms]
    for s in specs:
        for m in ms:
            if m.kind != 'spec':
                hs.append([new_op(rng, s, cell), new_op(rng, m, cell)])
    allspec = [new_op(rng, s, cell) for s in specs]
    for m in ms:
        if m.kind in ('read', 'res'):
            hs.append(allspec + [new_op(rng, m, cell)])
            f = [x for x in ms if x.kind == 'fit'][0]
            hs.append(allspec + [new_op(rng, f, cell), new_op(rng, m, cell)])
    return hs


PLAIN = {'bound': (False, None), 'custom_model': (None,), 'stabilized': (True,), 'model_numerator': ('1', None),
         'continuous_distribution': ('gaussian',), 'predict_missing': (True,), 'restriction': (None,),
         'conditional': (None,), 'solver': ('closed',), 'starting_value': (None,), 't_max': (None,), 'recode': (None,)}


def richness(op):
    return sum(1 for k, v in op['args'].items() if k in PLAIN and v not in PLAIN[k]) + int(op['flag'])


def variant(rng, m, cell, rich):
    """a call of method m with as many (rich) / as few (plain) optional features as its generator offers"""
    cands = [new_op(rng, m, cell) for _ in range(14)]
    return (max if rich else min)(cands, key=richness)


def refit_stream(rng, spec, cell, refits=4, reverse_c=False):
    """structured histories: (A) every model specified with all optional features (bound, custom model,
    unstabilised, numerator, ...), fitted, then re-specified plainly and refitted -- options of an earlier
    specification must not survive; (B) plain specification, fit, refit with other arguments, then each model
    re-specified in turn, each followed by fit and every result-reading method -- nothing may accumulate."""
    ms = spec.methods
    specs = [m for m in ms if m.kind == 'spec']
    fits = [m for m in ms if m.kind == 'fit']
    reads = [m for m in ms if m.kind in ('res', 'read')]
    res = [m for m in ms if m.kind == 'res'] or reads[:1]
    a = [variant(rng, m, cell, True) for m in specs] + [variant(rng, fits[0], cell, True)]
    a += [variant(rng, m, cell, False) for m in specs if not m.once] + [variant(rng, fits[-1], cell, False)]
    a += [new_op(rng, m, cell) for m in reads]
    b = [variant(rng, m, cell, False) for m in specs]
    b += [variant(rng, fits[0], cell, False)]
    # plan sweep: one fit for every value of every categorical (string / bool) argument the fit generators offer -- every
    # kind of plan ('all', 'none', 'natural', a custom expression), solver, distribution, switch -- before the models
    # are re-specified below: whatever a kind of plan leaves in the object must not reach the re-specified model or the
    # next fit.  (Not compared with fresh objects themselves: the judged calls that follow are.)
    seen = {(b[-1]['mid'], k, repr(v)) for k, v in b[-1]['args'].items() if isinstance(v, (str, bool))}
    for m in fits:
        for _ in range(16):
            o = new_op(rng, m, cell)
            new = {(m.mid, k, repr(v)) for k, v in o['args'].items() if isinstance(v, (str, bool))} - seen
            if new and sum(1 for x in b if x.get('judge') is False) < 4:
                b.append(light(o))
                seen |= new
    b += [new_op(rng, fits[-1], cell)] + [new_op(rng, m, cell) for m in res]
    for m in specs:
        if not m.once:
            b += [variant(rng, m, cell, True), new_op(rng, pick(rng, fits), cell)] + [new_op(rng, x, cell) for x in res]
    # (C) one specification, then a run of refits with independently drawn arguments (plans, p, seeds, n_splits, t_max,
    # solver ...), each judged against a fresh object: nothing of an earlier fit may reach a later one
    c = [variant(rng, m, cell, False) for m in specs]

    def size(op):      # numeric arguments of a fit call (n_splits, samples, t_max, p, maxiter ...), seeds excluded
        return tuple(sorted((k, float(v)) for k, v in op['args'].items()
                            if isinstance(v, (int, float)) and not isinstance(v, bool) and 'seed' not in k
                            and k != 'random_state'))
    cands = [new_op(rng, pick(rng, fits), cell) for _ in range(6)]
    lo, hi = min(cands, key=size), max(cands, key=size)
    run_ = [lo, hi, copy.deepcopy(lo)] + [new_op(rng, pick(rng, fits), cell) for _ in range(max(0, refits - 3))]
    run_ = run_[:max(refits, 3)]          # small -> large -> small again, then random
    # ... with the reporting / diagnostic / plotting methods called between the refits: they must leave the object (all
    # public attributes, everything handed out by the earlier fits) as it was, and the next refit must not see them
    c += run_[:2] + [light(new_op(rng, m, cell)) for m in some(rng, reads, 4)] + run_[2:]
    c += [new_op(rng, m, cell) for m in res]
    if reverse_c:
        # (expensive classes, quick tier: this is their only multi-call history -- the specification calls are made in
        # reverse of the documented order; the fresh objects receive them in the documented order)
        k = len(specs)
        c[:k] = c[:k][::-1]
    return [a, b, c]


def light(op):
    op['judge'] = False
    return op


def some(rng, xs, k):
    """up to k distinct elements of xs, in random order"""
    return [xs[int(j)] for j in rng.permutation(len(xs))[:k]]


def observer_stream(rng, spec, cell, which, every):
    """The result of a specification depends on WHAT was specified, not on the order in which independent specification
    calls were made, nor on reporting / diagnostic / plotting calls made in between.  One history: the specification
    methods in an order other than the documented one (which = 0: reversed, so that every pair is out of order;
    otherwise a random non-identity permutation), an observer after each of them; observers between specification and
    fit; fit; observers after fit; every result-reading method.  The fit and the reports are compared with a fresh
    object that received the specifications in documented order (labelled additive models: ascending label) and no
    observer call; every observer must leave every public attribute and everything handed out earlier exactly as it was
    (`every`: all observers in both positions, otherwise three drawn at random)."""
    ms = spec.methods
    specs = [m for m in ms if m.kind == 'spec']
    fits = [m for m in ms if m.kind == 'fit']
    reads = [m for m in ms if m.kind in ('res', 'read')]
    res = [m for m in ms if m.kind == 'res']
    order = specs[::-1]
    if which and len(specs) > 2:
        for _ in range(20):
            order = [specs[int(j)] for j in rng.permutation(len(specs))]
            if order != specs and order != specs[::-1]:
                break
    ops = []
    for m in order:
        # (additive, labelled models with all their optional features -- a `recode` string each -- so that a model paired
        # with another label's options shows; the other specifications rich or plain at random)
        ops.append(variant(rng, m, cell, bool(m.once or rng.uniform() < 0.5)))
        if reads:
            ops.append(light(new_op(rng, pick(rng, reads), cell)))
    ops += [light(new_op(rng, m, cell)) for m in (reads if every else some(rng, reads, 3))]
    ops.append(new_op(rng, pick(rng, fits), cell))
    ops += [light(new_op(rng, m, cell)) for m in (reads if every else some(rng, reads, 3))]
    ops += [new_op(rng, m, cell) for m in res[:2]]
    return ops


def h_gate(chk, df, formula, family='binomial'):
    """measured: a statsmodels GLM refitted on the same data gives bit-identical predictions"""
    import statsmodels.api as sm
    import statsmodels.formula.api as smf
    fam = sm.families.Binomial() if family == 'binomial' else sm.families.Gaussian()
    with warnings.catch_warnings():
        warnings.simplefilter('ignore')
        p1 = np.asarray(smf.glm(formula, df, family=fam).fit().predict(df))
        p2 = np.asarray(smf.glm(formula, df.copy(), family=fam).fit().predict(df))
    chk.h_checked += 1
    if not np.array_equal(p1, p2, equal_nan=True):
        chk.discard('GLM refit not bit-identical (external determinism assumption fails)')
        return False
    return True


H_FORMULA = {'IPSW': 'S ~ L1 + L2', 'GTransportFormula': 'S ~ L1 + L2', 'AIPSW': 'S ~ L1 + L2',
             'SurvivalGFormula': 'd ~ A + L1 + t', 'IPCW': 'd ~ A + L1 + t', 'MonteCarloGFormula': 'd ~ A + L1 + t',
             'IterativeCondGFormula': 'Y1 ~ A1 + L1', 'IPMW': 'L1 ~ L2'}


def function_sweep(chk, rng):
    """Every public function of zEpid that the property's anchors name or that is documented for direct use, called
    directly with the caller's ndarray / Series / DataFrame arguments (float and fixed-width-integer arrays, Series with
    a permuted index, read-only buffers): the arguments are snapshotted before and after (values, NaN pattern, dtype,
    index, columns), and the call is repeated on the *same* argument objects -- the second result must equal the first
    (an argument that was centred / truncated / sorted in place changes it)."""
    import matplotlib.pyplot as plt
    import zepid
    import zepid.calc.utils as cu
    import zepid.causal.utils as zu
    import zepid.causal.doublyrobust.utils as du
    import zepid.causal.doublyrobust.crossfit as cf
    import zepid.graphics as zg
    from sklearn.linear_model import LogisticRegression, LinearRegression
    n = 90
    df = gen_cross(rng, n, ybin=True, miss=True, perm=True)
    df['t'] = np.round(rng.uniform(0.5, 5, n), 2)
    df['unused'] = np.where(rng.uniform(size=n) < 0.2, np.nan, 1.0)          # an extra column with NaN
    cc = df.dropna(subset=['Y']).copy()
    cc['w_'] = np.round(rng.uniform(0.5, 2.0, len(cc)), 3)
    cc['ps'] = np.round(rng.uniform(0.2, 0.8, len(cc)), 4)

    def vec(x, kind):
        x = np.asarray(x)
        if kind == 'ndarray':
            return np.array(x, dtype=float)
        if kind == 'series':
            return pd.Series(np.array(x, dtype=float), index=rng.permutation(len(x)) + 3)
        if kind == 'readonly':
            v = np.array(x, dtype=float)
            v.setflags(write=False)
            return v
        raise KeyError(kind)

    KINDS = ['ndarray', 'series', 'readonly']
    m = len(cc)
    p01 = rng.uniform(0.03, 0.97, m)
    est = rng.normal(0.1, 0.05, 9)
    var = rng.uniform(0.001, 0.004, 9)
    yb = np.asarray(cc['Y'], dtype=float)
    ab = np.asarray(cc['A'], dtype=float)
    q1, q0 = rng.uniform(0.2, 0.8, m), rng.uniform(0.1, 0.7, m)
    g1 = rng.uniform(0.25, 0.75, m)
    spl = rng.integers(0, 2, m).astype(float)
    X = np.asarray(cc[['L1', 'L2', 'L3']], dtype=float)
    todo = []     # (name, builder(kind) -> (callable on args, list of argument objects))

    def add(name, f, *cols, kinds=KINDS, frame=None):
        for k in (kinds if cols else ['frame']):
            def build(k=k):
                args = [vec(c, k) for c in cols]
                fr = frame.copy() if frame is not None else None
                return (lambda: f(*(([fr] if fr is not None else []) + args))), args + ([fr] if fr is not None else [])
            todo.append(('%s[%s]' % (name, k if cols else 'DataFrame'), build))

    # ---- calc/utils.py
    add('probability_bounds(float)', lambda v: cu.probability_bounds(v, 0.2), p01)
    add('probability_bounds(list)', lambda v: cu.probability_bounds(v, [0.1, 0.7]), p01)
    add('probability_bounds(np.float64)', lambda v: cu.probability_bounds(v, np.float64(0.3)), p01)
    add('probability_to_odds', cu.probability_to_odds, p01)
    add('odds_to_probability', cu.odds_to_probability, p01 * 3)
    add('logit', cu.logit, p01)
    add('inverse_logit', cu.inverse_logit, p01 * 4 - 2)
    add('rubins_rules', cu.rubins_rules, est, np.sqrt(var))
    add('s_value', cu.s_value, p01[:8])
    cnt = rng.integers(5, 60, 4)
    for fn in ('risk_ratio', 'risk_difference', 'number_needed_to_treat', 'odds_ratio', 'attributable_community_risk',
               'population_attributable_fraction'):
        add(fn + '(counts as 1-element arrays)',
            (lambda g: lambda a, b, c, d: g(a[0], b[0], c[0], d[0]))(getattr(cu, fn)),
            cnt[:1], cnt[1:2], cnt[2:3], cnt[3:4], kinds=['ndarray'])
    add('risk_ci', lambda e, t: cu.risk_ci(e[0], t[0]), cnt[:1], cnt[:1] + 30, kinds=['ndarray'])
    add('incidence_rate_ci', lambda e, t: cu.incidence_rate_ci(e[0], t[0]), cnt[:1], cnt[:1] * 7.5, kinds=['ndarray'])
    # ---- causal/utils.py
    add('propensity_score', lambda d: np.asarray(zu.propensity_score(d, 'A ~ L1 + L2', print_results=False).predict(d)),
        frame=cc)
    add('propensity_score(weights)',
        lambda d: np.asarray(zu.propensity_score(d, 'A ~ L1 + L2', weights='W', print_results=False).predict(d)), frame=cc)
    for st in ('population', 'exposed', 'unexposed'):
        for stab in (True, False):
            add('iptw_calculator(%s,%s,bound)' % (st, stab),
                (lambda st, stab: lambda d: [np.asarray(x) for x in zu.iptw_calculator(
                    d, 'A', 'L1 + L2', '1', 'W', stab, st, [0.3, 0.6], False)])(st, stab), frame=cc)
    add('check_input_data', lambda d: zu.check_input_data(d, 'A', 'Y', 'x', False, True, True)[0], frame=df)
    add('check_input_data(drop_censoring)', lambda d: zu.check_input_data(d, 'A', 'Y', 'x', True, True, True)[0],
        frame=df)
    add('positivity', lambda d: zu.positivity(d, 'w_'), frame=cc)
    add('standardized_mean_differences', lambda d: zu.standardized_mean_differences(d, 'A', 'w_', 'L1 + L2'), frame=cc)
    add('plot_kde', lambda d: zu.plot_kde(d, 'A', 'ps'), frame=cc)
    add('plot_love', lambda d: zu.plot_love(d, 'A', 'w_', 'L1 + L2'), frame=cc)
    add('stochastic_check_conditional',
        lambda d: zu.stochastic_check_conditional(d, ["df['L1']==1", "df['L1']==0"]), frame=cc)
    add('outcome_accuracy', lambda t, pr: zu.outcome_accuracy(t, pr), yb, q1)
    add('plot_kde_accuracy', lambda v: zu.plot_kde_accuracy(v), q1 - yb)
    for diff in (True, False):
        add('aipw_calculator(difference=%s)' % diff,
            (lambda diff: lambda y, a, pa, pn, p1: zu.aipw_calculator(y, a, pa, pn, p1, 1 - p1, difference=diff))(diff),
            yb, ab, q1, q0, g1)
        add('aipw_calculator(difference=%s,weights,splits)' % diff,
            (lambda diff: lambda y, a, pa, pn, p1, w, sp: zu.aipw_calculator(
                y, a, pa, pn, p1, 1 - p1, difference=diff, weights=w, splits=sp))(diff),
            yb, ab, q1, q0, g1, np.asarray(cc['w_']), spl)
    add('exposure_machine_learner', lambda x, y: zu.exposure_machine_learner(x, y, LogisticRegression(), False),
        X.ravel(), ab, kinds=['ndarray'])          # (reshaped below)
    todo.pop()
    for nm, f in (('exposure_machine_learner', lambda x, y: zu.exposure_machine_learner(x, y, LogisticRegression(), False)),
                  ('outcome_machine_learner',
                   lambda x, y: zu.outcome_machine_learner(x, y, x, x, LinearRegression(), True, False)),
                  ('missing_machine_learner',
                   lambda x, y: zu.missing_machine_learner(x, y, x, x, LogisticRegression(), False)),
                  ('stochastic_outcome_machine_learner',
                   lambda x, y: zu.stochastic_outcome_machine_learner(x, y, LogisticRegression(), False, False)[0])):
        def build(f=f):
            x, y = np.array(X), np.array(ab)
            return (lambda: f(x, y)), [x, y]
        todo.append((nm + '[ndarray]', build))
    # ---- doublyrobust/utils.py, crossfit.py
    yc = rng.uniform(1.0, 9.0, m)
    add('tmle_unit_bounds', lambda y: du.tmle_unit_bounds(y, 1.0, 9.0, 0.01), yc)
    add('tmle_unit_unbound', lambda y: du.tmle_unit_unbound(y, 1.0, 9.0), p01)
    for meth in ('median', 'mean'):
        add('calculate_joint_estimate(%s)' % meth,
            (lambda meth: lambda pe, ve: cf.calculate_joint_estimate(pe, ve, meth))(meth), est, var,
            kinds=['ndarray', 'series'])
    add('targeting_step', lambda y, a, pa, pn, p1, sp: cf.targeting_step(y, a, pa, pn, p1, 1 - p1, sp),
        yb, ab, q1, q0, g1, spl, kinds=['ndarray'])

    def tmle_calc(y, a, pa, pn, p1, sp, measure):
        o = np.argsort(sp, kind='stable')          # the classes hand over rows grouped by split
        y, a, pa, pn, p1, sp = (np.asarray(v)[o] for v in (y, a, pa, pn, p1, sp))
        y1, y0, ya, h1, h0, haw = cf.targeting_step(y, a, pa, pn, p1, 1 - p1, sp)
        return cf.tmle_calculator(y, y1, y0, ya, h1, h0, haw, sp, measure=measure)
    for meas in ('risk_difference', 'risk_ratio', 'odds_ratio'):
        add('tmle_calculator(%s)' % meas,
            (lambda meas: lambda y, a, pa, pn, p1, sp: tmle_calc(y, a, pa, pn, p1, sp, meas))(meas),
            yb, ab, q1, q0, g1, spl, kinds=['ndarray'])
    # ---- public static helpers of StochasticTMLE (called with the caller's arrays)
    from zepid.causal.doublyrobust import StochasticTMLE
    add('StochasticTMLE.est_marginal_variance',
        lambda h, y, q, qs: StochasticTMLE.est_marginal_variance(h, y, q, qs, 0.4), 1 / g1, yb, q1, q0)
    add('StochasticTMLE.est_conditional_variance',
        lambda h, y, q: StochasticTMLE.est_conditional_variance(h, y, q), 1 / g1, yb, q1)
    add('StochasticTMLE.targeting_step',
        lambda y, q, w: StochasticTMLE.targeting_step(y, q, w, False), yb, q1, 1 / g1, kinds=['ndarray'])
    # ---- base.py, graphics
    add('spline', lambda d: zepid.spline(d, 'L2', n_knots=3, term=2, restricted=True), frame=df)
    add('create_spline_transform', lambda v: zepid.create_spline_transform(v, n_knots=3, term=2, restricted=True)[1],
        np.asarray(df['L2']), kinds=['ndarray', 'series'])
    add('table1_generator', lambda d: zepid.table1_generator(d, ['L1', 'L2'], ['category', 'continuous'], strat_by='A'),
        frame=df)
    add('interaction_contrast', lambda d: zepid.interaction_contrast(d, 'A', 'Y', 'L1', print_results=False), frame=cc)
    add('interaction_contrast_ratio',
        lambda d: zepid.interaction_contrast_ratio(d, 'A', 'Y', 'L1', print_results=False), frame=cc)
    add('functional_form_plot', lambda d: zg.functional_form_plot(d, 'Y', 'L2', discrete=False), frame=cc)
    add('roc', lambda d: zg.roc(d, 'Y', 'ps'), frame=cc)
    add('labbe_plot', lambda r1, r0: zg.labbe_plot(r1, r0), p01[:6], p01[6:12])
    add('pvalue_plot', lambda: zg.pvalue_plot(0.2, 0.1))
    for cls in ('RiskRatio', 'RiskDifference', 'OddsRatio', 'NNT'):
        add(cls + '.fit', (lambda c: lambda d: getattr(zepid, c)().fit(d, exposure='A', outcome='Y'))(cls), frame=df)
    for cls in ('IncidenceRateRatio', 'IncidenceRateDifference'):
        add(cls + '.fit', (lambda c: lambda d: getattr(zepid, c)().fit(d, exposure='A', outcome='Y', time='t'))(cls),
            frame=df)
    for cls in ('Sensitivity', 'Specificity', 'Diagnostics'):
        add(cls + '.fit', (lambda c: lambda d: getattr(zepid, c)().fit(d, test='L1', disease='L3'))(cls), frame=df)

    def call(f):
        plt.close('all')
        try:
            with warnings.catch_warnings():
                warnings.simplefilter('ignore')
                with contextlib.redirect_stdout(io.StringIO()):
                    r = canon(f())
            out = ('ok', r)
        except Exception as e:
            out = ('err', type(e).__name__ + ': ' + str(e)[:80])
        plt.close('all')
        return out

    for name, build in todo:
        f, objs = build()
        w = Watch()
        for j, o in enumerate(objs):
            w.add('argument %d' % j, o)
        r1 = call(f)
        bad = w.changed()
        r2 = call(f)
        bad2 = w.changed()
        rep = r1[0] == r2[0] and (r1[0] == 'err' or same_val(r1[1], r2[1]))
        st = r1[0] if r1[0] == 'ok' else 'err ' + r1[1]
        case = {'function': name, 'status': st, 'changed': bad + bad2, 'second_call_equal': rep}
        chk.case(case, ('function', name) if r1[0] == 'ok' else None)
        chk.count('function_sweep:' + r1[0])
        chk.count('nonmutation_checks', 2)
        chk.d(not bad and not bad2, '%s leaves its arguments unchanged' % name, case)
        chk.d(rep, '%s called again on the same arguments gives the same result' % name, case)
    chk.extra['function_sweep'] = {'functions': len(todo),
                                   'raising_in_this_environment': chk.dist.get('function_sweep:err', 0)}


def constructor_sweep(chk, rng):
    """every constructor, with the options that make it touch its input (drop incomplete rows, sort, expand a flat
    frame, rescale a continuous outcome, split sample / target), on frames with missing covariates and a permuted
    index: the caller's frame must come back bit-identical"""
    from zepid.causal.ipw import IPTW, StochasticIPTW, IPMW, IPCW
    from zepid.causal.gformula import TimeFixedGFormula, SurvivalGFormula, MonteCarloGFormula, IterativeCondGFormula
    from zepid.causal.doublyrobust import (AIPTW, TMLE, StochasticTMLE, SingleCrossfitAIPTW, DoubleCrossfitAIPTW,
                                           SingleCrossfitTMLE, DoubleCrossfitTMLE)
    from zepid.causal.snm import GEstimationSNM
    from zepid.causal.generalize import IPSW, GTransportFormula, AIPSW
    n = 120

    def cross(ybin):
        df = gen_cross(rng, n, ybin=ybin, miss=True, perm=True)
        df['L2'] = df['L2'].where(rng.uniform(size=n) > 0.08)         # incomplete covariate rows are dropped
        df['A2'] = 1 - df['A']
        return df
    cb, cc = cross(True), cross(False)
    sel = gen_select(rng, n)
    lng = gen_long(rng, 50)
    flat = gen_flat(rng, 60)
    wide = gen_wide(rng, n)
    mono = gen_ipmw(rng, n, 'monotone')
    todo = [('IPTW(standardize=exposed, weights)', cb, lambda d: IPTW(d, 'A', 'Y', weights='W', standardize='exposed')),
            ('IPTW(continuous)', cc, lambda d: IPTW(d, 'A', 'Y')),
            ('StochasticIPTW(weights)', cb, lambda d: StochasticIPTW(d, 'A', 'Y', weights='W')),
            ('AIPTW(weights)', cc, lambda d: AIPTW(d, 'A', 'Y', weights='W', alpha=0.1)),
            ('TMLE(continuous_bound)', cc, lambda d: TMLE(d, 'A', 'Y', continuous_bound=0.01)),
            ('StochasticTMLE(continuous)', cc, lambda d: StochasticTMLE(d, 'A', 'Y', continuous_bound=0.01)),
            ('GEstimationSNM(weights)', cc, lambda d: GEstimationSNM(d, 'A', 'Y', weights='W')),
            ('TimeFixedGFormula(categorical)', cb,
             lambda d: TimeFixedGFormula(d, exposure=['A', 'A2'], outcome='Y', exposure_type='categorical')),
            ('TimeFixedGFormula(poisson, weights)', cc,
             lambda d: TimeFixedGFormula(d, 'A', 'Y', outcome_type='poisson', weights='W', standardize='unexposed')),
            ('SurvivalGFormula(weights)', lng,
             lambda d: SurvivalGFormula(d, idvar='id', exposure='A', outcome='d', time='t', weights='W')),
            ('MonteCarloGFormula(weights)', lng,
             lambda d: MonteCarloGFormula(d, idvar='id', exposure='A', outcome='d', time_in='enter', time_out='t',
                                          weights='W')),
            ('IterativeCondGFormula', wide, lambda d: IterativeCondGFormula(d, ['A1', 'A2'], ['Y1', 'Y2'])),
            ('IPCW(flat_df=True)', flat, lambda d: IPCW(d, idvar='id', time='t', event='d', flat_df=True)),
            ('IPCW(flat_df=False)', lng, lambda d: IPCW(d, idvar='id', time='t', event='d')),
            ('IPMW(list, stabilized)', mono, lambda d: IPMW(d, ['X', 'Z'], stabilized=True, monotone=True)),
            ('IPMW(single)', mono, lambda d: IPMW(d, 'X')),
            ('IPSW(transport, weights)', sel, lambda d: IPSW(d, 'A', 'Y', 'S', generalize=False, weights='W')),
            ('GTransportFormula(transport)', sel, lambda d: GTransportFormula(d, 'A', 'Y', 'S', generalize=False)),
            ('AIPSW(transport)', sel, lambda d: AIPSW(d, 'A', 'Y', 'S', generalize=False))]
    for nm, cls in (('SingleCrossfitAIPTW', SingleCrossfitAIPTW), ('DoubleCrossfitAIPTW', DoubleCrossfitAIPTW),
                    ('SingleCrossfitTMLE', SingleCrossfitTMLE), ('DoubleCrossfitTMLE', DoubleCrossfitTMLE)):
        todo.append((nm + '(continuous)', cc, (lambda k: lambda d: k(d, 'A', 'Y'))(cls)))
    for name, df, f in todo:
        w = Watch()
        w.add('df', df)
        try:
            with warnings.catch_warnings():
                warnings.simplefilter('ignore')
                with contextlib.redirect_stdout(io.StringIO()):
                    f(df)
            st = 'ok'
        except Exception as e:
            st = 'err %s: %s' % (type(e).__name__, str(e)[:80])
        bad = w.changed()
        chk.case({'constructor': name, 'status': st})
        chk.count('constructor_sweep:' + st.split(' ')[0])
        chk.count('nonmutation_checks')
        chk.d(not bad, 'constructor %s leaves the caller\'s frame unchanged' % name,
              {'constructor': name, 'status': st, 'changed': bad})


D_ONLY = ['Measure', 'DirectedAcyclicGraph', 'SuperLearner', 'Crossfit']
def new_context(df):
    """a new data set: the user's frame, fresh learner objects, no other user objects yet"""
    LEARNERS.clear()
    USER_OBJECTS.clear()
    USER_DF[0] = df
    WATCH[0] = None


def dedupe_once(spec, ops):
    """methods that are not re-specifications when repeated (MonteCarloGFormula.add_covariate_model is documented as
    additive; the association measures of zepid.base are fit-once objects, outside the property's second clause) are
    called at most once per object"""
    seen, out = set(), []
    for o in ops:
        if spec.methods[o['mid']].once:
            if o['mid'] in seen:
                continue
            seen.add(o['mid'])
        out.append(o)
    return out


def safe_history(chk, drv, spec, cell, df, dseed, ops, tag, **kw):
    """anything the harness cannot digest is a failing input with a replay, never a tool failure"""
    try:
        return run_history(chk, drv, spec, cell, df, dseed, ops, tag, **kw)
    except Exception as e:
        import traceback
        chk.d(False, '%s: harness could not evaluate the history (%s)' % (spec.name, type(e).__name__),
              {'class': spec.name, 'lean_class': lean_of(spec, cell), 'cell': cell, 'dseed': dseed, 'n': kw.get('ngen'),
               'ops': [{'mid': o['mid'], 'name': o['name'], 'args': o['args'], 'flag': o['flag']} for o in ops],
               'error': traceback.format_exc()[-1500:]})


def recheck(chk, spec, key_name, cell, df, dseed, n, tag, rng):
    """State must not leak *between objects* either.  (1) A fresh-object run made early on this data set is repeated
    now, after many other objects of the class have been driven over the same frame and learners; (2) the same run is
    repeated with the zEpid modules re-imported (class attributes, module-level caches and mutable default arguments
    start empty again).  Both must reproduce the cached result."""
    fresh = run_history.fresh.get(tag)
    if fresh is None:
        return
    keys = [k for k in fresh.cache if k and any(r[0] == 'ok' for r in fresh.cache[k][0])]
    if not keys:
        return
    keys.sort(key=lambda k: -len(k))
    nk = 1 if spec.quick_cells else 4          # expensive classes: one run; others: the longest and three random ones
    chosen = [keys[0]] + [keys[int(j)] for j in rng.permutation(len(keys))[:nk - 1] if int(j) != 0]
    reimp = None
    for kn, key in enumerate(chosen):
        calls = fresh.calls[key]
        old = fresh.cache[key]
        for mode in ('again', 'reimported'):
            sp = spec
            if mode == 'reimported':
                try:
                    reimp = reimp or reimported_specs()
                    sp = reimp[key_name]
                except Exception:
                    chk.count('recheck_reimport_unavailable')
                    continue
            try:
                obj = make(sp, df, cell)
                res = [do_call(sp, obj, o) for o in calls]
                obs = observe(sp, obj, user_columns(df))
                diffs = []
                for j, (a, b) in enumerate(zip(res, old[0])):
                    diffs += ['call %d %s: %s' % (j, calls[j]['name'], x) for x in compare(sp, a, {}, b, {}, state=False)]
                diffs += compare(sp, ('err', '', ''), obs, ('err', '', ''), old[1], state=True)
            except Exception as e:
                diffs = ['harness error %s: %s' % (type(e).__name__, str(e)[:200])]
            bad = fresh.watch.changed()
            chk.count('recheck_' + mode)
            chk.d(not diffs and not bad, '%s: a fresh object gives the same result %s' % (
                spec.name, 'when the run is repeated later' if mode == 'again' else 'with zEpid re-imported'),
                  {'class': spec.name, 'lean_class': lean_of(spec, cell), 'cell': cell, 'dseed': dseed, 'n': n,
                   'ops': [{'mid': o['mid'], 'name': o['name'], 'args': o['args'], 'flag': o['flag']} for o in calls],
                   'differs': diffs, 'changed': bad, 'mode': mode},
                  signature=spec.known(calls) if spec.known else None)


def reimported_specs():
    import importlib
    import sys
    # sub-modules first, so that a package re-imports the *new* classes of its reloaded sub-modules
    for name in sorted((k for k in sys.modules if k == 'zepid' or k.startswith('zepid.')),
                       key=lambda k: (-k.count('.'), k)):
        mod = sys.modules.get(name)
        if mod is not None:
            try:
                with warnings.catch_warnings():
                    warnings.simplefilter('ignore')
                    importlib.reload(mod)
            except Exception:
                pass
    return mk_specs()


QUICK_CLASSES = ['IPTW', 'StochasticIPTW', 'AIPTW', 'TMLE', 'StochasticTMLE', 'TimeFixedGFormula', 'SurvivalGFormula',
                 'GEstimationSNM', 'IPSW', 'GTransportFormula', 'AIPSW', 'IPMW', 'IPMWuniform', 'IPCW',
                 'MonteCarloGFormula', 'IterativeCondGFormula'] + D_ONLY


def choose_cells(rng, spec, tier):
    """thorough: every cell; quick: a rotating subset that still hits every value of every option"""
    cells = spec.cells
    if len(cells) == 1:
        return [cells[0], cells[0]]     # at least two data sets per class and process (state shared between objects)
    if tier == 'thorough' or len(cells) <= 2:
        return list(cells)
    if spec.quick_cells:
        order = [cells[i] for i in rng.permutation(len(cells))]
        first = order[0]
        rest = [c for c in order[1:] if all(c[k] != first[k] for k in first if len({json.dumps(x[k]) for x in cells}) > 1)]
        return [first] + (rest or order[1:])[:spec.quick_cells - 1]
    keys = list(cells[0])
    chosen, seen = [], set()
    order = [cells[i] for i in rng.permutation(len(cells))]
    for c in order:
        new = {(k, json.dumps(c[k])) for k in keys} - seen
        if new:
            chosen.append(c)
            seen |= new
    return chosen


def table_tie(chk, specs):
    """The class tables the driver executes (`Gen/Tables.lean`) are derived from the source by harness/effects.py.
    Recorded as evidence: what was derived per class (slots, registers, assumed configuration, refusals); checked: the
    method numbering of the generated tables is the numbering of the specs below, and the analysis still finds the six
    stale-state defects F26 on the parent commit of each repair and nothing on the repaired text."""
    import effects
    tabs = effects.tables_summary()
    chk.extra['generated_tables'] = tabs
    chk.extra['generated_tables_registers'] = {c: t.get('registers') for c, t in tabs.items() if t.get('registers')}
    chk.extra['generated_tables_refused'] = {c: t['unsupported'] for c, t in tabs.items() if 'unsupported' in t}
    for d, cls, path, methods, names in effects.CLASSES:
        for nm in names:
            spec = specs.get(nm) or next((sp for sp in specs.values() if callable(sp.lean_name) and
                                          nm in {sp.lean_name(c) for c in sp.cells}), None)
            mine = [m.name.split('(')[0] for m in spec.methods] if spec is not None else None
            chk.k(mine == [m for m, _ in methods] and spec is not None and
                  nm in ({spec.lean_name(c) for c in spec.cells} if callable(spec.lean_name) else {spec.lean_name}),
                  'method numbering of the generated table %s = numbering of the harness' % nm,
                  {'table': [m for m, _ in methods], 'harness': mine})
    st = effects.selftest()
    chk.extra['effects_selftest'] = st if st else 'git history of the repository not readable'
    for r in st:
        chk.k(r['ok'], 'effect analysis: register on the parent of a stale-state repair, none on the repaired text '
              '(%s %s)' % (r['class'], r['rev']), r)


def run(chk, drv, rng, tier):
    specs = mk_specs()
    quick = tier == 'quick'
    # H: np.random.seed reproduces the global stream the Monte Carlo steps draw from
    np.random.seed(12345)
    a1 = (np.random.binomial(1, 0.3, 50), np.random.choice(50, 10, replace=False))
    np.random.seed(12345)
    a2 = (np.random.binomial(1, 0.3, 50), np.random.choice(50, 10, replace=False))
    chk.h_checked += 1
    if not (np.array_equal(a1[0], a2[0]) and np.array_equal(a1[1], a2[1])):
        chk.discard('np.random.seed does not reproduce the stream')
    table_tie(chk, specs)
    function_sweep(chk, rng)
    constructor_sweep(chk, rng)
    cells_done = []
    only = os.environ.get('C11_ONLY')
    for cname in QUICK_CLASSES:
        if only and cname not in only.split(','):
            continue
        spec = specs[cname]
        t_cls = time.time()
        cells = choose_cells(rng, spec, tier)
        for ci, cell in enumerate(cells):
            dseed = int(rng.integers(0, 2 ** 31))
            n = int(rng.integers(150, 300))
            df = spec.data(np.random.default_rng(dseed), cell, n)
            tag = '%s/%d/%d' % (cname, ci, dseed)
            new_context(df)
            hf = H_FORMULA.get(spec.name, 'A ~ L1 + L2')
            if spec.glm and not h_gate(chk, df.dropna(subset=[c for c in ('A', 'Y') if c in df.columns and c in hf]),
                                       hf):
                continue
            w0 = Watch()
            w0.add('df', df)
            WATCH[0] = w0
            una = probe_unavailable(rng, spec, cell, df)
            bad = w0.changed()
            chk.count('nonmutation_checks')
            chk.d(not bad, 'a fully specified and fitted %s object leaves the caller\'s data unchanged' % spec.name,
                  {'class': spec.name, 'cell': cell, 'dseed': dseed, 'n': n, 'changed': bad},
                  signature=spec.known([{'args': {'custom_model': 'any'}}])
                  if (spec.known and bad and all(b.startswith('learner ') for b in bad)) else None)
            if ci == 0:
                o0 = make(spec, df, cell)
                drove = {m.name.split('(')[0] for m in spec.methods}
                left = sorted(k for k in dir(type(o0)) if not k.startswith('_') and callable(getattr(type(o0), k, None))
                              and k not in drove and not isinstance(type(o0).__dict__.get(k), staticmethod))
                if left:      # (static helpers are called by the function sweep)
                    chk.extra.setdefault('public_methods_not_driven', {})[cname + ':' + type(o0).__name__] = left
            cells_done.append({'class': cname, 'cell': cell, 'n': len(df),
                               'unavailable_in_environment': {spec.methods[k].name: v for k, v in una.items()}})
            chk.h_checked += 1
            hs = []
            heavy = bool(spec.quick_cells)       # cross-fit estimators: every fit is (partitions x splits x 2) learner fits
            if ci == 0 or (not quick and ci < 4):      # the guards do not depend on the cell beyond `miss`
                hs += [(ops, True) for ops in guard_stream(rng, spec, cell) if not (heavy and len(ops) > 1)]
            hs += [(ops, True) for ops in refit_stream(rng, spec, cell, refits=3 if (heavy and quick) else 4,
                                                        reverse_c=heavy and quick)
                   ][(2 if (heavy and quick) else 0):]        # expensive classes, quick tier: the refit run only
            if not (heavy and quick) and (ci < 2 or not quick):
                hs.append((observer_stream(rng, spec, cell, ci, every=not quick), False))
            for _ in range((0 if heavy else 1) if quick else (1 if heavy else 4)):
                length = int(rng.integers(3, 9)) if quick else int(rng.integers(4, 15))
                hs.append((gen_ops(rng, spec, cell, length), not quick))
            for ops, every in hs:
                ops = dedupe_once(spec, ops)
                safe_history(chk, drv, spec, cell, df, dseed, ops, tag, judge_every=every, ngen=n, unavailable=una)
            recheck(chk, spec, cname, cell, df, dseed, n, tag, rng)
            run_history.fresh.pop(tag, None)
            chk.extra.setdefault('class_wall_s', {})[cname] = round(
                chk.extra.get('class_wall_s', {}).get(cname, 0) + time.time() - t_cls, 1)
            t_cls = time.time()
    chk.extra['nonmutation_checks'] = chk.dist.get('nonmutation_checks', 0)
    chk.extra.setdefault('public_methods_not_driven', {})
    chk.extra['cells'] = cells_done
    chk.extra['classes'] = QUICK_CLASSES
    chk.extra['exhaustive'] = False


def replay(rec):
    """re-run the stored failing histories on the real code and print what differs"""
    import sys
    specs = mk_specs()
    from common import Check
    rc = 0
    for f in rec.get('failures', []) + rec.get('k_failures', []):
        case = f['case'].get('case', f['case']) if isinstance(f['case'], dict) else None
        if case and ('constructor' in case or 'function' in case):
            chk = Check('C11', 'replay', 0)
            sweep = constructor_sweep if 'constructor' in case else function_sweep
            sweep(chk, np.random.default_rng(0))
            print('%s: %d direct failures on replay' % (sweep.__name__, len(chk.d_fail)))
            for d in chk.d_fail[:5]:
                print('   ', d['what'], d['case'].get('changed'))
            rc = rc or (1 if chk.d_fail else 0)
            continue
        if case and 'ops' not in case and 'dseed' in case and case.get('class') in specs:
            spec = specs[case['class']]
            df = spec.data(np.random.default_rng(case['dseed']), case['cell'], case['n'])
            new_context(df)
            w = Watch()
            w.add('df', df)
            WATCH[0] = w
            probe_unavailable(np.random.default_rng(0), spec, case['cell'], df)
            bad = w.changed()
            print('%s fully specified and fitted on the stored data set: changed %s' % (spec.name, bad))
            rc = rc or (1 if bad else 0)
            continue
        if not case or 'ops' not in case:
            print('not a history case:', f['what'])
            continue
        name = case.get('lean_class') if case.get('lean_class') in specs else case['class']
        spec = specs[name]
        df = spec.data(np.random.default_rng(case['dseed']), case['cell'], case['n'])
        ops = []
        for o in case['ops']:
            m = spec.methods[o['mid']]
            ops.append({'mid': o['mid'], 'name': o['name'], 'kind': m.kind, 'args': o['args'], 'flag': o['flag']})
        chk = Check('C11', 'replay', 0)
        run_history.fresh.clear()
        new_context(df)
        run_history(chk, None, spec, case['cell'], df, case['dseed'], ops, 'replay', ngen=case['n'])
        print('%s %s: %d direct failures on replay' % (spec.name, [o['name'] for o in ops], len(chk.d_fail)))
        for d in chk.d_fail[:3]:
            print('   ', d['what'], d['case'].get('differs') or d['case'].get('changed'))
        rc = rc or (1 if chk.d_fail else 0)
    return rc
