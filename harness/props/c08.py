"""C08 -- estimates are invariant / equivariant under relabelling of the data.

Every case is a *pair of runs* of one estimator class on (data, transformed data); gate D compares the two runs with
each other through the relation the property states for that transformation, gate K compares each run with the Lean
model on its own input (where a model op exists), gate H measures the equivariance assumed of the external fits
(a reference GLM fitted by the harness on both members of the pair must give the same fitted values).
"""
import math
import zlib

import numpy as np
import pandas as pd
import statsmodels.api as sm
import statsmodels.formula.api as smf

import gen
from common import fx, unfx, enc_list, dec_list, close
from props import c01, c07

REQUIRED = ['perm_invariant', 'perm_invariant_strata', 'perm_invariant_snm', 'perm_invariant_counts',
            'frame_perm_invariant', 'relabel_invariant', 'relabel_invariant_counts', 'iptw_weight_flip',
            'flip_treatment', 'flip_measures', 'flip_variance', 'flip_frame', 'stoch_invariant', 'outcome_affine',
            'outcome_affine_variance', 'tmle_unit_affine_pos', 'tmle_unit_affine_neg', 'tmle_ate_affine', 'snm_affine',
            'snm1_affine', 'snm_flip', 'score_reparam', 'score_reparam_affine',
            'msm_perm_invariant', 'msm_flip', 'msm_affine', 'iptw_msm_relabel',
            'tmle_flip_scores', 'tmle_flip', 'tmle_flip_continuous',
            'tmle_fit_flip_generated_binary', 'tmle_fit_flip_generated_continuous',
            'ice_perm_invariant', 'ice_perm_invariant_cellfit', 'ice_cellfit_perm', 'ice_relabel_invariant',
            'survival_flip',
            # Props/C08_Snm.lean: the regenerated lhm / rha of _closed_form_solver_ are the model's
            'snm_generated', 'snm_resid_generated']
RULE = ('pairs (data set, transformed data set) for each estimator class of the property: data = 2 categorical '
        'covariates + one continuous covariate X associated with treatment and outcome, binary or normal outcome, '
        'optionally MAR-missing outcomes (combined sample/target data for the generalize classes, wide 2-3 period '
        'survival-type data for IterativeCondGFormula, a NaN-holed column for IPMW, exposure/outcome/time frames with '
        'missing cells for the effect-measure classes); transformations enumerated per data set: row permutation '
        '(fresh index / labels travelling with the rows), index shifted / shuffled / float / string / duplicated / '
        'all-equal / named, affine map of X (a of both signs), relabelled category codes (C(.) formulas; reference '
        'level changes), 1-A (targets, plans and probabilities recoded accordingly), cY+d with c of both signs. '
        'cells with frequency weights (integer and fractional / not mean-one, varying inside every cell) on every class '
        'that takes `weights`, crossed with every standardize target, stabilization and missing outcomes; '
        'TimeFixedGFormula also through a custom plan and the deterministic stochastic plans p=1 / p=0; every reported '
        'column of the effect-measure frames (per-level risks / rates with SD and limits, CLR / CLD, Frechet bounds, n, '
        'missing counters; frames always contain rows missing only the outcome / only the exposure / only the time); '
        'cells with truncation bounds that bite (symmetric float cutting ~20% of the rows; asymmetric pair at the 15%/80% '
        'quantiles of the fitted probabilities, lo != 1-hi) on every model that takes `bound` (IPTW treatment/missing, '
        'AIPTW exposure/missing, TMLE exposure/missing/outcome, StochasticTMLE exposure, GEstimationSNM missing, IPSW '
        'sampling/treatment, AIPSW treatment) under every transformation (mirrored interval where only Pr(A=1) is '
        'truncated and A is recoded, or the unit-scale outcome is mirrored by c<0); '
        'cells with rows whose exposure was not recorded while outcome and covariates are (6-10% of the rows; 1-A leaves '
        'them missing): dropped by the point classes, in neither arm of IPSW / AIPSW / GTransportFormula (IPSW also '
        'without treatment_model(), the documented use for a trial). '
        'distinct = (data hash, class, options, transformation); non-trivial = the transformation really changes what '
        'the class receives (row order / index labels / codes / values differ from the original frame); X, the '
        'categorical covariates, treatment and outcome are associated by construction')
ASSUMPTIONS = ['statsmodels GLM / GEE fits are equivariant under reparametrisation of the design (row order, affine '
               'column maps, change of reference level, A -> 1-A, Gaussian Y -> cY+d): measured on every pair by a '
               'reference fit made by the harness on both members (fitted values agree to 1e-7); a pair is discarded '
               'only if that reference pair disagrees',
               'scipy Nelder-Mead (GEstimationSNM solver="search") reaches the root to its tolerance: search-solver '
               'pairs are compared at 2e-3 relative, closed-form pairs at 1e-7',
               'index alignment inside pandas is glue that the Lean model does not contain; it is reached only '
               'through gates K and D']

RT = 1e-7            # two IRLS runs on reparametrised designs (measured agreement is 1e-10 .. 1e-13)
AT = 1e-9
COVF = 'C(L1) + C(L2) + X'
OUTF = 'A + C(L1) + C(L2) + X + A:X'


# ------------------------------------------------------------------------------------------------ data
def add_x(rng, df, acol='A', ycol='Y'):
    y = df[ycol].values.astype(float)
    yz = np.where(np.isnan(y), np.nanmean(y), y)
    a = np.nan_to_num(df[acol].values.astype(float), nan=0.5)
    sd = yz.std() or 1.0
    df['X'] = np.round(0.7 * a + 0.4 * df['L1'].values + 0.5 * (yz - yz.mean()) / sd + rng.normal(0, 1, len(df)), 3)
    return df


def point_data(rng, ytype, missing=None):
    while True:
        df, covs = gen.cat_dataset(rng, outcome=ytype, ncov=2, max_strata=6, missing=missing,
                                   n_extra=int(rng.integers(60, 220)))
        if len(covs) == 2:
            break
    return add_x(rng, df), covs


def gen_data(rng):
    from props import c16
    df, covs = None, None
    while covs is None or len(covs) != 2:
        df, covs = c16.combined(rng, junk=False)
    return add_x(rng, df), covs


def wide_data(rng, K):
    n = int(rng.integers(150, 400))
    d = {}
    alive = np.ones(n, dtype=bool)
    prevA = np.zeros(n)
    L = rng.normal(0, 1, n)
    for t in range(1, K + 1):
        L = np.round(0.6 * L + 0.4 * prevA + rng.normal(0, 1, n), 3)
        A = (rng.uniform(size=n) < 1 / (1 + np.exp(-(0.3 * L + 0.8 * prevA - 0.2)))).astype(float)
        Y = (rng.uniform(size=n) < 1 / (1 + np.exp(-(-1.2 + 0.5 * L - 0.7 * A)))).astype(float)
        cens = rng.uniform(size=n) < 0.04
        Y[~alive] = np.nan
        Y[alive & cens] = np.nan
        d['L%d' % t], d['A%d' % t], d['Y%d' % t] = L.copy(), A, Y
        alive = alive & (Y == 0)
        prevA = A
    return pd.DataFrame(d)


def ipmw_data(rng):
    df, covs = point_data(rng, 'binary')
    n = len(df)
    p1 = 1 / (1 + np.exp(-(1.2 - 0.5 * df['A'] + 0.4 * df['X'])))
    o1 = rng.uniform(size=n) < p1
    o2 = o1 & (rng.uniform(size=n) < 1 / (1 + np.exp(-(1.5 + 0.5 * df['L1'] - 0.3 * df['X']))))
    df['M1'] = np.where(o1, rng.normal(0, 1, n).round(3), np.nan)
    df['M2'] = np.where(o2, rng.integers(0, 2, n).astype(float), np.nan)
    return df, covs


# ------------------------------------------------------------------------------------------------ observables
class Obs(dict):
    """name -> (kind, value).  kinds:
       inv       invariant scalar / list           rows      per-input-row array (NaN pattern included)
       diff      difference measure                ratio     ratio measure
       se        SE of a difference measure        selog     SE of a log ratio
       cidiff    (lower, upper) of a difference    ciratio   (lower, upper) of a ratio
       arms      (value under all-treated, value under none-treated)      mean   a mean of Y"""

    def put(self, name, kind, val):
        self[name] = (kind, np.asarray(val, dtype=float))


def expected(kind, v, rel):
    """what the observable `v` of the original run must become under the relation `rel`"""
    c, d, flip, perm = rel.get('c', 1.0), rel.get('d', 0.0), rel.get('flip', False), rel.get('perm')
    if kind == 'rows':
        return v if perm is None else v[perm]
    if kind == 'inv':
        return v
    if kind == 'rowpair':                       # (per-row value for arm 1, per-row value for arm 0)
        w = v if perm is None else v[:, perm]
        return w[::-1] if flip else w
    if kind == 'mean':
        return c * v + d
    if kind == 'arms':
        w = c * v + d
        return w[::-1] if flip else w
    if kind == 'diff':
        return (-1 if flip else 1) * c * v
    if kind == 'ratio':
        return 1 / v if flip else v
    if kind == 'se':
        return abs(c) * v
    if kind == 'selog':
        return v
    if kind == 'cimean':
        w = c * v + d
        return np.sort(w) if c < 0 else w
    if kind == 'cidiff':
        w = c * v
        if flip:
            w = -w[::-1]
        return np.sort(w) if c < 0 else w
    if kind == 'ciratio':
        return (1 / v)[::-1] if flip else v
    raise KeyError(kind)


def allclose(a, b, rt, at):
    a, b = np.asarray(a, dtype=float).ravel(), np.asarray(b, dtype=float).ravel()
    if a.shape != b.shape:
        return False
    na, nb = np.isnan(a), np.isnan(b)
    if not np.array_equal(na, nb):
        return False
    a, b = a[~na], b[~nb]
    ia, ib = np.isinf(a), np.isinf(b)
    if not np.array_equal(ia, ib) or not np.array_equal(a[ia], b[ib]):
        return False
    a, b = a[~ia], b[~ib]
    return bool(np.all(np.abs(a - b) <= at + rt * np.maximum(np.abs(a), np.abs(b))))


# ------------------------------------------------------------------------------------------------ transformations
INDEX_KINDS = ['shifted', 'shuffled', 'float', 'string', 'dup', 'const', 'named', 'negdesc', 'datetime']
ALL_T = ['perm', 'permkeep'] + INDEX_KINDS + ['affx+', 'affx-', 'relabel', 'flip', 'affy+', 'affy-']


def reindex(df, kind, rng):
    n = len(df)
    out = df.copy()
    if kind == 'shifted':
        out.index = np.arange(n) + int(rng.integers(1, 5000))
    elif kind == 'shuffled':
        out.index = rng.permutation(n)
    elif kind == 'float':
        out.index = np.arange(n) * 1.25 + 0.5
    elif kind == 'string':
        out.index = ['r%d' % i for i in rng.permutation(n)]
    elif kind == 'dup':
        out.index = np.arange(n) // 2
    elif kind == 'const':
        out.index = np.zeros(n, dtype=int)
    elif kind == 'named':
        out.index = pd.Index(rng.permutation(n) + 7, name='pid')
    elif kind == 'negdesc':
        out.index = -np.arange(n)
    elif kind == 'datetime':
        out.index = pd.Timestamp('2020-01-01') + pd.to_timedelta(rng.permutation(n), unit='D')
    else:
        raise KeyError(kind)
    return out


def transform(df, spec, kind, rng):
    """-> (df2, spec2, rel).  spec: dict(a=[treatment columns], y=[outcome columns], cats={col: {code: code}} ...)"""
    spec2 = dict(spec)
    rel = {}
    if kind == 'perm':
        p = rng.permutation(len(df))
        df2 = df.iloc[p].reset_index(drop=True)
        rel['perm'] = p
    elif kind == 'permkeep':
        p = rng.permutation(len(df))
        df2 = df.iloc[p].copy()
        rel['perm'] = p
    elif kind in INDEX_KINDS:
        df2 = reindex(df, kind, rng)
    elif kind in ('affx+', 'affx-'):
        a = float(rng.choice([0.5, 2.0, 10.0, 0.125, 3.0])) * (1 if kind == 'affx+' else -1)
        b = float(rng.choice([-3.0, 0.0, 1.0, 12.5]))
        df2 = df.copy()
        for x in spec['x']:
            df2[x] = a * df[x] + b
        rel['xmap'] = (a, b)
    elif kind == 'relabel':
        df2 = df.copy()
        cats = {}
        for ccol in spec['cat']:
            lv = sorted(df[ccol].dropna().unique().tolist())
            pool = rng.permutation(np.arange(0, 40))[:len(lv)]
            while list(np.argsort(pool)) == list(range(len(lv))):        # must change the order (reference level)
                pool = rng.permutation(np.arange(0, 40))[:len(lv)]
            m = {v: int(w) for v, w in zip(lv, pool)}
            df2[ccol] = df[ccol].map(m).astype(df[ccol].dtype)
            cats[ccol] = m
        spec2['codes'] = {c: {v: cats[c][w] for v, w in spec['codes'][c].items()} for c in spec['cat']}
        rel['cats'] = cats
    elif kind == 'flip':
        df2 = df.copy()
        for a in spec['a']:
            df2[a] = 1 - df[a]
        spec2['flipped'] = not spec.get('flipped', False)
        rel['flip'] = True
    elif kind in ('affy+', 'affy-'):
        c = float(rng.choice([0.5, 2.0, 3.0, 0.25, 100.0])) * (1 if kind == 'affy+' else -1)
        d = float(rng.choice([-7.0, 0.0, 10.0, 2.5]))
        df2 = df.copy()
        for y in spec['y']:
            df2[y] = c * df[y] + d
        rel['c'], rel['d'] = c, d
        if c < 0:
            spec2['yneg'] = not spec.get('yneg', False)
    else:
        raise KeyError(kind)
    return df2, spec2, rel


def really_changes(df, df2, kind):
    if kind in ('perm', 'permkeep'):
        return not df2.reset_index(drop=True).equals(df.reset_index(drop=True))
    if kind in INDEX_KINDS:
        return not (isinstance(df2.index, pd.RangeIndex) and df2.index.start == 0)
    return not df2.equals(df)


SWAP = {'population': 'population', 'exposed': 'unexposed', 'unexposed': 'exposed'}


# ------------------------------------------------------------------------------------------------ truncation bounds
# Why every relation stays EXACT under `bound=`: truncation is a per-row map of a fitted probability, so
#  * row permutation / index relabelling / affine X / relabelled codes: each row's fitted probability is the same
#    number in both runs, hence so is its truncated value (same `bound` on both runs);
#  * cY+d: treatment / sampling / missingness probabilities do not involve Y (same `bound`); TMLE's outcome `bound`
#    acts on the unit scale, where c>0 leaves Q unchanged (same `bound`) and c<0 maps Q to 1-Q, so the transformed run
#    takes the mirrored interval [1-hi, 1-lo] (a symmetric float is its own mirror);
#  * 1-A, classes that truncate g1 = Pr(A=1|L) and g0 = Pr(A=0|L) SEPARATELY to the same [lo, hi] (AIPTW / TMLE
#    exposure_model) and classes that truncate arm-specific probabilities Pr(observed|A=a,L) (all missing models, TMLE
#    outcome model): before truncation g1' = g0 and g0' = g1 (m1' = m0, Q1' = Q0), both are cut to the same interval,
#    so the same `bound` on the recoded data gives g1' = g0, g0' = g1 after truncation too -- arm means swap exactly;
#  * 1-A, classes that truncate only d = Pr(A=1|L) and use 1-d for the other arm (`iptw_calculator`: IPTW, IPSW and
#    AIPSW treatment_model; StochasticTMLE.exposure_model): 1 - clip(d, [lo, hi]) = clip(1-d, [1-hi, 1-lo]), so the
#    recoded run takes the mirrored interval (the bound is a statement about Pr(A=1), which the recoding renames);
#  * sampling-model bounds (IPSW) do not involve A: same `bound`.
def qbounds(pr):
    """truncation levels that bite: a symmetric float cutting ~20% of the rows and an asymmetric pair at the 15% / 80%
    quantiles of the fitted probabilities with lo != 1 - hi"""
    pr = np.asarray(pr, dtype=float)
    pr = pr[~np.isnan(pr)]
    sym = round(float(np.quantile(np.minimum(pr, 1 - pr), 0.2)), 4)
    lo, hi = round(float(np.quantile(pr, 0.15)), 4), round(float(np.quantile(pr, 0.8)), 4)
    if abs(lo - (1 - hi)) < 0.03:
        hi = round(float(np.quantile(pr, 0.65)), 4)
    if abs(lo - (1 - hi)) < 0.03:
        lo = round(lo / 2, 4)
    if not lo < hi:                                    # degenerate fitted distribution: fall back to a fixed pair
        lo, hi = 0.2, 0.7
    return {'sym': sym, 'asym': [lo, hi]}


def bnd(spec, opt, where, mirror=False):
    """keyword arguments `bound=` for the model `where` of this cell (empty when the cell does not bound it)"""
    if not opt.get('bound') or where not in opt.get('bwhere', ()):
        return {}
    b = spec['bounds'][where][opt['bound']]
    if mirror and isinstance(b, list):
        b = [1 - b[1], 1 - b[0]]
    return {'bound': b}


def tgt_of(spec, tgt):
    return SWAP[tgt] if spec.get('flipped') else tgt


# ------------------------------------------------------------------------------------------------ runners
def full_rows(df, arr, ycol='Y'):
    """per-row output of an estimator that drops the rows with an incomplete covariate / treatment
    (`check_input_data`), put back on the rows of the input frame (NaN for the dropped rows)"""
    arr = np.asarray(arr, dtype=float)
    if arr.shape[-1] == len(df):
        return arr
    keep = ~df.drop(columns=[ycol]).isna().any(axis=1).values
    out = np.full(arr.shape[:-1] + (len(df),), np.nan)
    out[..., keep] = arr
    return out


def run_iptw(df, spec, opt):
    from zepid.causal.ipw import IPTW
    o = Obs()
    ipt = IPTW(df, treatment='A', outcome='Y', standardize=tgt_of(spec, opt['tgt']), **wkw(opt))
    ipt.treatment_model(COVF, stabilized=opt['stab'], print_results=False,
                        **bnd(spec, opt, 'treat', mirror=spec.get('flipped')))
    if opt.get('miss'):
        ipt.missing_model(OUTF, stabilized=opt['stab'], print_results=False, **bnd(spec, opt, 'miss'))
        o.put('ipmw', 'rows', full_rows(df, ipt.ipmw))
    ipt.marginal_structural_model('A')
    ipt.fit()
    o.put('iptw', 'rows', full_rows(df, ipt.iptw))
    ipt.positivity()
    o.put('positivity', 'inv', [ipt._pos_avg, ipt._pos_sd, ipt._pos_min, ipt._pos_max])
    if opt['ytype'] == 'binary':
        t = ipt.risk_difference
        o.put('RD', 'diff', t.loc['A', 'RD'])
        o.put('SE(RD)', 'se', t.loc['A', 'SE(RD)'])
        o.put('CI(RD)', 'cidiff', [t.loc['A', '95%LCL'], t.loc['A', '95%UCL']])
        o.put('arms', 'arms', [t.loc['Intercept', 'RD'] + t.loc['A', 'RD'], t.loc['Intercept', 'RD']])
        t = ipt.risk_ratio
        o.put('RR', 'ratio', t.loc['A', 'RR'])
        o.put('SE(logRR)', 'selog', t.loc['A', 'SE(log(RR))'])
        o.put('CI(RR)', 'ciratio', [t.loc['A', '95%LCL'], t.loc['A', '95%UCL']])
        t = ipt.odds_ratio
        o.put('OR', 'ratio', t.loc['A', 'OR'])
        o.put('SE(logOR)', 'selog', t.loc['A', 'SE(log(OR))'])
        o.put('CI(OR)', 'ciratio', [t.loc['A', '95%LCL'], t.loc['A', '95%UCL']])
    else:
        t = ipt.average_treatment_effect
        o.put('ATE', 'diff', t.loc['A', 'ATE'])
        o.put('SE(ATE)', 'se', t.loc['A', 'SE(ATE)'])
        o.put('CI(ATE)', 'cidiff', [t.loc['A', '95%LCL'], t.loc['A', '95%UCL']])
        o.put('arms', 'arms', [t.loc['Intercept', 'ATE'] + t.loc['A', 'ATE'], t.loc['Intercept', 'ATE']])
    o.est = ipt
    return o


def xargs(rel):
    """the transformation, as arguments of the model's own transformation functions (Driver/Ops/C08.lean)"""
    kw = {}
    if rel.get('perm') is not None:
        kw['perm'] = enc_list(rel['perm'].tolist(), str)
    if rel.get('flip'):
        kw['flip'] = 1
    if 'c' in rel:
        kw['yc'], kw['yd'] = fx(rel['c']), fx(rel['d'])
    return kw


def to_orig(arr, rel, n):
    """per-row values of the transformed run, put back into the row order of the original data"""
    arr = np.broadcast_to(np.asarray(arr, dtype=float), (n,))
    if rel.get('perm') is None:
        return arr
    out = np.empty(n)
    out[rel['perm']] = arr
    return out


def k_iptw(drv, o, base, rel, spec, opt):
    """model: transform the ORIGINAL rows with the model's flipRow / affRow / permutation, feed the transformed
    run's fitted values (indexed by original row), compare with the transformed run's weights and estimates"""
    ipt, b = o.est, base.est
    n = len(b.df)
    if len(ipt.df) != n or (rel.get('perm') is not None and len(rel['perm']) != n):
        return None, None      # rows were dropped by check_input_data: the pair is compared by gate D only
    mw = np.ones(n) if ipt.ipmw is None else np.where(np.isnan(ipt.ipmw), 0.0, ipt.ipmw)
    rep, _ = drv.ask('xiptw', c='f', stab=int(opt['stab']), tgt=tgt_of(spec, opt['tgt']),
                     n=enc_list(to_orig(ipt.df['__numer__'].values, rel, n), fx),
                     d=enc_list(to_orig(ipt.df['__denom__'].values, rel, n), fx), mw=enc_list(to_orig(mw, rel, n), fx),
                     **rows_kw(b.df), **xargs(rel))
    ok = rep['status'] == 'ok'
    if ok:
        ok = allclose(dec_list(rep['iptw'], unfx), ipt.iptw, 1e-12, 0)
        m1, m0 = unfx(rep['m1']), unfx(rep['m0'])
        ok = ok and allclose([m1, m0], o['arms'][1], 1e-7, 1e-9 * max(1.0, abs(rel.get('c', 1.0))))
    return ok, {k: v for k, v in rep.items() if k != 'iptw'}


def rows_kw(d, acol='A', ycol='Y', obs=None):
    """driver row arguments for an estimator's own (re-indexed) frame; strata are irrelevant to these ops"""
    y = d[ycol].tolist()
    kw = dict(s=enc_list([0] * len(d), str), a=enc_list(d[acol].fillna(0).tolist(), lambda v: str(int(v))),
              y=','.join('_' if (isinstance(v, float) and math.isnan(v)) else fx(v) for v in y))
    if 'w' in d.columns:
        kw['w'] = enc_list(d['w'].astype(float), fx)
    if obs is not None:
        kw['obs'] = enc_list(obs, lambda v: str(int(v)))
        kw['y'] = ','.join(fx(0.0 if (isinstance(v, float) and math.isnan(v)) else v) for v in y)
    return kw


def run_stoch(df, spec, opt):
    from zepid.causal.ipw import StochasticIPTW
    o = Obs()
    s = StochasticIPTW(df, treatment='A', outcome='Y', **wkw(opt))
    s.treatment_model(COVF, print_results=False)
    fl = spec.get('flipped')
    p = opt['p']
    s.fit(p=(1 - p) if fl else p)
    o.put('marginal', 'mean', s.marginal_outcome)
    code = spec['codes']['L1'][0]
    pc = [0.2, 0.65]
    s.fit(p=[1 - q for q in pc] if fl else pc, conditional=["df['L1']==%d" % code, "df['L1']!=%d" % code])
    o.put('marginal_cond', 'mean', s.marginal_outcome)
    o.est, o.p = s, ((1 - p) if fl else p)
    return o


def k_stoch(drv, o, base, rel, spec, opt):
    s, b = o.est, base.est
    n = len(b.df)
    if len(s.df) != n or (rel.get('perm') is not None and len(rel['perm']) != n):
        return None, None
    rep, _ = drv.ask('xstoch', c='f', p=enc_list(np.full(n, o.p), fx), pi=enc_list(to_orig(s._pdenom_, rel, n), fx),
                     **rows_kw(b.df), **xargs(rel))
    ok = rep['status'] == 'ok' and allclose([unfx(rep['m'])], o['marginal'][1], 1e-10, 1e-12)
    return ok, rep


def run_gf(df, spec, opt):
    from zepid.causal.gformula import TimeFixedGFormula
    o = Obs()
    g = TimeFixedGFormula(df, exposure='A', outcome='Y', outcome_type=opt['ytype'],
                          standardize=tgt_of(spec, opt['tgt']), **wkw(opt))
    g.outcome_model(OUTF, print_results=False)
    g.fit('all')
    r1, q1 = float(g.marginal_outcome), np.asarray(g.predicted_df['Y'], dtype=float)
    g.fit('none')
    r0, q0 = float(g.marginal_outcome), np.asarray(g.predicted_df['Y'], dtype=float)
    o.put('arms', 'arms', [r1, r0])
    o.put('diff', 'diff', r1 - r0)
    # a custom plan (treat exactly the rows with L1 = its first code), recoded with the treatment
    code = spec['codes']['L1'][0]
    g.fit("g['L1']%s%d" % ('!=' if spec.get('flipped') else '==', code))
    o.put('custom_plan', 'mean', g.marginal_outcome)
    # deterministic stochastic plans (p = 1 / p = 0 draw nothing random): exact identities with fit('all') / fit('none')
    fl = spec.get('flipped')
    g.fit_stochastic(p=0.0 if fl else 1.0, samples=2, seed=0)
    s1 = float(g.marginal_outcome)
    g.fit_stochastic(p=1.0 if fl else 0.0, samples=2, seed=0)
    s0 = float(g.marginal_outcome)
    o.put('stochastic_p1_p0', 'mean', [s1, s0])
    o.put('stochastic_equals_fit', 'inv', [float(close(s1, r0 if fl else r1, rtol=1e-10)),
                                           float(close(s0, r1 if fl else r0, rtol=1e-10))])
    o.est, o.q1, o.q0 = g, q1, q0
    return o


def k_gf(drv, o, base, rel, spec, opt):
    g, b = o.est, base.est
    n = len(b.gf)
    if len(g.gf) != n or (rel.get('perm') is not None and len(rel['perm']) != n):
        return None, None
    rep, _ = drv.ask('xgform', c='f', tgt=tgt_of(spec, opt['tgt']), q1=enc_list(to_orig(o.q1, rel, n), fx),
                     q0=enc_list(to_orig(o.q0, rel, n), fx), **rows_kw(b.gf), **xargs(rel))
    ok = rep['status'] == 'ok' and allclose([unfx(rep['g1']), unfx(rep['g0'])], o['arms'][1], 1e-10, 1e-12)
    return ok, rep


def dr_common(o, e, ytype, tmle):
    if ytype == 'binary':
        o.put('RD', 'diff', e.risk_difference)
        o.put('SE(RD)', 'se', e.risk_difference_se)
        o.put('CI(RD)', 'cidiff', e.risk_difference_ci)
        o.put('RR', 'ratio', e.risk_ratio)
        o.put('SE(logRR)', 'selog', e.risk_ratio_se)
        o.put('CI(RR)', 'ciratio', e.risk_ratio_ci)
        if tmle:
            o.put('OR', 'ratio', e.odds_ratio)
            o.put('SE(logOR)', 'selog', e.odds_ratio_se)
            o.put('CI(OR)', 'ciratio', e.odds_ratio_ci)
    else:
        o.put('ATE', 'diff', e.average_treatment_effect)
        o.put('SE(ATE)', 'se', e.average_treatment_effect_se)
        o.put('CI(ATE)', 'cidiff', e.average_treatment_effect_ci)


def run_aiptw(df, spec, opt):
    from zepid.causal.doublyrobust import AIPTW
    o = Obs()
    a = AIPTW(df, exposure='A', outcome='Y', **wkw(opt))
    a.exposure_model(COVF, print_results=False, **bnd(spec, opt, 'treat'))
    if opt.get('miss'):
        a.missing_model(OUTF, print_results=False, **bnd(spec, opt, 'miss'))
    a.outcome_model(OUTF, print_results=False)
    a.fit()
    dr_common(o, a, opt['ytype'], False)
    o.put('gW', 'rowpair', full_rows(df, [np.asarray(a.df['_g1_'], dtype=float), np.asarray(a.df['_g0_'], dtype=float)]))
    o.est = a
    return o


def k_aiptw(drv, o, base, rel, spec, opt):
    a, b = o.est, base.est
    n = len(b.df)
    if opt.get('miss') or len(a.df) != n or (rel.get('perm') is not None and len(rel['perm']) != n):
        return None, None
    rep, _ = drv.ask('xaipw', c='f', q1=enc_list(to_orig(a.df['_pY1_'], rel, n), fx),
                     q0=enc_list(to_orig(a.df['_pY0_'], rel, n), fx), g1=enc_list(to_orig(a.df['_g1_'], rel, n), fx),
                     g0=enc_list(to_orig(a.df['_g0_'], rel, n), fx), **rows_kw(b.df), **xargs(rel))
    ok = rep['status'] == 'ok'
    if ok:
        y1, y0, var = unfx(rep['y1']), unfx(rep['y0']), unfx(rep['var'])
        se = float('nan') if opt.get('w') else math.sqrt(var)       # weighted AIPTW reports no variance (NaN)
        if opt['ytype'] == 'binary':
            ok = allclose([y1 - y0, y1 / y0, se], [o['RD'][1], o['RR'][1], o['SE(RD)'][1]], 1e-9, 1e-12)
        else:
            ok = allclose([y1 - y0, se], [o['ATE'][1], o['SE(ATE)'][1]], 1e-9, 1e-12)
    return ok, rep


def run_tmle(df, spec, opt):
    from zepid.causal.doublyrobust import TMLE
    o = Obs()
    kw = {} if opt.get('cb') is None else {'continuous_bound': opt['cb']}
    t = TMLE(df, exposure='A', outcome='Y', **kw)
    t.exposure_model(COVF, print_results=False, **bnd(spec, opt, 'treat'))
    if opt.get('miss'):
        t.missing_model(OUTF, print_results=False, **bnd(spec, opt, 'miss'))
    t.outcome_model(OUTF, print_results=False, **bnd(spec, opt, 'out', mirror=spec.get('yneg')))
    t.fit()
    dr_common(o, t, opt['ytype'], True)
    o.put('gW', 'rowpair', full_rows(df, [np.asarray(t.g1W, dtype=float), np.asarray(t.g0W, dtype=float)]))
    return o


def run_snm(df, spec, opt):
    from zepid.causal.snm import GEstimationSNM
    o = Obs()
    s = GEstimationSNM(df, exposure='A', outcome='Y', **wkw(opt))
    # domain of the shift / recoding clauses: every SNM modifier (and their products) is in the exposure model
    s.exposure_model(COVF + ' + B', print_results=False)
    s.structural_nested_model(opt['snm'])
    if opt.get('miss'):
        s.missing_model(OUTF, print_results=False, **bnd(spec, opt, 'miss'))
    if opt.get('solver') == 'search':
        s.fit(solver='search', tolerance=1e-10, maxiter=4000)
    else:
        s.fit()
    o.put('psi', 'diff', s.psi)
    o.labels = list(s.psi_labels)
    o.est = s
    return o


def snm_reference(s, opt):
    """nuisance layer: the exposure model fitted by the harness with the documented arguments"""
    d = s.df.copy()
    wcol = 'w' if opt.get('w') else None
    if s.ipmw is not None:
        d['_w_'] = s.ipmw * d['w'] if opt.get('w') else s.ipmw
        wcol = '_w_'
    d = d.dropna()
    f = sm.families.family.Binomial()
    kw = {'freq_weights': d[wcol]} if wcol else {}
    p = np.asarray(smf.glm('A ~ ' + COVF + ' + B', d, family=f, **kw).fit().predict(d), dtype=float)
    w = d[wcol].values.astype(float) if wcol else np.ones(len(d))
    return d, p, w


def k_snm(drv, o, base, rel, spec, opt):
    """model: closed-form estimating equations on the ORIGINAL rows transformed by the model's affY / flipA, with the
    harness's reference exposure fit; the transformed run's psi must make the residual vanish (np.linalg.solve)"""
    if not hasattr(base, 'ref'):
        base.ref = snm_reference(base.est, opt)
    d, p, w = base.ref
    D = len(o.labels)
    vs = [np.ones(len(d)), d['B'].values.astype(float)][:D]
    kw = {k: v for k, v in xargs(rel).items() if k != 'perm'}
    rep, _ = drv.ask('snm', c='f', a=enc_list(d['A'].tolist(), lambda v: str(int(v))), y=enc_list(d['Y'], fx),
                     w=enc_list(w, fx), p=enc_list(p, fx), D=D, psi=enc_list(o['psi'][1].ravel(), fx),
                     **{'v%d' % k: enc_list(v, fx) for k, v in enumerate(vs)}, **kw)
    ok = rep['status'] == 'ok'
    if ok:
        tol = (2e-3 if opt.get('solver') == 'search' else 1e-7)
        res, rha = dec_list(rep['resid'], unfx), dec_list(rep['rha'], unfx)
        ok = all(abs(r) <= tol * max(1.0, abs(h)) for r, h in zip(res, rha))
        if D == 1:
            ok = ok and allclose([unfx(rep['psi1'])], o['psi'][1], tol, tol)
        # domain of the shift / recoding clauses: the modifiers' score equations hold in the reference fit
        ok = ok and all(abs(m) <= 1e-6 * len(d) for m in dec_list(rep['mods'], unfx))
    return ok, rep


def sample_rows(df, arr, mask):
    out = np.full(len(df), np.nan)
    out[np.asarray(mask)] = np.asarray(arr, dtype=float)
    return out


def run_ipsw(df, spec, opt):
    from zepid.causal.generalize import IPSW
    o = Obs()
    e = IPSW(df, exposure='A', outcome='Y', selection='S', generalize=opt['gen'], **wkw(opt))
    e.sampling_model(COVF, stabilized=opt['stab'], print_results=False, **bnd(spec, opt, 'samp'))
    if opt.get('treat', True):      # treat=False: the documented use for a randomized trial (sampling weights only)
        e.treatment_model(COVF, stabilized=opt['stab'], print_results=False,
                          **bnd(spec, opt, 'treat', mirror=spec.get('flipped')))
    e.fit()
    o.put('RD', 'diff', e.risk_difference)
    o.put('RR', 'ratio', e.risk_ratio)
    o.put('ipsw', 'rows', sample_rows(df, e.ipsw, df['S'] == 1))
    if e.iptw is not None:
        # (a study-sample row whose exposure was not recorded is in neither arm: its treatment weight is not a result,
        # and no relation is stated for it -- masked)
        tw = sample_rows(df, e.iptw, df['S'] == 1)
        o.put('iptw', 'rows', np.where(df['A'].isna().values, np.nan, tw))
    o.est = e
    return o


def k_ipsw(drv, o, base, rel, spec, opt):
    e = o.est
    # a study-sample row without a recorded exposure belongs to neither arm; the model's rows have an arm, and its
    # arm means read no other row, so such rows are left out of what the model is given
    has_a = e.sample[e.exposure].notna().values
    smp = e.sample[has_a]
    tw = np.ones(len(e.sample)) if e.iptw is None else np.asarray(e.iptw, dtype=float)
    rep, _ = drv.ask('ipsw', c='f', gen=int(opt['gen']), stab=int(opt['stab']),
                     ns=enc_list(np.broadcast_to(np.asarray(e.sample['__numer__'], dtype=float),
                                                 (len(e.sample),))[has_a], fx),
                     ds=enc_list(smp['__denom__'], fx), tw=enc_list(tw[has_a], fx),
                     **rows_kw(smp, obs=[1] * len(smp)))
    ok = rep['status'] == 'ok'
    if ok:
        r1, r0 = unfx(rep['r1']), unfx(rep['r0'])
        ok = allclose(dec_list(rep['w'], unfx), smp['__ipsw__'], 1e-12, 0) and \
            allclose([r1 - r0, r1 / r0], [e.risk_difference, e.risk_ratio], 1e-9, 1e-12)
    return ok, {k: v for k, v in rep.items() if k != 'w'}


def run_gtrans(df, spec, opt):
    from zepid.causal.generalize import GTransportFormula
    o = Obs()
    e = GTransportFormula(df, exposure='A', outcome='Y', selection='S', generalize=opt['gen'], **wkw(opt))
    e.outcome_model(OUTF, print_results=False)
    e.fit()
    o.put('RD', 'diff', e.risk_difference)
    o.put('RR', 'ratio', e.risk_ratio)
    o.est = e
    return o


def k_gtrans(drv, o, base, rel, spec, opt):
    e = o.est
    df = e.df
    d1, d0 = df.copy(), df.copy()
    d1['A'], d0['A'] = 1, 0
    rep, _ = drv.ask('gtrans', c='f', gen=int(opt['gen']), q1=enc_list(e._outcome_model.predict(d1), fx),
                     q0=enc_list(e._outcome_model.predict(d0), fx), **rows_kw(df, obs=df['S'].astype(int).tolist()))
    ok = rep['status'] == 'ok'
    if ok:
        r1, r0 = unfx(rep['r1']), unfx(rep['r0'])
        ok = allclose([r1 - r0, r1 / r0], [e.risk_difference, e.risk_ratio], 1e-9, 1e-12)
    return ok, rep


def run_aipsw(df, spec, opt):
    from zepid.causal.generalize import AIPSW
    o = Obs()
    e = AIPSW(df, exposure='A', outcome='Y', selection='S', generalize=opt['gen'])
    e.sampling_model(COVF, stabilized=opt['stab'], print_results=False)
    if opt.get('treat', True):
        e.treatment_model(COVF, stabilized=opt['stab'], print_results=False,
                          **bnd(spec, opt, 'treat', mirror=spec.get('flipped')))
    e.outcome_model(OUTF, print_results=False)
    e.fit()
    o.put('RD', 'diff', e.risk_difference)
    o.put('RR', 'ratio', e.risk_ratio)
    o.put('ipsw', 'rows', e.ipsw)
    o.est = e
    return o


def k_aipsw(drv, o, base, rel, spec, opt):
    e = o.est
    df = e.df
    if (df['A'].isna() & (df['S'] == 1)).any():
        return None, None      # rows in neither arm (exposure not recorded): the model's rows have an arm; gate D only
    tw = np.ones(len(df)) if e.iptw is None else np.where(np.isnan(e.iptw), 0.0, e.iptw)
    rep, _ = drv.ask('aipsw', c='f', gen=int(opt['gen']), stab=int(opt['stab']), ns=enc_list(e.df['__numer__'], fx),
                     ds=enc_list(e.df['__denom__'], fx), tw=enc_list(tw, fx), q1=enc_list(e._YA1, fx),
                     q0=enc_list(e._YA0, fx), **rows_kw(e.df, obs=e.df['S'].astype(int).tolist()))
    ok = rep['status'] == 'ok'
    if ok:
        r1, r0 = unfx(rep['r1']), unfx(rep['r0'])
        ok = allclose([r1 - r0, r1 / r0], [e.risk_difference, e.risk_ratio], 1e-9, 1e-12)
    return ok, rep


def run_stmle(df, spec, opt):
    """StochasticTMLE draws its Monte-Carlo treatments by row position from numpy's global stream: with a fixed seed
    the plan p in (0,1) is comparable only under transformations that keep the row order and the plan (index kinds,
    affine X, relabelled codes, cY+d); the degenerate plan p = 1 (p = 0 after the 1-A recoding) draws nothing random
    and is compared under every transformation."""
    from zepid.causal.doublyrobust import StochasticTMLE
    o = Obs()
    t = StochasticTMLE(df, exposure='A', outcome='Y')
    t.exposure_model(COVF, **bnd(spec, opt, 'treat', mirror=spec.get('flipped')))
    t.outcome_model(OUTF)
    fl = spec.get('flipped')
    t.fit(p=0.0 if fl else 1.0, samples=3, seed=11)
    o.put('all_marginal', 'mean', t.marginal_outcome)
    o.put('all_se', 'se', t.marginal_se)
    o.put('all_ci', 'cimean', t.marginal_ci)
    o.put('all_cond_se', 'se', t.conditional_se)
    o.put('all_cond_ci', 'cimean', t.conditional_ci)
    if spec.get('_kind') is None or spec['_kind'] in INDEX_KINDS + ['affx+', 'affx-', 'relabel', 'affy+', 'affy-']:
        t.fit(p=0.4, samples=12, seed=11)
        o.put('mc_marginal', 'mean', t.marginal_outcome)
        o.put('mc_se', 'se', t.marginal_se)
        o.put('mc_ci', 'cimean', t.marginal_ci)
        o.put('mc_cond_se', 'se', t.conditional_se)
        o.put('mc_cond_ci', 'cimean', t.conditional_ci)
    o.optional = {'mc_marginal', 'mc_se', 'mc_ci', 'mc_cond_se', 'mc_cond_ci'}
    return o


def run_icgf(df, spec, opt):
    from zepid.causal.gformula import IterativeCondGFormula
    o = Obs()
    K = opt['K']
    exps = ['A%d' % t for t in range(1, K + 1)]
    outs = ['Y%d' % t for t in range(1, K + 1)]
    models = ['A1 + L1'] + ['A%d + A%d + L%d' % (t, t - 1, t) for t in range(2, K + 1)]
    g = IterativeCondGFormula(df, exposures=exps, outcomes=outs)
    g.outcome_model(models=models, print_results=False)
    fl = spec.get('flipped')
    for name, plan in (('all', [1] * K), ('none', [0] * K), ('alt', [1, 0, 1][:K])):
        g.fit(treatments=[1 - v for v in plan] if fl else plan)
        o.put('plan_' + name, 'inv', g.marginal_outcome)
    # per-individual plan: treat at t when L_t > its median (rows of the plan travel with the rows of the data)
    plan = spec['plan']
    g.fit(treatments=(1 - plan) if fl else plan)
    o.put('plan_rows', 'inv', g.marginal_outcome)
    return o


def run_ipmw(df, spec, opt):
    from zepid.causal.ipw import IPMW
    o = Obs()
    if opt['mono']:
        m = IPMW(df, missing_variable=['M1', 'M2'], stabilized=opt['stab'], monotone=True)
        if opt['stab']:
            m.regression_models(model_denominator=['A + X', 'C(L1) + X'], model_numerator=['1', 'A'],
                                print_results=False)
        else:
            m.regression_models(model_denominator=['A + X', 'C(L1) + X'], print_results=False)
    else:
        m = IPMW(df, missing_variable='M1', stabilized=opt['stab'])
        if opt['stab']:
            m.regression_models(model_denominator='A + C(L1) + X', model_numerator='A', print_results=False)
        else:
            m.regression_models(model_denominator='A + C(L1) + X', print_results=False)
    m.fit()
    o.put('Weight', 'rows', m.Weight)
    o.put('index_kept', 'inv', float(m.Weight.index.equals(df.index)))
    return o


def run_measure(df, spec, opt):
    import zepid
    cls = opt['cls']
    name, col, sdcol, lcl, ucl, fn = c07.CLASSES[cls]
    ref = spec['codes']['exp'][opt['ref']]
    obj = getattr(zepid, name)(reference=ref, alpha=opt['alpha'])
    if cls in ('IRR', 'IRD'):
        obj.fit(df, exposure='exp', outcome='dis', time='t')
    else:
        obj.fit(df, exposure='exp', outcome='dis')
    o = Obs()
    res = obj.results
    inv = {w: v for v, w in spec['codes']['exp'].items()}          # current code -> original code
    kd, ks, kc = (('diff', 'se', 'cidiff') if cls in ('RD', 'IRD', 'NNT') else ('ratio', 'selog', 'ciratio'))
    for lab in res.index:
        if str(lab).startswith('Ref:'):
            continue
        orig = inv[int(float(lab))]
        row = res.loc[lab]
        o.put('%s[%d]' % (col, orig), kd, row[col])
        o.put('%s[%d]' % (sdcol, orig), ks, row[sdcol])
        o.put('CI[%d]' % orig, kc, [row[lcl], row[ucl]])
    o.put('missing', 'inv', [obj._missing_e, obj._missing_d, obj._missing_ed])
    # secondary reported quantities: the per-level summaries (risk / incidence rate with SD and limits, reference row
    # included; under 1-E of a binary exposure the two rows exchange), the limit ratio / difference, the Frechet bounds
    # of RiskDifference (mirrored [-U, -L] under 1-E), the counters
    flipped = bool(spec.get('flipped'))
    lev_cols = [c for c in ('Risk', 'SD(Risk)', 'Risk_LCL', 'Risk_UCL', 'IncRate', 'SD(IncRate)', 'IncRate_LCL',
                            'IncRate_UCL') if c in res.columns]
    for lab in res.index:
        cur = int(float(str(lab).replace('Ref:', '')))
        orig = inv[cur]
        if flipped:
            orig = 1 - orig
        if lev_cols:
            o.put('level_summary[%d]' % orig, 'inv', [res.loc[lab, c] for c in lev_cols])
        if not str(lab).startswith('Ref:'):
            for c in ('CLR', 'CLD'):
                if c in res.columns:
                    o.put('%s[%d]' % (c, inv[cur]), 'inv', res.loc[lab, c])
            if 'LowerBound' in res.columns:
                o.put('Frechet[%d]' % inv[cur], 'cidiff', [res.loc[lab, 'LowerBound'], res.loc[lab, 'UpperBound']])
    if hasattr(obj, 'n'):
        o.put('n', 'inv', obj.n)
    if hasattr(obj, '_missing_t'):
        o.put('missing_t', 'inv', obj._missing_t)
    o.est, o.frame = obj, df
    return o


def k_measure(drv, o, base, rel, spec, opt):
    df = o.frame
    from scipy.stats import norm
    cls, alpha = opt['cls'], opt['alpha']
    name, col, sdcol, lcl, ucl, fn = c07.CLASSES[cls]
    ref = spec['codes']['exp'][opt['ref']]
    kw = dict(cls=cls, ref=int(ref), alpha=fx(alpha), px=fx(1 - alpha / 2), pz=fx(norm.ppf(1 - alpha / 2)),
              e=c07.enc_opt(df['exp'].tolist(), lambda v: str(int(v))),
              d=c07.enc_opt(df['dis'].tolist(), lambda v: str(int(v))))
    if cls in ('IRR', 'IRD'):
        kw['t'] = c07.enc_opt(df['t'].tolist(), fx)
    rep, _ = drv.ask('frame', **kw)
    ok = rep['status'] == 'ok'
    if ok:
        res = o.est.results
        lv = dec_list(rep['levels'], int)
        ok = [str(float(l)) for l in lv] == sorted([i for i in res.index if not i.startswith('Ref:')], key=float)
        for key, c in (('point', col), ('lower', lcl), ('upper', ucl), ('se', sdcol)):
            for l, v in zip(lv, dec_list(rep[key], unfx)):
                ok = ok and close(res.loc[str(float(l)), c], v, rtol=1e-11)
    return ok, rep


# class -> (runner, K function or None, transformations that apply, data kind)
POINT_T = ['perm', 'permkeep'] + INDEX_KINDS + ['affx+', 'affx-', 'relabel', 'flip']
CLASSES = {
    'IPTW': (run_iptw, k_iptw, POINT_T + ['affy+', 'affy-']),
    'StochasticIPTW': (run_stoch, k_stoch, POINT_T + ['affy+', 'affy-']),
    'TimeFixedGFormula': (run_gf, k_gf, POINT_T + ['affy+', 'affy-']),
    'AIPTW': (run_aiptw, k_aiptw, POINT_T + ['affy+', 'affy-']),
    'TMLE': (run_tmle, None, POINT_T + ['affy+', 'affy-']),
    'StochasticTMLE': (run_stmle, None, POINT_T + ['affy+', 'affy-']),
    'GEstimationSNM': (run_snm, k_snm, POINT_T + ['affy+', 'affy-']),
    'IPSW': (run_ipsw, k_ipsw, POINT_T),
    'GTransportFormula': (run_gtrans, k_gtrans, POINT_T),
    'AIPSW': (run_aipsw, k_aipsw, POINT_T),
    'IterativeCondGFormula': (run_icgf, None, ['perm', 'permkeep'] + INDEX_KINDS + ['affx+', 'affx-', 'flip']),
    'IPMW': (run_ipmw, None, ['perm', 'permkeep'] + INDEX_KINDS + ['affx+', 'affx-', 'relabel']),
    'measure': (run_measure, k_measure, ['perm', 'permkeep'] + INDEX_KINDS + ['relabel', 'flip']),
}


# ------------------------------------------------------------------------------------------------ data sets per group
def frame_data(rng, nlev):
    while True:
        df = frame_data1(rng, nlev)
        cc = df.dropna(subset=['exp', 'dis'])
        if all(((cc['exp'] == l) & (cc['dis'] == y)).sum() > 0 for l in range(nlev) for y in (0, 1)):
            return df               # every cell of the cross-tabulation occupied (the count functions reject zeros)


def frame_data1(rng, nlev):
    n = int(rng.integers(60, 200))
    e = rng.integers(0, nlev, size=n).astype(float)
    base = rng.uniform(0.25, 0.75, size=nlev)
    d = (rng.uniform(size=n) < base[e.astype(int)]).astype(float)
    t = np.round(rng.uniform(0.5, 10, size=n), 2)
    pm = float(rng.choice([0.0, 0.1, 0.25]))
    for arr in (e, d, t):
        arr[rng.uniform(size=n) < pm * rng.uniform()] = np.nan
    # always some rows missing ONLY the outcome, ONLY the exposure, ONLY the time (each counter / denominator differs)
    idx = rng.permutation(n)
    d[idx[:int(rng.integers(3, 9))]] = np.nan
    e[idx[10:10 + int(rng.integers(2, 6))]] = np.nan
    t[idx[20:20 + int(rng.integers(2, 6))]] = np.nan
    return pd.DataFrame({'exp': e, 'dis': d, 't': t})


def add_w(rng, df, kw):
    """frequency-weight column: varies inside every (stratum, arm) cell; integer for kw['w']='int', fractional and not
    mean-one for 'frac'"""
    if kw.get('w') == 'int':
        df['w'] = rng.integers(1, 5, size=len(df)).astype(int)
    elif kw.get('w'):
        df['w'] = rng.choice([0.5, 1.0, 1.5, 2.25, 3.0], size=len(df))


def wkw(opt, name='weights'):
    return {name: 'w'} if opt.get('w') else {}


def make(group, seed, **kw):
    """deterministic (data, spec) of a group from a seed"""
    rng = np.random.default_rng(seed)
    if group == 'point':
        df, covs = point_data(rng, kw['ytype'], kw.get('missing'))
        df['B'] = (rng.uniform(size=len(df)) < 1 / (1 + np.exp(-0.8 * df['X']))).astype(int)
        add_w(rng, df, kw)
        if kw.get('xmiss'):                     # incomplete covariate rows (dropped by check_input_data)
            df.loc[rng.uniform(size=len(df)) < 0.06, 'X'] = np.nan
        if kw.get('amiss'):                     # rows whose exposure was not recorded (outcome and covariates are)
            df['A'] = df['A'].astype(float)
            df.loc[rng.uniform(size=len(df)) < 0.06, 'A'] = np.nan
        spec = {'a': ['A'], 'y': ['Y'], 'x': ['X'], 'cat': covs}
    elif group == 'gen':
        df, covs = gen_data(rng)
        add_w(rng, df, kw)
        if kw.get('amiss'):                     # study-sample rows whose exposure was not recorded (outcome is): they
            smp = np.flatnonzero((df['S'] == 1).values)      # belong to neither arm; 1-A leaves them as they are
            lost = rng.choice(smp, size=max(4, len(smp) // 10), replace=False)
            df.loc[df.index[lost], 'A'] = np.nan
        spec = {'a': ['A'], 'y': ['Y'], 'x': ['X'], 'cat': covs}
    elif group == 'wide':
        K = kw['K']
        df = wide_data(rng, K)
        spec = {'a': ['A%d' % t for t in range(1, K + 1)], 'y': [], 'x': ['L%d' % t for t in range(1, K + 1)],
                'cat': [], 'plan': np.column_stack([(df['L%d' % t].values > df['L%d' % t].median()).astype(int)
                                                    for t in range(1, K + 1)])}
    elif group == 'ipmw':
        df, covs = ipmw_data(rng)
        spec = {'a': ['A'], 'y': ['Y'], 'x': ['X'], 'cat': covs}
    elif group == 'frame':
        df = frame_data(rng, kw['nlev'])
        spec = {'a': ['exp'], 'y': [], 'x': [], 'cat': ['exp']}
    else:
        raise KeyError(group)
    spec['codes'] = {c: {int(v): int(v) for v in sorted(df[c].dropna().unique())} for c in spec['cat']}
    spec['flipped'] = False
    if kw.get('bound'):
        f = sm.families.family.Binomial()
        d = df.reset_index(drop=True)
        b = {}
        if group == 'gen':
            b['samp'] = qbounds(smf.glm('S ~ ' + COVF, d, family=f).fit().predict(d))
            b['treat'] = qbounds(smf.glm('A ~ ' + COVF, d[d.S == 1], family=f).fit().predict(d[d.S == 1]))
        else:
            b['treat'] = qbounds(smf.glm('A ~ ' + COVF, d, family=f).fit().predict(d))
            if d['Y'].isna().any():
                d['_obs_'] = d['Y'].notna().astype(int)
                b['miss'] = qbounds(smf.glm('_obs_ ~ ' + OUTF, d, family=f).fit().predict(d))
            if kw.get('ytype') == 'normal':
                d['_ys_'] = (d['Y'] - d['Y'].min()) / (d['Y'].max() - d['Y'].min())
                b['out'] = qbounds(np.clip(smf.glm('_ys_ ~ ' + OUTF, d).fit().predict(d), 0.001, 0.999))
        spec['bounds'] = b
    return df, spec


GROUP_OF = {'IPTW': 'point', 'StochasticIPTW': 'point', 'TimeFixedGFormula': 'point', 'AIPTW': 'point',
            'TMLE': 'point', 'StochasticTMLE': 'point', 'GEstimationSNM': 'point', 'IPSW': 'gen', 'GTransportFormula': 'gen', 'AIPSW': 'gen',
            'IterativeCondGFormula': 'wide', 'IPMW': 'ipmw', 'measure': 'frame'}


def applies(cls, opt, kind):
    if kind not in CLASSES[cls][2]:
        return False
    if kind in ('affy+', 'affy-'):
        return opt.get('ytype') == 'normal'
    if cls == 'measure' and kind == 'flip':
        return opt['nlev'] == 2
    return True


# ------------------------------------------------------------------------------------------------ gate H
def ref_equivariant(drv, df, df2, spec, rel, group, opt, kind):
    """reference fits made by the harness on both members of the pair: same fitted values (the assumption about
    statsmodels the pair comparison rests on).  For the point-estimator data the hypothesis of `score_reparam` is
    measured as well: the transformation acts on the outcome-model design as an invertible linear map M, the
    reference fit satisfies its score equations, and (Lean `Glm.reparamRow`) so does the re-expressed design."""
    if group in ('frame',):
        return True
    perm = rel.get('perm')
    f = sm.families.family.Binomial()
    df, df2 = df.reset_index(drop=True), df2.reset_index(drop=True)     # the reference call is about statsmodels only
    if group == 'wide':
        form = 'A1 ~ L1'
    elif group == 'gen':
        form = 'S ~ ' + COVF
    else:
        form = 'A ~ ' + COVF
    p1 = np.asarray(smf.glm(form, df, family=f).fit().predict(df), dtype=float)
    p2 = np.asarray(smf.glm(form, df2, family=f).fit().predict(df2), dtype=float)
    want = p1 if perm is None else p1[perm]
    if rel.get('flip') and group != 'gen':
        want = 1 - want
    ok = allclose(p2, want, 1e-7, 1e-9)
    if 'c' in rel:
        q1 = np.asarray(smf.glm('Y ~ ' + OUTF, df).fit().predict(df), dtype=float)
        q2 = np.asarray(smf.glm('Y ~ ' + OUTF, df2).fit().predict(df2), dtype=float)
        ok = ok and allclose(q2, rel['c'] * q1 + rel['d'], 1e-7, 1e-9 * max(1.0, abs(rel['c'])))
    if ok and drv is not None and group == 'point' and kind in ('affx+', 'affx-', 'relabel', 'flip'):
        import patsy
        fam = f if opt.get('ytype') == 'binary' else sm.families.family.Gaussian()
        d1, d2 = df.dropna(), df2.dropna()
        X1 = np.asarray(patsy.dmatrix(OUTF, d1))
        X2 = np.asarray(patsy.dmatrix(OUTF, d2))
        if X1.shape != X2.shape:
            return False
        M = np.linalg.lstsq(X1, X2, rcond=None)[0]
        ok = np.allclose(X1 @ M, X2, rtol=1e-8, atol=1e-8 * max(1.0, np.abs(X2).max())) and \
            np.linalg.cond(M) < 1e8
        y = d1['Y'].values.astype(float)
        mu = np.asarray(sm.GLM(y, X1, family=fam).fit().predict(X1), dtype=float)
        mu2 = np.asarray(sm.GLM(d2['Y'].values.astype(float), X2, family=fam).fit().predict(X2), dtype=float)
        ok = ok and allclose(mu2, mu, 1e-7, 1e-9)
        pcol = X1.shape[1]
        cols = {'x%d' % k: enc_list(X1[:, k], fx) for k in range(pcol)}
        base = dict(c='f', p=pcol, y=enc_list(y, fx), mu=enc_list(mu, fx), w=enc_list(np.ones(len(y)), fx), **cols)
        r1, _ = drv.ask('score', **base)
        r2, _ = drv.ask('score', m=enc_list(M.ravel(), fx), **base)
        scale = 1e-6 * len(y) * max(1.0, np.abs(y).max())
        ok = ok and r1['status'] == 'ok' and r2['status'] == 'ok'
        if ok:
            s1 = np.array(dec_list(r1['score'], unfx))
            s2 = np.array(dec_list(r2['score'], unfx))
            ok = bool(np.all(np.abs(s1) <= scale * np.maximum(1.0, np.abs(X1).max(axis=0)))) and \
                bool(np.all(np.abs(s2) <= scale * np.maximum(1.0, np.abs(X2).max(axis=0)))) and \
                allclose(s2, X2.T @ (y - mu), 1e-6, scale)
    return ok


# ------------------------------------------------------------------------------------------------ engine
def tolerance(cls, opt, name, kind, rel):
    rt, at = RT, AT
    if cls == 'GEstimationSNM' and opt.get('solver') == 'search':
        rt, at = 2e-3, 2e-4
    at = at * max(1.0, abs(rel.get('c', 1.0)))
    return rt, at


def signature_of(cls, opt, kind, name):
    quantity = {'SE(logRR)': 'log-RR standard error', 'CI(RR)': 'log-RR standard error'}.get(name, name)
    return {'class': cls, 'transformation': 'index' if kind in INDEX_KINDS else kind.rstrip('+-'), 'attribute': name,
            'quantity': quantity, 'missing': bool(opt.get('miss'))}


def compare(chk, cls, opt, kind, base, other, rel, case):
    """gate D on one pair"""
    bad = []
    for name, (k, v) in base.items():
        if name not in other:
            if name not in getattr(base, 'optional', ()):
                bad.append((name, 'absent'))
            continue
        want = expected(k, v, rel)
        rt, at = tolerance(cls, opt, name, k, rel)
        got = other[name][1]
        if not allclose(got, want, rt, at):
            bad.append((name, {'kind': k, 'original': np.round(v.ravel()[:6], 12).tolist(),
                               'expected': np.round(np.asarray(want).ravel()[:6], 12).tolist(),
                               'transformed_run': np.round(got.ravel()[:6], 12).tolist()}))
    names = sorted(base)
    groups = {}
    for name, info in bad:
        groups.setdefault(name.split('[')[0], []).append((name, info))
    for name in sorted(set(n.split('[')[0] for n in names)):
        fails = groups.get(name, [])
        chk.d(not fails, '%s.%s under %s: %s' % (cls, name, kind, RELTEXT[kind if kind not in INDEX_KINDS else 'index']),
              dict(case, mismatch=dict(fails)) if fails else case, signature=signature_of(cls, opt, kind, name))


RELTEXT = {'perm': 'same results, per-row outputs permuted with the rows', 'permkeep': 'same results, per-row '
           'outputs permuted with the rows', 'index': 'same results as with the default index',
           'affx': 'same results', 'relabel': 'same results', 'flip': 'differences negate, ratios invert, arm means '
           'swap, SEs equal, limits mirrored', 'affy': 'means -> c*m+d, differences and limits scale by c, SEs by |c|'}
for _k in ('affx+', 'affx-'):
    RELTEXT[_k] = RELTEXT['affx']
for _k in ('affy+', 'affy-'):
    RELTEXT[_k] = RELTEXT['affy']


def run_pairs(chk, drv, cls, opt, seed, kinds, tseed):
    group = GROUP_OF[cls]
    runner, kfun, _ = CLASSES[cls]
    df, spec = make(group, seed, **opt)
    rec = {'class': cls, 'options': {k: v for k, v in opt.items()}, 'data_seed': seed, 'n': int(len(df))}
    try:
        base = runner(df, spec, opt)
    except Exception as ex:  # the untransformed reference run must work; otherwise the data set is unusable
        chk.discard('original run failed: %s %s' % (cls, type(ex).__name__))
        chk.extra.setdefault('original_run_failures', []).append(dict(rec, exception=str(ex)[:200]))
        return
    if drv is not None and kfun is not None:
        ok, rep = kfun(drv, base, base, {}, spec, opt)
        if ok is not None:
            chk.k(ok, '%s estimates = Lean model on the run\'s own fitted values (original data)' % cls,
                  dict(rec, model=rep))
    dsid = zlib.crc32(df.to_csv().encode())
    for kind in kinds:
        if not applies(cls, opt, kind):
            continue
        ts = int(tseed + zlib.crc32(kind.encode())) % (2 ** 31)
        df2, spec2, rel = transform(df, spec, kind, np.random.default_rng(ts))
        if 'plan' in spec and 'perm' in rel:
            spec2['plan'] = spec['plan'][rel['perm']]
        spec2['_kind'] = kind
        case = dict(rec, transformation=kind, transform_seed=ts,
                    relation={k: (v if not isinstance(v, np.ndarray) else 'permutation') for k, v in rel.items()})
        nontriv = really_changes(df, df2, kind)
        chk.case(case, (dsid, cls, repr(sorted(opt.items())), kind) if nontriv else None,
                 sample=case if chk.evals % 97 == 0 else None)
        chk.count('%s/%s' % (cls, kind))
        chk.h_checked += 1
        try:
            href = ref_equivariant(drv, df, df2, spec, rel, group, opt, kind)
        except Exception as ex:
            href = False
        if not href:
            chk.discard('reference GLM pair not equivariant (%s)' % kind)
            continue
        try:
            other = runner(df2, spec2, opt)
        except Exception as ex:
            chk.d(False, '%s runs on the %s data (it ran on the original)' % (cls, kind),
                  dict(case, exception='%s: %s' % (type(ex).__name__, str(ex)[:300])),
                  signature=signature_of(cls, opt, kind, 'raises'))
            continue
        compare(chk, cls, opt, kind, base, other, rel, case)
        if drv is not None and kfun is not None:
            ok, rep = kfun(drv, other, base, rel, spec2, opt)
            if ok is not None:
                chk.k(ok, '%s estimates = Lean model (original rows transformed by the model\'s own %s) on the run\'s fitted values' % (cls, kind),
                      dict(case, model=rep))


def model_transform_checks(chk, drv, rng, reps):
    """gate K for the model's own transformation functions (`flipRow`, `affRow`, `relabelRow`, row permutation as
    executed by op `xstd`, exact rationals): the Lean closed form on the model-transformed rows equals the harness's
    independent closed form on the python-transformed frame"""
    from fractions import Fraction
    names = {'pop1': ('population', 1), 'pop0': ('population', 0), 'exp1': ('exposed', 1),
             'exp0': ('exposed', 0), 'unx1': ('unexposed', 1), 'unx0': ('unexposed', 0)}
    for _ in range(reps):
        seed = int(rng.integers(0, 2 ** 31))
        df, covs = gen.cat_dataset(np.random.default_rng(seed), outcome='normal', n_extra=int(rng.integers(20, 80)))
        spec = {'a': ['A'], 'y': ['Y'], 'x': [], 'cat': covs,
                'codes': {c: {int(v): int(v) for v in sorted(df[c].unique())} for c in covs}}
        sid = gen.strata_ids(df, covs)
        base_kw = gen.enc_rows(df, covs)
        for kind in ('perm', 'relabel', 'flip', 'affy-'):
            ts = int(rng.integers(0, 2 ** 31))
            df2, spec2, rel = transform(df, spec, kind, np.random.default_rng(ts))
            kw = dict(base_kw)
            if kind == 'perm':
                kw['perm'] = enc_list(rel['perm'].tolist(), str)
                cf = gen.closed_form(df2, covs)
            elif kind == 'relabel':
                sid2 = gen.strata_ids(df2, covs)
                phi = {}
                for a, b in zip(sid.tolist(), sid2.tolist()):
                    phi[a] = b
                kw['phi'] = enc_list([phi.get(i, 0) for i in range(max(phi) + 1)], str)
                cf = gen.closed_form(df2, covs)
            elif kind == 'flip':
                kw['flip'] = 1
                cf = gen.closed_form(df2, covs)
            else:
                from common import rq
                kw['yc'], kw['yd'] = rq(rel['c']), rq(rel['d'])
                cf0 = gen.closed_form(df, covs)
                cf = {k: Fraction(rel['c']) * v + Fraction(rel['d']) for k, v in cf0.items()}
            rep, _ = drv.ask('xstd', **kw)
            ok = rep['status'] == 'ok' and all(Fraction(rep[k]) == cf[v] for k, v in names.items())
            if ok and kind == 'perm':
                ok = int(rep['first']) == int(rel['perm'][0])
            chk.k(ok, 'Lean std on rows transformed by the model (%s) = independent closed form on the transformed frame '
                      '(exact)' % kind, {'data_seed': seed, 'transformation': kind, 'transform_seed': ts,
                                         'model': {k: rep.get(k) for k in ('status', 'pop1', 'pop0', 'strata')}})


def cells(tier):
    """the configuration cells (class, options); enumerated exhaustively"""
    out = []
    for yt in ('binary', 'normal'):
        for stab in (True, False):
            for tgt in ('population', 'exposed', 'unexposed'):
                out.append(('IPTW', dict(ytype=yt, stab=stab, tgt=tgt)))
        out.append(('IPTW', dict(ytype=yt, stab=True, tgt='population', miss=True, missing='mar')))
        out.append(('StochasticIPTW', dict(ytype=yt, p=0.35)))
        for tgt in ('population', 'exposed', 'unexposed'):
            out.append(('TimeFixedGFormula', dict(ytype=yt, tgt=tgt)))
        out.append(('TimeFixedGFormula', dict(ytype=yt, tgt='population', miss=True, missing='mar')))
        out.append(('AIPTW', dict(ytype=yt)))
        out.append(('AIPTW', dict(ytype=yt, miss=True, missing='mar')))
        out.append(('TMLE', dict(ytype=yt)))
        out.append(('TMLE', dict(ytype=yt, miss=True, missing='mar')))
    out.append(('IPTW', dict(ytype='binary', stab=True, tgt='population', xmiss=True)))
    out.append(('StochasticIPTW', dict(ytype='binary', p=0.6, xmiss=True, missing='mcar')))
    out.append(('TimeFixedGFormula', dict(ytype='normal', tgt='exposed', xmiss=True)))
    out.append(('AIPTW', dict(ytype='normal', xmiss=True)))
    out.append(('TMLE', dict(ytype='binary', xmiss=True)))
    out.append(('GEstimationSNM', dict(ytype='normal', snm='A', xmiss=True)))
    out.append(('TMLE', dict(ytype='normal', cb=0.0)))
    out.append(('TMLE', dict(ytype='normal', cb=0.05)))
    for snm in ('A', 'A + A:B'):
        out.append(('GEstimationSNM', dict(ytype='normal', snm=snm)))
    out.append(('GEstimationSNM', dict(ytype='binary', snm='A')))
    out.append(('GEstimationSNM', dict(ytype='normal', snm='A', miss=True, missing='mar')))
    if tier != 'quick':
        out.append(('GEstimationSNM', dict(ytype='normal', snm='A', solver='search')))
    for g in (True, False):
        for stab in (True, False):
            out.append(('IPSW', dict(gen=g, stab=stab)))
            out.append(('AIPSW', dict(gen=g, stab=stab)))
        out.append(('AIPSW', dict(gen=g, stab=True, treat=False)))
        out.append(('GTransportFormula', dict(gen=g)))
    # frequency weights (integer and fractional, varying inside every cell) crossed with every standardization target,
    # with stabilization and with missing outcomes, on every class that takes `weights`
    for i, tgt in enumerate(('population', 'exposed', 'unexposed')):
        wk = ('int', 'frac')[i % 2]
        out.append(('TimeFixedGFormula', dict(ytype='binary', tgt=tgt, w=wk)))
        out.append(('TimeFixedGFormula', dict(ytype='normal', tgt=tgt, w=('frac', 'int')[i % 2])))
        out.append(('TimeFixedGFormula', dict(ytype='normal', tgt=tgt, w=wk, miss=True, missing='mar')))
        out.append(('IPTW', dict(ytype='binary', stab=True, tgt=tgt, w=wk)))
        out.append(('IPTW', dict(ytype='normal', stab=False, tgt=tgt, w=('frac', 'int')[i % 2])))
    out.append(('IPTW', dict(ytype='normal', stab=True, tgt='population', w='frac', miss=True, missing='mar')))
    out.append(('StochasticIPTW', dict(ytype='binary', p=0.35, w='frac')))
    out.append(('StochasticIPTW', dict(ytype='normal', p=0.7, w='int')))
    out.append(('AIPTW', dict(ytype='binary', w='frac')))
    out.append(('AIPTW', dict(ytype='normal', w='int')))
    out.append(('AIPTW', dict(ytype='normal', w='frac', miss=True, missing='mar')))
    out.append(('GEstimationSNM', dict(ytype='normal', snm='A', w='frac')))
    out.append(('GEstimationSNM', dict(ytype='normal', snm='A + A:B', w='int')))
    out.append(('GEstimationSNM', dict(ytype='normal', snm='A', w='frac', miss=True, missing='mar')))
    for g in (True, False):
        out.append(('IPSW', dict(gen=g, stab=g, w='frac' if g else 'int')))
        out.append(('GTransportFormula', dict(gen=g, w='int' if g else 'frac')))
    # truncation bounds that bite (symmetric float and asymmetric pair with lo != 1-hi), every class that takes `bound`
    for b in ('sym', 'asym'):
        out.append(('IPTW', dict(ytype='binary', stab=True, tgt='population', miss=True, missing='mar', bound=b,
                                 bwhere=('treat', 'miss'))))
        out.append(('IPTW', dict(ytype='normal', stab=False, tgt='exposed' if b == 'sym' else 'unexposed', bound=b,
                                 bwhere=('treat',))))
        out.append(('AIPTW', dict(ytype='binary', miss=True, missing='mar', bound=b, bwhere=('treat', 'miss'))))
        out.append(('AIPTW', dict(ytype='normal', bound=b, bwhere=('treat',))))
        out.append(('TMLE', dict(ytype='binary', miss=True, missing='mar', bound=b, bwhere=('treat', 'miss'))))
        out.append(('TMLE', dict(ytype='normal', bound=b, bwhere=('treat', 'out'))))
        out.append(('StochasticTMLE', dict(ytype='binary' if b == 'sym' else 'normal', bound=b, bwhere=('treat',))))
        out.append(('GEstimationSNM', dict(ytype='normal', snm='A', miss=True, missing='mar', bound=b,
                                           bwhere=('miss',))))
        out.append(('IPSW', dict(gen=(b == 'sym'), stab=True, bound=b, bwhere=('samp', 'treat'))))
        out.append(('IPSW', dict(gen=(b != 'sym'), stab=False, bound=b, bwhere=('samp', 'treat'))))
        out.append(('AIPSW', dict(gen=(b == 'sym'), stab=True, bound=b, bwhere=('treat',))))
    out.append(('StochasticTMLE', dict(ytype='binary')))
    for K in (2, 3):
        out.append(('IterativeCondGFormula', dict(K=K)))
    for mono in (False, True):
        for stab in (True, False):
            out.append(('IPMW', dict(mono=mono, stab=stab)))
    for cls in ('RR', 'RD', 'NNT', 'OR', 'IRR', 'IRD'):
        for nlev in (2, 3):
            out.append(('measure', dict(cls=cls, nlev=nlev, ref=0, alpha=0.05)))
        out.append(('measure', dict(cls=cls, nlev=4, ref=2, alpha=0.2)))
    # (round 4; appended, so that the data seeds of the cells above stay what they were)
    # rows whose exposure was not recorded while everything else is (dropped by check_input_data in the point classes;
    # in neither arm of the generalize classes, where no treatment_model() is the documented use for a trial)
    out.append(('IPTW', dict(ytype='normal', stab=True, tgt='exposed', amiss=True)))
    out.append(('TimeFixedGFormula', dict(ytype='binary', tgt='unexposed', amiss=True)))
    out.append(('AIPTW', dict(ytype='binary', amiss=True, miss=True, missing='mar')))
    out.append(('TMLE', dict(ytype='normal', amiss=True)))
    for g in (True, False):
        out.append(('IPSW', dict(gen=g, stab=g, treat=False)))
        out.append(('IPSW', dict(gen=g, stab=not g, treat=False, amiss=True)))
        out.append(('IPSW', dict(gen=g, stab=g, amiss=True)))
        out.append(('AIPSW', dict(gen=g, stab=not g, treat=g, amiss=True)))
        out.append(('GTransportFormula', dict(gen=g, amiss=True)))
    return out


def run(chk, drv, rng, tier):
    reps = 1 if tier == 'quick' else 5
    cs = cells(tier)
    chk.extra['configuration_cells'] = len(cs)
    if drv is not None:
        model_transform_checks(chk, drv, rng, 6 if tier == 'quick' else 40)
    for _ in range(reps):
        for cls, opt in cs:
            seed = int(rng.integers(0, 2 ** 31))
            tseed = int(rng.integers(0, 2 ** 31))
            run_pairs(chk, drv, cls, opt, seed, ALL_T, tseed)
    if tier != 'quick':
        snm_outside_domain(chk, rng)


def snm_outside_domain(chk, rng):
    """information only (DESIGN section 5): with an SNM modifier that is NOT in the exposure model the shift d does not
    drop out of g-estimation -- a property of the estimator, outside the domain of the property; run and recorded"""
    from zepid.causal.snm import GEstimationSNM
    df, spec = make('point', int(rng.integers(0, 2 ** 31)), ytype='normal')
    out = {}
    for name, d in (('Y', df), ('3Y+10', df.assign(Y=3 * df['Y'] + 10))):
        s = GEstimationSNM(d, exposure='A', outcome='Y')
        s.exposure_model(COVF, print_results=False)          # B omitted
        s.structural_nested_model('A + A:B')
        s.fit()
        out[name] = [float(v) for v in s.psi]
    out['psi(3Y+10)/3'] = [v / 3 for v in out['3Y+10']]
    chk.extra['snm_modifier_not_in_exposure_model(information, not judged)'] = out


def replay(rec):
    import common
    n = 0
    seen = set()
    for f in rec.get('failures', []):
        c = f['case']
        key = (c['class'], repr(sorted(c['options'].items())), c['data_seed'], c['transformation'], c['transform_seed'])
        if key in seen:
            continue
        seen.add(key)
        chk = common.Check('C08', 'quick', rec.get('seed', 0))
        cls, opt, kind = c['class'], c['options'], c['transformation']
        group = GROUP_OF[cls]
        runner = CLASSES[cls][0]
        with common.quiet():
            df, spec = make(group, c['data_seed'], **opt)
            base = runner(df, spec, opt)
            df2, spec2, rel = transform(df, spec, kind, np.random.default_rng(c['transform_seed']))
            if 'plan' in spec and 'perm' in rel:
                spec2['plan'] = spec['plan'][rel['perm']]
            spec2['_kind'] = kind
            try:
                other = runner(df2, spec2, opt)
                compare(chk, cls, opt, kind, base, other, rel, {})
                exc = None
            except Exception as ex:
                exc = '%s: %s' % (type(ex).__name__, ex)
        print('replaying %s %s under %s (data seed %d, n=%d)' % (cls, opt, kind, c['data_seed'], len(df)))
        if exc:
            print('  transformed run raises', exc)
            n += 1
            continue
        for name, (k, v) in sorted(base.items()):
            want = expected(k, v, rel)
            got = other[name][1]
            rt, at = tolerance(cls, opt, name, k, rel)
            okk = allclose(got, want, rt, at)
            if not okk or v.size <= 2:
                print('  %-12s %-8s original %s -> expected %s ; transformed run %s %s' %
                      (name, k, np.round(v.ravel()[:4], 9), np.round(np.asarray(want).ravel()[:4], 9),
                       np.round(got.ravel()[:4], 9), '' if okk else '   <-- MISMATCH'))
        n += len(chk.d_fail) + len(chk.known_hits)
    print('failures reproduced:', n)
    return 1 if n else 0
