"""C08 -- estimates are invariant / equivariant under relabelling of the data.

Every case is a *pair of runs* of one estimator class on (data, transformed data); gate D compares the two runs with
each other through the relation the property states for that transformation, gate K compares each run with the Lean
model on its own input (where a model op exists), gate H measures the equivariance assumed of the external fits
(a reference GLM fitted by the harness on both members of the pair must give the same fitted values).
"""
import math
import zlib

import numpy as np
import pandas as pd
import statsmodels.api as sm
import statsmodels.formula.api as smf

import gen
from common import fx, unfx, enc_list, dec_list, close
from props import c01, c07

REQUIRED = ['perm_invariant', 'perm_invariant_strata', 'perm_invariant_counts', 'frame_perm_invariant',
            'relabel_invariant', 'relabel_invariant_counts',
            'iptw_weight_flip', 'flip_treatment', 'flip_measures', 'flip_variance',
            'outcome_affine', 'outcome_affine_variance', 'tmle_unit_affine_pos', 'tmle_unit_affine_neg',
            'snm_affine', 'snm_flip', 'snm1_affine', 'score_reparam', 'score_reparam_affine']
RULE = ('pairs (data set, transformed data set) for each estimator class of the property: data = 2 categorical '
        'covariates + one continuous covariate X associated with treatment and outcome, binary or normal outcome, '
        'optionally MAR-missing outcomes (combined sample/target data for the generalize classes, wide 2-3 period '
        'survival-type data for IterativeCondGFormula, a NaN-holed column for IPMW, exposure/outcome/time frames with '
        'missing cells for the effect-measure classes); transformations enumerated per data set: row permutation '
        '(fresh index / labels travelling with the rows), index shifted / shuffled / float / string / duplicated / '
        'all-equal / named, affine map of X (a of both signs), relabelled category codes (C(.) formulas; reference '
        'level changes), 1-A (targets, plans and probabilities recoded accordingly), cY+d with c of both signs. '
        'distinct = (data hash, class, options, transformation); non-trivial = the transformation really changes what '
        'the class receives (labels/order/codes/values differ) and the estimate depends on the adjustment '
        '(adjusted != crude)')
ASSUMPTIONS = ['statsmodels GLM / GEE fits are equivariant under reparametrisation of the design (row order, affine '
               'column maps, change of reference level, A -> 1-A, Gaussian Y -> cY+d): measured on every pair by a '
               'reference fit made by the harness on both members (fitted values agree to 1e-7); a pair is discarded '
               'only if that reference pair disagrees',
               'scipy Nelder-Mead (GEstimationSNM solver="search") reaches the root to its tolerance: search-solver '
               'pairs are compared at 2e-3 relative, closed-form pairs at 1e-7',
               'index alignment inside pandas is glue that the Lean model does not contain; it is reached only '
               'through gates K and D']

RT = 1e-7            # two IRLS runs on reparametrised designs (measured agreement is 1e-10 .. 1e-13)
AT = 1e-9
COVF = 'C(L1) + C(L2) + X'
OUTF = 'A + C(L1) + C(L2) + X + A:X'


# ------------------------------------------------------------------------------------------------ data
def add_x(rng, df, acol='A', ycol='Y'):
    y = df[ycol].values.astype(float)
    yz = np.where(np.isnan(y), np.nanmean(y), y)
    a = np.nan_to_num(df[acol].values.astype(float), nan=0.5)
    sd = yz.std() or 1.0
    df['X'] = np.round(0.7 * a + 0.4 * df['L1'].values + 0.5 * (yz - yz.mean()) / sd + rng.normal(0, 1, len(df)), 3)
    return df


def point_data(rng, ytype, missing=None):
    while True:
        df, covs = gen.cat_dataset(rng, outcome=ytype, ncov=2, max_strata=6, missing=missing,
                                   n_extra=int(rng.integers(60, 220)))
        if len(covs) == 2:
            break
    return add_x(rng, df), covs


def gen_data(rng):
    from props import c16
    df, covs = None, None
    while covs is None or len(covs) != 2:
        df, covs = c16.combined(rng, junk=False)
    return add_x(rng, df), covs


def wide_data(rng, K):
    n = int(rng.integers(150, 400))
    d = {}
    alive = np.ones(n, dtype=bool)
    prevA = np.zeros(n)
    L = rng.normal(0, 1, n)
    for t in range(1, K + 1):
        L = np.round(0.6 * L + 0.4 * prevA + rng.normal(0, 1, n), 3)
        A = (rng.uniform(size=n) < 1 / (1 + np.exp(-(0.3 * L + 0.8 * prevA - 0.2)))).astype(float)
        Y = (rng.uniform(size=n) < 1 / (1 + np.exp(-(-1.2 + 0.5 * L - 0.7 * A)))).astype(float)
        cens = rng.uniform(size=n) < 0.04
        Y[~alive] = np.nan
        Y[alive & cens] = np.nan
        d['L%d' % t], d['A%d' % t], d['Y%d' % t] = L.copy(), A, Y
        alive = alive & (Y == 0)
        prevA = A
    return pd.DataFrame(d)


def ipmw_data(rng):
    df, covs = point_data(rng, 'binary')
    n = len(df)
    p1 = 1 / (1 + np.exp(-(1.2 - 0.5 * df['A'] + 0.4 * df['X'])))
    o1 = rng.uniform(size=n) < p1
    o2 = o1 & (rng.uniform(size=n) < 1 / (1 + np.exp(-(1.5 + 0.5 * df['L1'] - 0.3 * df['X']))))
    df['M1'] = np.where(o1, rng.normal(0, 1, n).round(3), np.nan)
    df['M2'] = np.where(o2, rng.integers(0, 2, n).astype(float), np.nan)
    return df, covs


# ------------------------------------------------------------------------------------------------ observables
class Obs(dict):
    """name -> (kind, value).  kinds:
       inv       invariant scalar / list           rows      per-input-row array (NaN pattern included)
       diff      difference measure                ratio     ratio measure
       se        SE of a difference measure        selog     SE of a log ratio
       cidiff    (lower, upper) of a difference    ciratio   (lower, upper) of a ratio
       arms      (value under all-treated, value under none-treated)      mean   a mean of Y"""

    def put(self, name, kind, val):
        self[name] = (kind, np.asarray(val, dtype=float))


def expected(kind, v, rel):
    """what the observable `v` of the original run must become under the relation `rel`"""
    c, d, flip, perm = rel.get('c', 1.0), rel.get('d', 0.0), rel.get('flip', False), rel.get('perm')
    if kind == 'rows':
        return v if perm is None else v[perm]
    if kind == 'inv':
        return v
    if kind == 'rowpair':                       # (per-row value for arm 1, per-row value for arm 0)
        w = v if perm is None else v[:, perm]
        return w[::-1] if flip else w
    if kind == 'mean':
        return c * v + d
    if kind == 'arms':
        w = c * v + d
        return w[::-1] if flip else w
    if kind == 'diff':
        return (-1 if flip else 1) * c * v
    if kind == 'ratio':
        return 1 / v if flip else v
    if kind == 'se':
        return abs(c) * v
    if kind == 'selog':
        return v
    if kind == 'cidiff':
        w = c * v
        if flip:
            w = -w[::-1]
        return np.sort(w) if c < 0 else w
    if kind == 'ciratio':
        return (1 / v)[::-1] if flip else v
    raise KeyError(kind)


def allclose(a, b, rt, at):
    a, b = np.asarray(a, dtype=float).ravel(), np.asarray(b, dtype=float).ravel()
    if a.shape != b.shape:
        return False
    na, nb = np.isnan(a), np.isnan(b)
    if not np.array_equal(na, nb):
        return False
    a, b = a[~na], b[~nb]
    ia, ib = np.isinf(a), np.isinf(b)
    if not np.array_equal(ia, ib) or not np.array_equal(a[ia], b[ib]):
        return False
    a, b = a[~ia], b[~ib]
    return bool(np.all(np.abs(a - b) <= at + rt * np.maximum(np.abs(a), np.abs(b))))


# ------------------------------------------------------------------------------------------------ transformations
INDEX_KINDS = ['shifted', 'shuffled', 'float', 'string', 'dup', 'const', 'named', 'negdesc']
ALL_T = ['perm', 'permkeep'] + INDEX_KINDS + ['affx+', 'affx-', 'relabel', 'flip', 'affy+', 'affy-']


def reindex(df, kind, rng):
    n = len(df)
    out = df.copy()
    if kind == 'shifted':
        out.index = np.arange(n) + int(rng.integers(1, 5000))
    elif kind == 'shuffled':
        out.index = rng.permutation(n)
    elif kind == 'float':
        out.index = np.arange(n) * 1.25 + 0.5
    elif kind == 'string':
        out.index = ['r%d' % i for i in rng.permutation(n)]
    elif kind == 'dup':
        out.index = np.arange(n) // 2
    elif kind == 'const':
        out.index = np.zeros(n, dtype=int)
    elif kind == 'named':
        out.index = pd.Index(rng.permutation(n) + 7, name='pid')
    elif kind == 'negdesc':
        out.index = -np.arange(n)
    else:
        raise KeyError(kind)
    return out


def transform(df, spec, kind, rng):
    """-> (df2, spec2, rel).  spec: dict(a=[treatment columns], y=[outcome columns], cats={col: {code: code}} ...)"""
    spec2 = dict(spec)
    rel = {}
    if kind == 'perm':
        p = rng.permutation(len(df))
        df2 = df.iloc[p].reset_index(drop=True)
        rel['perm'] = p
    elif kind == 'permkeep':
        p = rng.permutation(len(df))
        df2 = df.iloc[p].copy()
        rel['perm'] = p
    elif kind in INDEX_KINDS:
        df2 = reindex(df, kind, rng)
    elif kind in ('affx+', 'affx-'):
        a = float(rng.choice([0.5, 2.0, 10.0, 0.125, 3.0])) * (1 if kind == 'affx+' else -1)
        b = float(rng.choice([-3.0, 0.0, 1.0, 12.5]))
        df2 = df.copy()
        for x in spec['x']:
            df2[x] = a * df[x] + b
        rel['xmap'] = (a, b)
    elif kind == 'relabel':
        df2 = df.copy()
        cats = {}
        for ccol in spec['cat']:
            lv = sorted(df[ccol].dropna().unique().tolist())
            pool = rng.permutation(np.arange(0, 40))[:len(lv)]
            while list(np.argsort(pool)) == list(range(len(lv))):        # must change the order (reference level)
                pool = rng.permutation(np.arange(0, 40))[:len(lv)]
            m = {v: int(w) for v, w in zip(lv, pool)}
            df2[ccol] = df[ccol].map(m).astype(df[ccol].dtype)
            cats[ccol] = m
        spec2['codes'] = {c: {v: cats[c][w] for v, w in spec['codes'][c].items()} for c in spec['cat']}
        rel['cats'] = cats
    elif kind == 'flip':
        df2 = df.copy()
        for a in spec['a']:
            df2[a] = 1 - df[a]
        spec2['flipped'] = not spec.get('flipped', False)
        rel['flip'] = True
    elif kind in ('affy+', 'affy-'):
        c = float(rng.choice([0.5, 2.0, 3.0, 0.25, 100.0])) * (1 if kind == 'affy+' else -1)
        d = float(rng.choice([-7.0, 0.0, 10.0, 2.5]))
        df2 = df.copy()
        for y in spec['y']:
            df2[y] = c * df[y] + d
        rel['c'], rel['d'] = c, d
    else:
        raise KeyError(kind)
    return df2, spec2, rel


def really_changes(df, df2, kind):
    if kind in ('perm', 'permkeep'):
        return not df2.reset_index(drop=True).equals(df.reset_index(drop=True))
    if kind in INDEX_KINDS:
        return not (isinstance(df2.index, pd.RangeIndex) and df2.index.start == 0)
    return not df2.equals(df)


SWAP = {'population': 'population', 'exposed': 'unexposed', 'unexposed': 'exposed'}


def tgt_of(spec, tgt):
    return SWAP[tgt] if spec.get('flipped') else tgt


# ------------------------------------------------------------------------------------------------ runners
def run_iptw(df, spec, opt):
    from zepid.causal.ipw import IPTW
    o = Obs()
    ipt = IPTW(df, treatment='A', outcome='Y', standardize=tgt_of(spec, opt['tgt']))
    ipt.treatment_model(COVF, stabilized=opt['stab'], print_results=False)
    if opt.get('miss'):
        ipt.missing_model(OUTF, stabilized=opt['stab'], print_results=False)
        o.put('ipmw', 'rows', ipt.ipmw)
    ipt.marginal_structural_model('A')
    ipt.fit()
    o.put('iptw', 'rows', ipt.iptw)
    if opt['ytype'] == 'binary':
        t = ipt.risk_difference
        o.put('RD', 'diff', t.loc['A', 'RD'])
        o.put('SE(RD)', 'se', t.loc['A', 'SE(RD)'])
        o.put('CI(RD)', 'cidiff', [t.loc['A', '95%LCL'], t.loc['A', '95%UCL']])
        o.put('arms', 'arms', [t.loc['Intercept', 'RD'] + t.loc['A', 'RD'], t.loc['Intercept', 'RD']])
        t = ipt.risk_ratio
        o.put('RR', 'ratio', t.loc['A', 'RR'])
        o.put('SE(logRR)', 'selog', t.loc['A', 'SE(log(RR))'])
        o.put('CI(RR)', 'ciratio', [t.loc['A', '95%LCL'], t.loc['A', '95%UCL']])
        t = ipt.odds_ratio
        o.put('OR', 'ratio', t.loc['A', 'OR'])
        o.put('SE(logOR)', 'selog', t.loc['A', 'SE(log(OR))'])
        o.put('CI(OR)', 'ciratio', [t.loc['A', '95%LCL'], t.loc['A', '95%UCL']])
    else:
        t = ipt.average_treatment_effect
        o.put('ATE', 'diff', t.loc['A', 'ATE'])
        o.put('SE(ATE)', 'se', t.loc['A', 'SE(ATE)'])
        o.put('CI(ATE)', 'cidiff', [t.loc['A', '95%LCL'], t.loc['A', '95%UCL']])
        o.put('arms', 'arms', [t.loc['Intercept', 'ATE'] + t.loc['A', 'ATE'], t.loc['Intercept', 'ATE']])
    o.est = ipt
    return o


def k_iptw(drv, o, df, spec, opt):
    ipt = o.est
    d = ipt.df['__denom__'].values
    n = np.broadcast_to(np.asarray(ipt.df['__numer__'].values, dtype=float), d.shape)
    mw = np.ones(len(d)) if ipt.ipmw is None else np.where(np.isnan(ipt.ipmw), 0.0, ipt.ipmw)
    rep, _ = drv.ask('iptw', c='f', stab=int(opt['stab']), tgt=tgt_of(spec, opt['tgt']), n=enc_list(n, fx),
                     d=enc_list(d, fx), mw=enc_list(mw, fx), **rows_kw(ipt.df))
    ok = rep['status'] == 'ok'
    if ok:
        ok = allclose(dec_list(rep['iptw'], unfx), ipt.iptw, 1e-12, 0)
        m1, m0 = unfx(rep['m1']), unfx(rep['m0'])
        ok = ok and allclose([m1, m0], o['arms'][1], 1e-7, 1e-9)
    return ok, rep


def rows_kw(d, acol='A', ycol='Y', obs=None):
    """driver row arguments for an estimator's own (re-indexed) frame; strata are irrelevant to these ops"""
    y = d[ycol].tolist()
    kw = dict(s=enc_list([0] * len(d), str), a=enc_list(d[acol].fillna(0).tolist(), lambda v: str(int(v))),
              y=','.join('_' if (isinstance(v, float) and math.isnan(v)) else fx(v) for v in y))
    if obs is not None:
        kw['obs'] = enc_list(obs, lambda v: str(int(v)))
        kw['y'] = ','.join(fx(0.0 if (isinstance(v, float) and math.isnan(v)) else v) for v in y)
    return kw


def run_stoch(df, spec, opt):
    from zepid.causal.ipw import StochasticIPTW
    o = Obs()
    s = StochasticIPTW(df, treatment='A', outcome='Y')
    s.treatment_model(COVF, print_results=False)
    fl = spec.get('flipped')
    p = opt['p']
    s.fit(p=(1 - p) if fl else p)
    o.put('marginal', 'mean', s.marginal_outcome)
    code = spec['codes']['L1'][0]
    pc = [0.2, 0.65]
    s.fit(p=[1 - q for q in pc] if fl else pc, conditional=["df['L1']==%d" % code, "df['L1']!=%d" % code])
    o.put('marginal_cond', 'mean', s.marginal_outcome)
    return o


def run_gf(df, spec, opt):
    from zepid.causal.gformula import TimeFixedGFormula
    o = Obs()
    g = TimeFixedGFormula(df, exposure='A', outcome='Y', outcome_type=opt['ytype'],
                          standardize=tgt_of(spec, opt['tgt']))
    g.outcome_model(OUTF, print_results=False)
    g.fit('all')
    r1, q1 = float(g.marginal_outcome), np.asarray(g.predicted_df['Y'], dtype=float)
    g.fit('none')
    r0, q0 = float(g.marginal_outcome), np.asarray(g.predicted_df['Y'], dtype=float)
    o.put('arms', 'arms', [r1, r0])
    o.put('diff', 'diff', r1 - r0)
    o.est, o.q1, o.q0 = g, q1, q0
    return o


def k_gf(drv, o, df, spec, opt):
    g = o.est
    rep, _ = drv.ask('gform', c='f', tgt=tgt_of(spec, opt['tgt']), q1=enc_list(o.q1, fx), q0=enc_list(o.q0, fx),
                     **rows_kw(g.gf))
    ok = rep['status'] == 'ok' and allclose([unfx(rep['g1']), unfx(rep['g0'])], o['arms'][1], 1e-10, 1e-12)
    return ok, rep


def dr_common(o, e, ytype, tmle):
    if ytype == 'binary':
        o.put('RD', 'diff', e.risk_difference)
        o.put('SE(RD)', 'se', e.risk_difference_se)
        o.put('CI(RD)', 'cidiff', e.risk_difference_ci)
        o.put('RR', 'ratio', e.risk_ratio)
        o.put('SE(logRR)', 'selog', e.risk_ratio_se)
        o.put('CI(RR)', 'ciratio', e.risk_ratio_ci)
        if tmle:
            o.put('OR', 'ratio', e.odds_ratio)
            o.put('SE(logOR)', 'selog', e.odds_ratio_se)
            o.put('CI(OR)', 'ciratio', e.odds_ratio_ci)
    else:
        o.put('ATE', 'diff', e.average_treatment_effect)
        o.put('SE(ATE)', 'se', e.average_treatment_effect_se)
        o.put('CI(ATE)', 'cidiff', e.average_treatment_effect_ci)


def run_aiptw(df, spec, opt):
    from zepid.causal.doublyrobust import AIPTW
    o = Obs()
    a = AIPTW(df, exposure='A', outcome='Y')
    a.exposure_model(COVF, print_results=False)
    if opt.get('miss'):
        a.missing_model(OUTF, print_results=False)
    a.outcome_model(OUTF, print_results=False)
    a.fit()
    dr_common(o, a, opt['ytype'], False)
    o.est = a
    return o


def k_aiptw(drv, o, df, spec, opt):
    a = o.est
    if opt.get('miss'):
        return None, None
    rep, _ = drv.ask('aipw', c='f', q1=enc_list(a.df['_pY1_'], fx), q0=enc_list(a.df['_pY0_'], fx),
                     g1=enc_list(a.df['_g1_'], fx), g0=enc_list(a.df['_g0_'], fx), **rows_kw(a.df))
    ok = rep['status'] == 'ok'
    if ok:
        y1, y0 = unfx(rep['y1']), unfx(rep['y0'])
        if opt['ytype'] == 'binary':
            ok = allclose([y1 - y0, y1 / y0], [o['RD'][1], o['RR'][1]], 1e-9, 1e-12)
        else:
            ok = allclose([y1 - y0], [o['ATE'][1]], 1e-9, 1e-12)
    return ok, rep


def run_tmle(df, spec, opt):
    from zepid.causal.doublyrobust import TMLE
    o = Obs()
    kw = {} if opt.get('cb') is None else {'continuous_bound': opt['cb']}
    t = TMLE(df, exposure='A', outcome='Y', **kw)
    t.exposure_model(COVF, print_results=False)
    if opt.get('miss'):
        t.missing_model(OUTF, print_results=False)
    t.outcome_model(OUTF, print_results=False)
    t.fit()
    dr_common(o, t, opt['ytype'], True)
    o.put('gW', 'rowpair', [np.asarray(t.g1W, dtype=float), np.asarray(t.g0W, dtype=float)])
    return o


def run_snm(df, spec, opt):
    from zepid.causal.snm import GEstimationSNM
    o = Obs()
    s = GEstimationSNM(df, exposure='A', outcome='Y')
    # domain of the shift / recoding clauses: every SNM modifier (and their products) is in the exposure model
    s.exposure_model(COVF + ' + B', print_results=False)
    s.structural_nested_model(opt['snm'])
    if opt.get('miss'):
        s.missing_model(OUTF, print_results=False)
    if opt.get('solver') == 'search':
        s.fit(solver='search', tolerance=1e-10, maxiter=4000)
    else:
        s.fit()
    o.put('psi', 'diff', s.psi)
    o.labels = list(s.psi_labels)
    o.est = s
    return o


def sample_rows(df, arr, mask):
    out = np.full(len(df), np.nan)
    out[np.asarray(mask)] = np.asarray(arr, dtype=float)
    return out


def run_ipsw(df, spec, opt):
    from zepid.causal.generalize import IPSW
    o = Obs()
    e = IPSW(df, exposure='A', outcome='Y', selection='S', generalize=opt['gen'])
    e.sampling_model(COVF, stabilized=opt['stab'], print_results=False)
    e.treatment_model(COVF, stabilized=opt['stab'], print_results=False)
    e.fit()
    o.put('RD', 'diff', e.risk_difference)
    o.put('RR', 'ratio', e.risk_ratio)
    o.put('ipsw', 'rows', sample_rows(df, e.ipsw, df['S'] == 1))
    o.put('iptw', 'rows', sample_rows(df, e.iptw, df['S'] == 1))
    o.est = e
    return o


def k_ipsw(drv, o, df, spec, opt):
    e = o.est
    smp = e.sample
    rep, _ = drv.ask('ipsw', c='f', gen=int(opt['gen']), stab=int(opt['stab']),
                     ns=enc_list(np.broadcast_to(np.asarray(smp['__numer__'], dtype=float), (len(smp),)), fx),
                     ds=enc_list(smp['__denom__'], fx), tw=enc_list(e.iptw, fx),
                     **rows_kw(smp, obs=[1] * len(smp)))
    ok = rep['status'] == 'ok'
    if ok:
        r1, r0 = unfx(rep['r1']), unfx(rep['r0'])
        ok = allclose(dec_list(rep['w'], unfx), smp['__ipsw__'], 1e-12, 0) and \
            allclose([r1 - r0, r1 / r0], [e.risk_difference, e.risk_ratio], 1e-9, 1e-12)
    return ok, {k: v for k, v in rep.items() if k != 'w'}


def run_gtrans(df, spec, opt):
    from zepid.causal.generalize import GTransportFormula
    o = Obs()
    e = GTransportFormula(df, exposure='A', outcome='Y', selection='S', generalize=opt['gen'])
    e.outcome_model(OUTF, print_results=False)
    e.fit()
    o.put('RD', 'diff', e.risk_difference)
    o.put('RR', 'ratio', e.risk_ratio)
    o.est = e
    return o


def k_gtrans(drv, o, df, spec, opt):
    e = o.est
    d1, d0 = df.copy(), df.copy()
    d1['A'], d0['A'] = 1, 0
    rep, _ = drv.ask('gtrans', c='f', gen=int(opt['gen']), q1=enc_list(e._outcome_model.predict(d1), fx),
                     q0=enc_list(e._outcome_model.predict(d0), fx), **rows_kw(df, obs=df['S'].astype(int).tolist()))
    ok = rep['status'] == 'ok'
    if ok:
        r1, r0 = unfx(rep['r1']), unfx(rep['r0'])
        ok = allclose([r1 - r0, r1 / r0], [e.risk_difference, e.risk_ratio], 1e-9, 1e-12)
    return ok, rep


def run_aipsw(df, spec, opt):
    from zepid.causal.generalize import AIPSW
    o = Obs()
    e = AIPSW(df, exposure='A', outcome='Y', selection='S', generalize=opt['gen'])
    e.sampling_model(COVF, stabilized=opt['stab'], print_results=False)
    if opt.get('treat', True):
        e.treatment_model(COVF, stabilized=opt['stab'], print_results=False)
    e.outcome_model(OUTF, print_results=False)
    e.fit()
    o.put('RD', 'diff', e.risk_difference)
    o.put('RR', 'ratio', e.risk_ratio)
    o.put('ipsw', 'rows', e.ipsw)
    o.est = e
    return o


def k_aipsw(drv, o, df, spec, opt):
    e = o.est
    tw = np.ones(len(df)) if e.iptw is None else np.where(np.isnan(e.iptw), 0.0, e.iptw)
    rep, _ = drv.ask('aipsw', c='f', gen=int(opt['gen']), stab=int(opt['stab']), ns=enc_list(e.df['__numer__'], fx),
                     ds=enc_list(e.df['__denom__'], fx), tw=enc_list(tw, fx), q1=enc_list(e._YA1, fx),
                     q0=enc_list(e._YA0, fx), **rows_kw(e.df, obs=e.df['S'].astype(int).tolist()))
    ok = rep['status'] == 'ok'
    if ok:
        r1, r0 = unfx(rep['r1']), unfx(rep['r0'])
        ok = allclose([r1 - r0, r1 / r0], [e.risk_difference, e.risk_ratio], 1e-9, 1e-12)
    return ok, rep


def run_icgf(df, spec, opt):
    from zepid.causal.gformula import IterativeCondGFormula
    o = Obs()
    K = opt['K']
    exps = ['A%d' % t for t in range(1, K + 1)]
    outs = ['Y%d' % t for t in range(1, K + 1)]
    models = ['A1 + L1'] + ['A%d + A%d + L%d' % (t, t - 1, t) for t in range(2, K + 1)]
    g = IterativeCondGFormula(df, exposures=exps, outcomes=outs)
    g.outcome_model(models=models, print_results=False)
    fl = spec.get('flipped')
    for name, plan in (('all', [1] * K), ('none', [0] * K), ('alt', [1, 0, 1][:K])):
        g.fit(treatments=[1 - v for v in plan] if fl else plan)
        o.put('plan_' + name, 'inv', g.marginal_outcome)
    # per-individual plan: treat at t when L_t > its median (rows of the plan travel with the rows of the data)
    plan = spec['plan']
    g.fit(treatments=(1 - plan) if fl else plan)
    o.put('plan_rows', 'inv', g.marginal_outcome)
    return o


def run_ipmw(df, spec, opt):
    from zepid.causal.ipw import IPMW
    o = Obs()
    if opt['mono']:
        m = IPMW(df, missing_variable=['M1', 'M2'], stabilized=opt['stab'], monotone=True)
        if opt['stab']:
            m.regression_models(model_denominator=['A + X', 'C(L1) + X'], model_numerator=['1', 'A'],
                                print_results=False)
        else:
            m.regression_models(model_denominator=['A + X', 'C(L1) + X'], print_results=False)
    else:
        m = IPMW(df, missing_variable='M1', stabilized=opt['stab'])
        if opt['stab']:
            m.regression_models(model_denominator='A + C(L1) + X', model_numerator='A', print_results=False)
        else:
            m.regression_models(model_denominator='A + C(L1) + X', print_results=False)
    m.fit()
    o.put('Weight', 'rows', m.Weight)
    o.put('index_kept', 'inv', float(m.Weight.index.equals(df.index)))
    return o


def run_measure(df, spec, opt):
    import zepid
    cls = opt['cls']
    name, col, sdcol, lcl, ucl, fn = c07.CLASSES[cls]
    ref = spec['codes']['exp'][opt['ref']]
    obj = getattr(zepid, name)(reference=ref, alpha=opt['alpha'])
    if cls in ('IRR', 'IRD'):
        obj.fit(df, exposure='exp', outcome='dis', time='t')
    else:
        obj.fit(df, exposure='exp', outcome='dis')
    o = Obs()
    res = obj.results
    inv = {w: v for v, w in spec['codes']['exp'].items()}          # current code -> original code
    kd, ks, kc = (('diff', 'se', 'cidiff') if cls in ('RD', 'IRD') else
                  ('inv', 'inv', 'inv') if cls == 'NNT' else ('ratio', 'selog', 'ciratio'))
    for lab in res.index:
        if str(lab).startswith('Ref:'):
            continue
        orig = inv[int(float(lab))]
        row = res.loc[lab]
        o.put('%s[%d]' % (col, orig), kd, row[col])
        o.put('%s[%d]' % (sdcol, orig), ks, row[sdcol])
        o.put('CI[%d]' % orig, kc, [row[lcl], row[ucl]])
    o.put('missing', 'inv', [obj._missing_e, obj._missing_d, obj._missing_ed])
    o.est = obj
    return o


def k_measure(drv, o, df, spec, opt):
    from scipy.stats import norm
    cls, alpha = opt['cls'], opt['alpha']
    name, col, sdcol, lcl, ucl, fn = c07.CLASSES[cls]
    ref = spec['codes']['exp'][opt['ref']]
    kw = dict(cls=cls, ref=int(ref), alpha=fx(alpha), px=fx(1 - alpha / 2), pz=fx(norm.ppf(1 - alpha / 2)),
              e=c07.enc_opt(df['exp'].tolist(), lambda v: str(int(v))),
              d=c07.enc_opt(df['dis'].tolist(), lambda v: str(int(v))))
    if cls in ('IRR', 'IRD'):
        kw['t'] = c07.enc_opt(df['t'].tolist(), fx)
    rep, _ = drv.ask('frame', **kw)
    ok = rep['status'] == 'ok'
    if ok:
        res = o.est.results
        lv = dec_list(rep['levels'], int)
        ok = [str(float(l)) for l in lv] == sorted([i for i in res.index if not i.startswith('Ref:')], key=float)
        for key, c in (('point', col), ('lower', lcl), ('upper', ucl), ('se', sdcol)):
            for l, v in zip(lv, dec_list(rep[key], unfx)):
                ok = ok and close(res.loc[str(float(l)), c], v, rtol=1e-11)
    return ok, rep


# class -> (runner, K function or None, transformations that apply, data kind)
POINT_T = ['perm', 'permkeep'] + INDEX_KINDS + ['affx+', 'affx-', 'relabel', 'flip']
CLASSES = {
    'IPTW': (run_iptw, k_iptw, POINT_T + ['affy+', 'affy-']),
    'StochasticIPTW': (run_stoch, None, POINT_T + ['affy+', 'affy-']),
    'TimeFixedGFormula': (run_gf, k_gf, POINT_T + ['affy+', 'affy-']),
    'AIPTW': (run_aiptw, k_aiptw, POINT_T + ['affy+', 'affy-']),
    'TMLE': (run_tmle, None, POINT_T + ['affy+', 'affy-']),
    'GEstimationSNM': (run_snm, None, POINT_T + ['affy+', 'affy-']),
    'IPSW': (run_ipsw, k_ipsw, POINT_T),
    'GTransportFormula': (run_gtrans, k_gtrans, POINT_T),
    'AIPSW': (run_aipsw, k_aipsw, POINT_T),
    'IterativeCondGFormula': (run_icgf, None, ['perm', 'permkeep'] + INDEX_KINDS + ['affx+', 'affx-', 'flip']),
    'IPMW': (run_ipmw, None, ['perm', 'permkeep'] + INDEX_KINDS + ['affx+', 'affx-', 'relabel']),
    'measure': (run_measure, k_measure, ['perm', 'permkeep'] + INDEX_KINDS + ['relabel', 'flip']),
}


# ------------------------------------------------------------------------------------------------ data sets per group
def frame_data(rng, nlev):
    n = int(rng.integers(60, 200))
    e = rng.integers(0, nlev, size=n).astype(float)
    base = rng.uniform(0.25, 0.75, size=nlev)
    d = (rng.uniform(size=n) < base[e.astype(int)]).astype(float)
    t = np.round(rng.uniform(0.5, 10, size=n), 2)
    pm = float(rng.choice([0.0, 0.1, 0.25]))
    for arr in (e, d, t):
        arr[rng.uniform(size=n) < pm * rng.uniform()] = np.nan
    return pd.DataFrame({'exp': e, 'dis': d, 't': t})


def make(group, seed, **kw):
    """deterministic (data, spec) of a group from a seed"""
    rng = np.random.default_rng(seed)
    if group == 'point':
        df, covs = point_data(rng, kw['ytype'], kw.get('missing'))
        df['B'] = (rng.uniform(size=len(df)) < 1 / (1 + np.exp(-0.8 * df['X']))).astype(int)
        spec = {'a': ['A'], 'y': ['Y'], 'x': ['X'], 'cat': covs}
    elif group == 'gen':
        df, covs = gen_data(rng)
        spec = {'a': ['A'], 'y': ['Y'], 'x': ['X'], 'cat': covs}
    elif group == 'wide':
        K = kw['K']
        df = wide_data(rng, K)
        spec = {'a': ['A%d' % t for t in range(1, K + 1)], 'y': [], 'x': ['L%d' % t for t in range(1, K + 1)],
                'cat': [], 'plan': np.column_stack([(df['L%d' % t].values > df['L%d' % t].median()).astype(int)
                                                    for t in range(1, K + 1)])}
    elif group == 'ipmw':
        df, covs = ipmw_data(rng)
        spec = {'a': ['A'], 'y': ['Y'], 'x': ['X'], 'cat': covs}
    elif group == 'frame':
        df = frame_data(rng, kw['nlev'])
        spec = {'a': ['exp'], 'y': [], 'x': [], 'cat': ['exp']}
    else:
        raise KeyError(group)
    spec['codes'] = {c: {int(v): int(v) for v in sorted(df[c].dropna().unique())} for c in spec['cat']}
    spec['flipped'] = False
    return df, spec


GROUP_OF = {'IPTW': 'point', 'StochasticIPTW': 'point', 'TimeFixedGFormula': 'point', 'AIPTW': 'point',
            'TMLE': 'point', 'GEstimationSNM': 'point', 'IPSW': 'gen', 'GTransportFormula': 'gen', 'AIPSW': 'gen',
            'IterativeCondGFormula': 'wide', 'IPMW': 'ipmw', 'measure': 'frame'}


def applies(cls, opt, kind):
    if kind not in CLASSES[cls][2]:
        return False
    if kind in ('affy+', 'affy-'):
        return opt.get('ytype') == 'normal'
    if cls == 'measure' and kind == 'flip':
        return opt['nlev'] == 2
    return True


# ------------------------------------------------------------------------------------------------ gate H
def ref_equivariant(df, df2, spec, rel, group, opt):
    """reference fits made by the harness on both members of the pair: same fitted values (the assumption about
    statsmodels the pair comparison rests on)"""
    if group in ('frame',):
        return True
    perm = rel.get('perm')
    f = sm.families.family.Binomial()
    if group == 'wide':
        form = 'A1 ~ L1'
    elif group == 'gen':
        form = 'S ~ ' + COVF
    else:
        form = 'A ~ ' + COVF
    p1 = np.asarray(smf.glm(form, df, family=f).fit().predict(df), dtype=float)
    p2 = np.asarray(smf.glm(form, df2, family=f).fit().predict(df2), dtype=float)
    want = p1 if perm is None else p1[perm]
    if rel.get('flip') and group != 'gen':
        want = 1 - want
    ok = allclose(p2, want, 1e-7, 1e-9)
    if 'c' in rel:
        q1 = np.asarray(smf.glm('Y ~ ' + OUTF, df).fit().predict(df), dtype=float)
        q2 = np.asarray(smf.glm('Y ~ ' + OUTF, df2).fit().predict(df2), dtype=float)
        ok = ok and allclose(q2, rel['c'] * q1 + rel['d'], 1e-7, 1e-9 * max(1.0, abs(rel['c'])))
    return ok


# ------------------------------------------------------------------------------------------------ engine
def tolerance(cls, opt, name, kind, rel):
    rt, at = RT, AT
    if cls == 'GEstimationSNM' and opt.get('solver') == 'search':
        rt, at = 2e-3, 2e-4
    at = at * max(1.0, abs(rel.get('c', 1.0)))
    return rt, at


def signature_of(cls, opt, kind, name):
    return {'class': cls, 'transformation': 'index' if kind in INDEX_KINDS else kind.rstrip('+-'), 'attribute': name,
            'missing': bool(opt.get('miss'))}


def compare(chk, cls, opt, kind, base, other, rel, case):
    """gate D on one pair"""
    bad = []
    for name, (k, v) in base.items():
        if name not in other:
            bad.append((name, 'absent'))
            continue
        want = expected(k, v, rel)
        rt, at = tolerance(cls, opt, name, k, rel)
        got = other[name][1]
        if not allclose(got, want, rt, at):
            bad.append((name, {'kind': k, 'original': np.round(v.ravel()[:6], 12).tolist(),
                               'expected': np.round(np.asarray(want).ravel()[:6], 12).tolist(),
                               'transformed_run': np.round(got.ravel()[:6], 12).tolist()}))
    names = sorted(base)
    groups = {}
    for name, info in bad:
        groups.setdefault(name.split('[')[0], []).append((name, info))
    for name in sorted(set(n.split('[')[0] for n in names)):
        fails = groups.get(name, [])
        chk.d(not fails, '%s.%s under %s: %s' % (cls, name, kind, RELTEXT[kind if kind not in INDEX_KINDS else 'index']),
              dict(case, mismatch=dict(fails)) if fails else case, signature=signature_of(cls, opt, kind, name))


RELTEXT = {'perm': 'same results, per-row outputs permuted with the rows', 'permkeep': 'same results, per-row '
           'outputs permuted with the rows', 'index': 'same results as with the default index',
           'affx': 'same results', 'relabel': 'same results', 'flip': 'differences negate, ratios invert, arm means '
           'swap, SEs equal, limits mirrored', 'affy': 'means -> c*m+d, differences and limits scale by c, SEs by |c|'}
for _k in ('affx+', 'affx-'):
    RELTEXT[_k] = RELTEXT['affx']
for _k in ('affy+', 'affy-'):
    RELTEXT[_k] = RELTEXT['affy']


def run_pairs(chk, drv, cls, opt, seed, kinds, tseed):
    group = GROUP_OF[cls]
    runner, kfun, _ = CLASSES[cls]
    df, spec = make(group, seed, **opt)
    rec = {'class': cls, 'options': {k: v for k, v in opt.items()}, 'data_seed': seed, 'n': int(len(df))}
    try:
        base = runner(df, spec, opt)
    except Exception as ex:  # the untransformed reference run must work; otherwise the data set is unusable
        chk.discard('original run failed: %s %s' % (cls, type(ex).__name__))
        return
    if drv is not None and kfun is not None:
        ok, rep = kfun(drv, base, df, spec, opt)
        if ok is not None:
            chk.k(ok, '%s estimates = Lean model on the run\'s own fitted values (original data)' % cls,
                  dict(rec, model=rep))
    dsid = zlib.crc32(df.to_csv().encode())
    for kind in kinds:
        if not applies(cls, opt, kind):
            continue
        ts = int(tseed + zlib.crc32(kind.encode())) % (2 ** 31)
        df2, spec2, rel = transform(df, spec, kind, np.random.default_rng(ts))
        if 'plan' in spec and 'perm' in rel:
            spec2['plan'] = spec['plan'][rel['perm']]
        case = dict(rec, transformation=kind, transform_seed=ts,
                    relation={k: (v if not isinstance(v, np.ndarray) else 'permutation') for k, v in rel.items()})
        nontriv = really_changes(df, df2, kind)
        chk.case(case, (dsid, cls, repr(sorted(opt.items())), kind) if nontriv else None,
                 sample=case if chk.evals % 97 == 0 else None)
        chk.count('%s/%s' % (cls, kind))
        chk.h_checked += 1
        try:
            href = ref_equivariant(df, df2, spec, rel, group, opt)
        except Exception as ex:
            href = False
        if not href:
            chk.discard('reference GLM pair not equivariant (%s)' % kind)
            continue
        try:
            other = runner(df2, spec2, opt)
        except Exception as ex:
            chk.d(False, '%s runs on the %s data (it ran on the original)' % (cls, kind),
                  dict(case, exception='%s: %s' % (type(ex).__name__, str(ex)[:300])),
                  signature=signature_of(cls, opt, kind, 'raises'))
            continue
        compare(chk, cls, opt, kind, base, other, rel, case)
        if drv is not None and kfun is not None:
            ok, rep = kfun(drv, other, df2, spec2, opt)
            if ok is not None:
                chk.k(ok, '%s estimates = Lean model on the run\'s own fitted values (%s data)' % (cls, kind),
                      dict(case, model=rep))


def cells(tier):
    """the configuration cells (class, options); enumerated exhaustively"""
    out = []
    for yt in ('binary', 'normal'):
        for stab in (True, False):
            for tgt in ('population', 'exposed', 'unexposed'):
                out.append(('IPTW', dict(ytype=yt, stab=stab, tgt=tgt)))
        out.append(('IPTW', dict(ytype=yt, stab=True, tgt='population', miss=True, missing='mar')))
        out.append(('StochasticIPTW', dict(ytype=yt, p=0.35)))
        for tgt in ('population', 'exposed', 'unexposed'):
            out.append(('TimeFixedGFormula', dict(ytype=yt, tgt=tgt)))
        out.append(('TimeFixedGFormula', dict(ytype=yt, tgt='population', miss=True, missing='mar')))
        out.append(('AIPTW', dict(ytype=yt)))
        out.append(('AIPTW', dict(ytype=yt, miss=True, missing='mar')))
        out.append(('TMLE', dict(ytype=yt)))
        out.append(('TMLE', dict(ytype=yt, miss=True, missing='mar')))
    out.append(('TMLE', dict(ytype='normal', cb=0.0)))
    out.append(('TMLE', dict(ytype='normal', cb=0.05)))
    for snm in ('A', 'A + A:B'):
        out.append(('GEstimationSNM', dict(ytype='normal', snm=snm)))
    out.append(('GEstimationSNM', dict(ytype='binary', snm='A')))
    out.append(('GEstimationSNM', dict(ytype='normal', snm='A', miss=True, missing='mar')))
    if tier != 'quick':
        out.append(('GEstimationSNM', dict(ytype='normal', snm='A', solver='search')))
    for g in (True, False):
        for stab in (True, False):
            out.append(('IPSW', dict(gen=g, stab=stab)))
            out.append(('AIPSW', dict(gen=g, stab=stab)))
        out.append(('AIPSW', dict(gen=g, stab=True, treat=False)))
        out.append(('GTransportFormula', dict(gen=g)))
    for K in (2, 3):
        out.append(('IterativeCondGFormula', dict(K=K)))
    for mono in (False, True):
        for stab in (True, False):
            out.append(('IPMW', dict(mono=mono, stab=stab)))
    for cls in ('RR', 'RD', 'NNT', 'OR', 'IRR', 'IRD'):
        for nlev in (2, 3):
            out.append(('measure', dict(cls=cls, nlev=nlev, ref=0, alpha=0.05)))
        out.append(('measure', dict(cls=cls, nlev=4, ref=2, alpha=0.2)))
    return out


def run(chk, drv, rng, tier):
    reps = 1 if tier == 'quick' else 6
    cs = cells(tier)
    chk.extra['configuration_cells'] = len(cs)
    for _ in range(reps):
        for cls, opt in cs:
            seed = int(rng.integers(0, 2 ** 31))
            tseed = int(rng.integers(0, 2 ** 31))
            if tier == 'quick':
                # every transformation family for every cell; the eight index kinds are rotated over the cells
                idx = [INDEX_KINDS[(seed + j) % len(INDEX_KINDS)] for j in range(3)]
                kinds = ['perm', 'permkeep'] + sorted(set(idx)) + ['affx+', 'affx-', 'relabel', 'flip', 'affy+', 'affy-']
            else:
                kinds = ALL_T
            run_pairs(chk, drv, cls, opt, seed, kinds, tseed)


def replay(rec):
    import common
    n = 0
    seen = set()
    for f in rec.get('failures', []):
        c = f['case']
        key = (c['class'], repr(sorted(c['options'].items())), c['data_seed'], c['transformation'], c['transform_seed'])
        if key in seen:
            continue
        seen.add(key)
        chk = common.Check('C08', 'quick', rec.get('seed', 0))
        cls, opt, kind = c['class'], c['options'], c['transformation']
        group = GROUP_OF[cls]
        runner = CLASSES[cls][0]
        with common.quiet():
            df, spec = make(group, c['data_seed'], **opt)
            base = runner(df, spec, opt)
            df2, spec2, rel = transform(df, spec, kind, np.random.default_rng(c['transform_seed']))
            if 'plan' in spec and 'perm' in rel:
                spec2['plan'] = spec['plan'][rel['perm']]
            try:
                other = runner(df2, spec2, opt)
                compare(chk, cls, opt, kind, base, other, rel, {})
                exc = None
            except Exception as ex:
                exc = '%s: %s' % (type(ex).__name__, ex)
        print('replaying %s %s under %s (data seed %d, n=%d)' % (cls, opt, kind, c['data_seed'], len(df)))
        if exc:
            print('  transformed run raises', exc)
            n += 1
            continue
        for name, (k, v) in sorted(base.items()):
            want = expected(k, v, rel)
            got = other[name][1]
            rt, at = tolerance(cls, opt, name, k, rel)
            okk = allclose(got, want, rt, at)
            if not okk or v.size <= 2:
                print('  %-12s %-8s original %s -> expected %s ; transformed run %s %s' %
                      (name, k, np.round(v.ravel()[:4], 9), np.round(np.asarray(want).ravel()[:4], 9),
                       np.round(got.ravel()[:4], 9), '' if okk else '   <-- MISMATCH'))
        n += len(chk.d_fail) + len(chk.known_hits)
    print('failures reproduced:', n)
    return 1 if n else 0
