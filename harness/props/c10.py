"""C10 -- incomplete rows are handled exactly as documented (check_input_data and every class built on it; the
effect-measure classes are covered by C07 and re-checked lightly here)."""
import re
from fractions import Fraction

import numpy as np
import pandas as pd
import statsmodels.api as sm

import gen
from common import rq, enc_list, close
from props import c09

REQUIRED = ['drop_idempotent', 'est_eq_after_deletion', 'incomplete_rows_irrelevant', 'drop_all_eq_complete_case',
            'miss_flag_spec', 'outcome_fit_on_observed', 'std_missing_form', 'iptw_missing_saturated',
            'gformula_predict_missing', 'tmle_plugin_missing_partial', 'tmle_missing_saturated', 'measures_ignore_and_count',
            # Props/C10_Gen.lean: check_input_data and its call sites as regenerated from /repo
            'check_input_data_spec', 'check_input_data_generated', 'check_input_data_raises_iff', 'sites_as_documented',
            'drop_all_classes_complete_case', 'keep_classes_format', 'est_eq_after_deletion_generated',
            'miss_flag_spec_generated', 'check_input_data_incomplete_rows_irrelevant']
RULE = ('random categorical data sets (1-3 covariates, <= 8 strata, positivity by construction among the complete '
        'rows; outcome binary / normal / count) with outcome missingness none / MCAR / depending on A and L, to which '
        'incomplete rows are added (none / MCAR / selected depending on A and L): copies of rows with the exposure, a '
        'covariate, both, and optionally also the outcome blanked; rows shuffled; the frame carries a frequency-weight '
        'column and one of five row-label shapes (RangeIndex, shifted, shuffled, string ids, filtered-without-reset).  '
        'Every class built on check_input_data is run on the data, on the data with the exposure/covariate-incomplete '
        'rows deleted (labels kept or reset) and, for the drop-everything classes, on the complete cases; the formatted '
        'frame of a bare instance is compared with the documented row filter / observed-outcome indicator.  Cells: IPTW '
        '{missing ignored, missing_model} x standardize (with / without weights), StochasticIPTW, TimeFixedGFormula '
        "predict_missing x standardize x {all, none, custom} without and with weights (the full grid under weights and "
        "predict_missing=False; every predict_missing=False cell also through fit_stochastic with the equivalent "
        "deterministic plan p = 1 / 0 / conditional [1, 0]), SurvivalGFormula, AIPTW, TMLE, StochasticTMLE, GEstimationSNM, the four cross-fit "
        'estimators (GLM learner); TMLE / AIPTW / StochasticTMLE also with user-supplied learners (custom_model=: an '
        'exact stratum-mean learner, sklearn-classifier style with predict_proba, or predict only) for the treatment, '
        'missingness and outcome models, in two doubly-robust layouts (outcome model coarsened, or treatment + '
        'missingness models coarsened) so that each nuisance path decides the answer in some cell.  '
        'distinct = (data seed, class, options); non-trivial = the data set contains rows missing exposure or '
        'covariates, or missing outcomes whose strata distribution changes the closed form (all-retained-rows '
        'standardization differs from the complete-case one).  Translator stream: check_input_data itself called with all '
        'eight flag combinations on small frames (1-13 rows, numeric exposure with an occasional value other than 0/1, binary '
        'or continuous outcome, NaN rate 0 / 0.15 / 0.4 in every column, four row-label shapes) against the code '
        'regenerated from it (Gen/InputData.lean).  Round 4: every data set draws a naming of its columns (canonical; '
        'covariates / exposure / weights named by a piece of the outcome\'s or the exposure\'s name; names containing the '
        'outcome\'s or exposure\'s short name) under which the frame reaches every constructor and the runners of TMLE, '
        'AIPTW with separate nuisance models, StochasticTMLE and the cross-fit classes; with a binary outcome the '
        'incomplete rows of 60% of the data sets hold other outcome values (2, 3, 0.5, -1, 9); the direct calls of '
        'check_input_data draw the same namings and 0/1 outcomes with one or two other values, and are judged directly '
        '(documented row filter; same answer after the caller deleted the rows it drops)')
ASSUMPTIONS = ['statsmodels GLM/GEE are deterministic functions of the rows they are given (same rows in the same order '
               '-> bit-identical fits); measured: results on the data and on the deleted data agree to 1e-12',
               'statsmodels GLM solves the score equations of saturated models (reference fit per data set: gate H)',
               'patsy drops rows with a NaN in any model variable (this is how TimeFixedGFormula restricts its outcome '
               'model to observed outcomes); observed by wrapping smf.glm at run time',
               'TMLE is compared with the closed form for a binary outcome and for a continuous outcome with '
               'continuous_bound=0 (the documented clipping changes a continuous outcome, see C01)']

XTOL = dict(rtol=1e-12, atol=1e-14)     # same rows reach the same fits: identical up to the last bits
CTOL = dict(rtol=1e-6, atol=1e-8)       # closed form vs implementation: IRLS convergence error
KTOL = dict(rtol=1e-9, atol=1e-11)


# ------------------------------------------------------------------ the caller's own column names
# No clause of the property depends on what the columns are called.  Every data set draws a naming: the canonical
# names (A, Y, L1.., w), or names that are pieces of one another -- covariates / exposure / weights named by a piece of
# the outcome's (or the exposure's) name (baseline `cd4` next to the outcome `cd4_wk45_count`), or names that contain
# the outcome's (exposure's) short name (`y1_l1`, `l2tx`).  The renamed frame goes to the constructors (the formatted
# frame of every class) and to the runners of this module (TMLE, AIPTW with separate nuisance models, StochasticTMLE,
# the cross-fit classes); the check itself keeps the canonical names.
LONG = {'Y': 'cd4_wk45_count', 'A': 'art_naive_start'}
PARTS = {'Y': ['cd4', 'wk45', 'count', 'cd4_wk45', 'd4_wk', 'wk45_count'],
         'A': ['art', 'naive', 'start', 'art_naive', 'rt_na', 'naive_start']}
SHORT = {'Y': 'y1', 'A': 'tx'}
NAMINGS = ('plain', 'sub:Y', 'sub:A', 'super:Y', 'super:A')
_IDENT = re.compile(r'[A-Za-z_][A-Za-z_0-9]*')


def draw_naming(rng, covs):
    """(scheme, {canonical name: actual name} for the renamed columns)"""
    scheme = str(rng.choice(NAMINGS, p=[0.3, 0.3, 0.1, 0.2, 0.1]))
    if scheme == 'plain':
        return scheme, {}
    kind, role = scheme.split(':')
    others = [c for c in list(covs) + ['A', 'Y', 'w'] if c != role]
    chosen = [c for c in others if rng.uniform() < 0.6] or [others[int(rng.integers(0, len(others)))]]
    if kind == 'sub':
        parts = [PARTS[role][i] for i in rng.permutation(len(PARTS[role]))]
        nm = {role: LONG[role]}
        nm.update({c: parts[j] for j, c in enumerate(chosen)})
    else:
        nm = {role: SHORT[role]}
        nm.update({c: (SHORT[role] + '_' + c.lower()) if rng.integers(0, 2) else (c.lower() + SHORT[role])
                   for c in chosen})
    return scheme, nm


def N(nm, c):
    return c if c is None else (nm or {}).get(c, c)


def nsub(text, nm):
    """a formula / expression written with the canonical names, in the caller's names"""
    return _IDENT.sub(lambda m: nm.get(m.group(0), m.group(0)), text) if nm else text


def named(df, cols, nm):
    return df[cols].rename(columns=nm) if nm else df[cols]


# ------------------------------------------------------------------ data
INDEX_SHAPES = ('default', 'shifted', 'shuffled', 'string', 'filtered')


def reshape_index(df, shape, rng):
    """the caller's row labels: RangeIndex / shifted ints / a permutation (label != position) / string ids /
    increasing with gaps (a frame that was filtered and not re-indexed)"""
    n = len(df)
    if shape == 'shifted':
        df.index = np.arange(n) + 1000
    elif shape == 'shuffled':
        df.index = rng.permutation(n)
    elif shape == 'string':
        df.index = ['id%05d' % i for i in rng.permutation(n)]
    elif shape == 'filtered':
        df.index = np.sort(rng.choice(3 * n, size=n, replace=False))
    return df


def make_data(seed, ytype, ymiss, xmiss, shape='default'):
    """data set with a frequency-weight column `w` (used only by the cells that pass weights='w')"""
    rng = np.random.default_rng(seed)
    df, covs = gen.cat_dataset(rng, outcome=ytype, missing=ymiss, max_strata=8, weights=True,
                               n_extra=int(rng.integers(150, 400)))    # large enough for 3-way cross-fitting
    if xmiss:
        n_add = int(rng.integers(6, 40))
        if xmiss == 'mcar':
            pick = rng.integers(0, len(df), size=n_add)
        else:   # incomplete rows arise preferentially in some (A, L) cells
            sid = gen.strata_ids(df, covs)
            pr = 0.05 + ((sid * 7 + df['A'].values * 3) % 5) / 4.0
            pick = rng.choice(len(df), size=n_add, p=pr / pr.sum())
        extra = df.iloc[pick].copy().astype({c: float for c in covs + ['A']})
        pats = rng.choice(['A', 'L', 'AL', 'AY', 'LY', 'ALY', 'Lall'], size=n_add)
        for j, pat in enumerate(pats):
            if 'A' in pat:
                extra.iloc[j, extra.columns.get_loc('A')] = np.nan
            if pat == 'Lall':
                for c in covs:
                    extra.iloc[j, extra.columns.get_loc(c)] = np.nan
            elif 'L' in pat:
                extra.iloc[j, extra.columns.get_loc(covs[int(rng.integers(0, len(covs)))])] = np.nan
            if 'Y' in pat:
                extra.iloc[j, extra.columns.get_loc('Y')] = np.nan
        if ytype != 'binary':
            # the incomplete rows hold the most extreme recorded outcomes (a continuous outcome is rescaled by its
            # range in the TMLE family: the range must be that of the retained rows)
            keepy = np.flatnonzero(extra['Y'].notna().values)
            if len(keepy) >= 1:
                extra.iloc[keepy[0], extra.columns.get_loc('Y')] = float(np.nanmax(df['Y'].values) + 7)
            if len(keepy) >= 2 and ytype == 'normal':
                extra.iloc[keepy[1], extra.columns.get_loc('Y')] = float(np.nanmin(df['Y'].values) - 5)
        elif rng.uniform() < 0.6:
            # binary outcome: an incomplete row may hold anything in the outcome column (a number of events, a fraction,
            # a code such as -1 / 9).  Whether the analysis is one of a binary outcome is a matter of the retained rows
            keepy = np.flatnonzero(extra['Y'].notna().values)
            for j in keepy[rng.uniform(size=len(keepy)) < 0.5]:
                extra.iloc[j, extra.columns.get_loc('Y')] = float(rng.choice([2.0, 3.0, 0.5, -1.0, 9.0]))
        df = pd.concat([df.astype({c: float for c in covs + ['A']}), extra], ignore_index=True)
        df = df.iloc[rng.permutation(len(df))].reset_index(drop=True)
    else:
        df = df.astype({c: float for c in covs + ['A']})
    return reshape_index(df, shape, rng), covs


def variants(df, covs, rng, wcol=None):
    """(deleted: exposure/covariate-incomplete rows removed, labels kept or reset; complete cases)"""
    sub = covs + ['A'] + ([wcol] if wcol else [])
    dele = df.dropna(subset=sub)          # labels kept: itself a frame filtered without reset_index
    if rng.uniform() < 0.5:
        dele = dele.reset_index(drop=True)
    return dele, df.dropna().reset_index(drop=True)


def enc_raw(df, covs, wcol=None):
    """driver arguments a= l= y= [w=] (`_` = missing; l = id of the covariate pattern)"""
    okc = ~df[covs].isna().any(axis=1).values
    ids = np.full(len(df), -1)
    ids[okc] = gen.strata_ids(df.loc[okc], covs)
    kw = dict(a=','.join('_' if np.isnan(v) else str(int(v)) for v in df['A'].tolist()),
              l=','.join('_' if v < 0 else str(int(v)) for v in ids.tolist()),
              y=','.join('_' if np.isnan(v) else rq(float(v)) for v in df['Y'].tolist()))
    if wcol:
        kw['w'] = enc_list(df[wcol].tolist(), lambda v: str(int(v)))
    return kw


# ------------------------------------------------------------------ spying on the fits (no /repo edit)
class GlmSpy:
    """records formula, number of rows and response of every smf.glm(...) made while active"""

    def __enter__(self):
        import statsmodels.formula.api as smf
        self.smf, self.orig, self.calls = smf, smf.glm, []

        def spy(formula, data, *a, **k):
            m = self.orig(formula, data, *a, **k)
            self.calls.append({'formula': formula, 'rows_in': int(len(data)), 'endog': np.asarray(m.endog).copy()})
            return m
        smf.glm = spy
        return self

    def __exit__(self, *exc):
        self.smf.glm = self.orig
        return False


# ------------------------------------------------------------------ runners (estimates + formatted-data observables)
def observables(df_in, e_df, flag):
    """what check_input_data handed to the estimator, digested defensively: nothing in here may raise on
    unexpected content (NaN / non 0-1 indicator, wrong length, foreign labels); oddities go to `problems`"""
    ob = {'flag': None, 'problems': [], 'kept': None, 'kept_pos': None, 'obs': None, 'n_formatted': None}
    try:
        ob['flag'] = bool(flag)
        ob['n_formatted'] = int(len(e_df))
        if 'index' not in e_df.columns:
            ob['problems'].append('formatted data carries no `index` column with the caller\'s labels')
        else:
            labels = list(e_df['index'])
            ob['kept'] = [v.item() if hasattr(v, 'item') else v for v in labels]
            pos = df_in.index.get_indexer(pd.Index(labels))
            ob['kept_pos'] = [int(v) for v in pos]
            if (pos < 0).any():
                ob['problems'].append('retained rows carry labels that are not labels of the input frame')
            elif len(set(ob['kept_pos'])) != len(pos):
                ob['problems'].append('a row of the input frame was retained more than once')
        if '__missing_indicator__' not in e_df.columns:
            ob['problems'].append('no observed-outcome indicator column')
        else:
            vals = np.asarray(e_df['__missing_indicator__'], dtype=float)
            ob['obs'] = [None if np.isnan(v) else (int(v) if v in (0.0, 1.0) else float(v)) for v in vals]
            if np.isnan(vals).any():
                ob['problems'].append('NaN in the observed-outcome indicator')
            elif not np.isin(vals, (0.0, 1.0)).all():
                ob['problems'].append('observed-outcome indicator is not 0/1')
    except Exception as ex:       # noqa: BLE001  -- reported as a property failure by the caller
        ob['problems'].append('formatted data could not be read: %r' % (ex,))
    return ob


def expected_format(df, covs, drop_all, wcol=None):
    """what the documentation of check_input_data promises, computed directly from the caller's frame"""
    sub = covs + ['A'] + ([wcol] if wcol else []) + (['Y'] if drop_all else [])
    keep = df.dropna(subset=sub)
    obs = [1] * len(keep) if drop_all else [int(v) for v in keep['Y'].notna()]
    return {'kept_pos': [int(v) for v in df.index.get_indexer(keep.index)], 'obs': obs,
            'flag': (not drop_all) and (0 in obs)}


def format_check(chk, which, ob, exp, case):
    ok = not ob['problems'] and ob['kept_pos'] == exp['kept_pos'] and ob['obs'] == exp['obs'] and \
        ob['flag'] == exp['flag']
    what = ob['problems'] or [k for k in ('kept_pos', 'obs', 'flag') if ob[k] != exp[k]]
    chk.d(ok, '%s: check_input_data retains exactly the rows it documents (exposure and covariates present%s), in the '
          'caller\'s order, each with its own observed-outcome indicator, and the matching miss_flag' %
          (which, ' and outcome observed' if which in DROP_ALL else ''),
          dict(case, mismatch=[str(w) for w in what][:5],
               got={k: (ob[k][:40] if isinstance(ob[k], list) else ob[k]) for k in ('kept', 'obs', 'flag', 'n_formatted')}))
    return ok


# ---- user-supplied learners (custom_model=): exact stratum proportions / means of the design rows
class CellLearner:
    """memorises the mean response of every distinct design row; zEpid deep-copies and fits it"""

    def __init__(self):
        self.table, self.default = {}, np.nan

    def fit(self, X, y):
        X, y = np.asarray(X, dtype=float), np.asarray(y, dtype=float)
        acc = {}
        for row, v in zip(map(tuple, np.round(X, 9)), y):
            t = acc.setdefault(row, [0.0, 0])
            t[0] += v
            t[1] += 1
        self.table = {k: t[0] / t[1] for k, t in acc.items()}
        self.default = float(np.mean(y))
        return self

    def _mean(self, X):
        return np.array([self.table.get(r, self.default) for r in map(tuple, np.round(np.asarray(X, dtype=float), 9))])


class CellProba(CellLearner):
    """sklearn-classifier style: predict_proba gives the two class probabilities, predict the class label"""

    def predict_proba(self, X):
        p = self._mean(X)
        return np.column_stack([1 - p, p])

    def predict(self, X):
        return (self._mean(X) > 0.5).astype(int)


class CellPredict(CellLearner):
    """regressor style: predict only"""

    def predict(self, X):
        return self._mean(X)


def learner(kind, continuous=False):
    return CellPredict() if (kind == 'predict' or continuous) else CellProba()


def formatted(which, df, covs, o):
    """(formatted frame, miss_flag) of a bare instance of the class: public constructor, nothing fitted; the frame is
    handed over under the data set's own column names (o['nm'])"""
    import zepid.causal.ipw as ipw
    import zepid.causal.gformula as gf
    import zepid.causal.doublyrobust as dr
    import zepid.causal.snm as snm
    nm = o.get('nm')
    w = o.get('w')
    d = named(df, covs + ['A', 'Y'] + ([w] if w else []), nm)
    a, y, w = N(nm, 'A'), N(nm, 'Y'), N(nm, w)
    if which == 'IPTW':
        b = ipw.IPTW(d, treatment=a, outcome=y, weights=w)
    elif which == 'StochasticIPTW':
        b = ipw.StochasticIPTW(d, treatment=a, outcome=y, weights=w)
    elif which == 'TimeFixedGFormula':
        b = gf.TimeFixedGFormula(d, exposure=a, outcome=y, outcome_type=o['ytype'], weights=w)
        return b.gf, b._miss_flag
    elif which == 'AIPTW':
        b = dr.AIPTW(d, exposure=a, outcome=y, weights=w)
    elif which == 'GEstimationSNM':
        b = snm.GEstimationSNM(d, exposure=a, outcome=y, weights=w)
    else:
        b = getattr(dr, which)(d, exposure=a, outcome=y)
    return b.df, b._miss_flag


def formulas(covs, o):
    """(treatment, missingness, outcome) model formulas of a cell.  `spec` chooses saturated / main-effects for all
    three; `gspec='first'` coarsens the treatment model to the first covariate, `mspec='arm'` / `qspec='arm'` coarsen
    the missingness / outcome model to the treatment arm only (deliberately misspecified nuisance models)"""
    tm, om = c09.specs(covs, o['spec'])
    return tuple(nsub(f, o.get('nm')) for f in (
        'C(%s)' % covs[0] if o.get('gspec') == 'first' else tm, 'A' if o.get('mspec') == 'arm' else om,
        'A' if o.get('qspec') == 'arm' else om))


def run_tmle(df, covs, o):
    from zepid.causal.doublyrobust import TMLE
    tm, mf, om = formulas(covs, o)
    yt, cu = o['ytype'], o.get('custom')
    nm = o.get('nm')
    t = TMLE(named(df, covs + ['A', 'Y'], nm), exposure=N(nm, 'A'), outcome=N(nm, 'Y'),
             continuous_bound=o.get('cb', 0.0005))
    t.exposure_model(tm, print_results=False, **({'custom_model': learner(cu)} if cu else {}))
    if o['miss'] == 'mm':
        t.missing_model(mf, print_results=False, **({'custom_model': learner(cu)} if cu else {}))
    kw = {} if yt == 'binary' else {'continuous_distribution': 'poisson' if yt == 'poisson' else 'gaussian'}
    if cu:
        kw['custom_model'] = learner(cu, continuous=yt != 'binary')
    t.outcome_model(om, print_results=False, **kw)
    if o.get('hist'):
        t.fit()
    t.fit()
    est = {'RD': t.risk_difference, 'RR': t.risk_ratio, 'OR': t.odds_ratio} if yt == 'binary' else \
        {'ATE': t.average_treatment_effect}
    return {k: float(v) for k, v in est.items()}, {}


def run_aiptw_dr(df, covs, o):
    """AIPTW with separately specified (possibly coarsened) nuisance models, built-in GLMs or user-supplied learners"""
    from zepid.causal.doublyrobust import AIPTW
    tm, mf, om = formulas(covs, o)
    yt, cu = o['ytype'], o.get('custom')
    nm = o.get('nm')
    a = AIPTW(named(df, covs + ['A', 'Y'], nm), exposure=N(nm, 'A'), outcome=N(nm, 'Y'))
    a.exposure_model(tm, print_results=False, **({'custom_model': learner(cu)} if cu else {}))
    if o['miss'] == 'mm':
        a.missing_model(mf, print_results=False, **({'custom_model': learner(cu)} if cu else {}))
    kw = {'custom_model': learner(cu, continuous=yt != 'binary')} if cu else \
        {'continuous_distribution': 'poisson' if yt == 'poisson' else 'gaussian'}
    a.outcome_model(om, print_results=False, **kw)
    if o.get('hist'):
        a.fit()
    a.fit()
    est = {'RD': a.risk_difference, 'RR': a.risk_ratio} if yt == 'binary' else {'ATE': a.average_treatment_effect}
    return {k: float(v) for k, v in est.items()}, {}


def run_stmle(df, covs, o):
    from zepid.causal.doublyrobust import StochasticTMLE
    nm = o.get('nm')
    tm, om = (nsub(f, nm) for f in c09.specs(covs, o['spec']))
    cu = o.get('custom')
    s = StochasticTMLE(named(df, covs + ['A', 'Y'], nm), exposure=N(nm, 'A'), outcome=N(nm, 'Y'))
    s.exposure_model(tm, **({'custom_model': learner(cu)} if cu else {}))
    s.outcome_model(om, **({'custom_model': learner(cu, continuous=o['ytype'] != 'binary')} if cu else {}))
    s.fit(p=o['p'], samples=o['samples'], seed=o['seed'])
    return {'marginal': float(s.marginal_outcome)}, {}


def run_crossfit(df, covs, o):
    import zepid.causal.doublyrobust as dr
    from zepid.superlearner import GLMSL
    f = sm.families.family.Binomial()
    nm = o.get('nm')
    e = getattr(dr, o['cls'])(named(df, covs + ['A', 'Y'], nm), exposure=N(nm, 'A'), outcome=N(nm, 'Y'))
    e.exposure_model(nsub(' + '.join(covs), nm), GLMSL(f))
    # cross-fit TMLE rescales a continuous outcome to [0, 1]: a (quasi-)binomial GLM keeps predictions inside
    e.outcome_model(nsub('A + ' + ' + '.join(covs), nm), GLMSL(f) if (o['ytype'] == 'binary' or 'TMLE' in o['cls']) else
                    GLMSL(sm.families.family.Gaussian()))
    e.fit(n_splits=3 if 'Double' in o['cls'] else 2, n_partitions=2, random_state=o['seed'])
    est = {'RD': e.risk_difference, 'RR': e.risk_ratio} if o['ytype'] == 'binary' else {'ACE': e.ace}
    return {k: float(v) for k, v in est.items()}, {}


def run_c09(which):
    """IPTW / StochasticIPTW / TimeFixedGFormula / AIPTW / GEstimationSNM through the runners of the C09 check"""
    def f(df, covs, o):
        if which == 'AIPTW' and o.get('dr'):
            return run_aiptw_dr(df, covs, o)
        est, nu, _ = c09.RUNNERS[which](df, covs, o.get('w'), o)
        return est, nu
    return f


RUN = {'IPTW': run_c09('IPTW'), 'StochasticIPTW': run_c09('StochasticIPTW'),
       'TimeFixedGFormula': run_c09('TimeFixedGFormula'), 'AIPTW': run_c09('AIPTW'),
       'GEstimationSNM': run_c09('GEstimationSNM'), 'TMLE': run_tmle, 'StochasticTMLE': run_stmle,
       'SingleCrossfitAIPTW': run_crossfit, 'DoubleCrossfitAIPTW': run_crossfit, 'SingleCrossfitTMLE': run_crossfit,
       'DoubleCrossfitTMLE': run_crossfit}
DROP_ALL = {'StochasticIPTW', 'StochasticTMLE', 'SingleCrossfitAIPTW', 'DoubleCrossfitAIPTW', 'SingleCrossfitTMLE',
            'DoubleCrossfitTMLE', 'SurvivalGFormula'}
OUTCOME_MODEL_KEEPERS = {'TimeFixedGFormula', 'AIPTW', 'TMLE'}      # keep missing-outcome rows and fit an outcome model


def dr_cells(mm, ytype, rng, tier):
    """TMLE / AIPTW cells with user-supplied learners (custom_model=) for the treatment, missingness and outcome
    models.  Two layouts, so that every nuisance path matters for the answer: 'G' = treatment and missingness models
    saturated, outcome model coarsened to the arm (the estimate then hangs on g and m), 'Q' = outcome model saturated,
    treatment model coarsened to the first covariate and missingness model to the arm (the estimate hangs on Q).
    Both learner kinds x both layouts in the thorough tier; two of the four combinations (alternating) in the quick tier"""
    lay = {'G': dict(qspec='arm'), 'Q': dict(gspec='first', mspec='arm')}
    combos = [(k, l) for k in ('proba', 'predict') for l in ('G', 'Q')]
    if tier != 'thorough':
        combos = [combos[0], combos[3]] if rng.integers(0, 2) else [combos[1], combos[2]]
    return [dict(miss=mm, spec='sat', ytype=ytype, custom=k, dr=l, **lay[l]) for k, l in combos]


def cells(which, ytype, has_ymiss, covs, rng, tier):
    spec = lambda: str(rng.choice(['sat', 'main']))
    modes = ['cc', 'mm'] if has_ymiss else ['none']
    tgts = ('population', 'exposed', 'unexposed')
    out = []
    if which == 'IPTW':
        for mm in modes:
            for tgt in (tgts if tier == 'thorough' else (str(rng.choice(tgts)),)):
                out.append(dict(stab=bool(rng.integers(0, 2)), tgt=tgt, miss=mm, spec=spec(), ytype=ytype,
                                w=[None, 'w'][int(rng.integers(0, 2))]))
        if has_ymiss:      # the closed-form cell: saturated treatment + missingness models, every target
            for tgt in tgts:
                out.append(dict(stab=bool(rng.integers(0, 2)), tgt=tgt, miss='mm', spec='sat', ytype=ytype,
                                w=[None, 'w'][int(rng.integers(0, 2))]))
    elif which == 'StochasticIPTW':
        out.append(dict(plan='marginal', p=[float(rng.choice([0.25, 0.6]))], spec=spec(), ytype=ytype,
                        w=[None, 'w'][int(rng.integers(0, 2))]))
    elif which == 'TimeFixedGFormula':
        custom = "g['%s']==0" % covs[0]
        for pm in ((True, False) if has_ymiss else (True,)):
            for tgt in (tgts if tier == 'thorough' else (str(rng.choice(tgts)),)):
                out.append(dict(tgt=tgt, treatment=str(rng.choice(['all', 'none'])), pm=pm, spec='sat', ytype=ytype, w=None))
                out.append(dict(tgt=tgt, treatment=custom, pm=pm, spec='main', ytype=ytype, w=None))
            # with a weights column: predict_missing=False under every standardization target x all / none / custom
            # (predict_missing=True: the same grid in the thorough tier, one random cell of it in the quick tier)
            grid = [(tgt, tr) for tgt in tgts for tr in ('all', 'none', custom)]
            if pm and tier != 'thorough':
                grid = [grid[int(rng.integers(0, len(grid)))]]
            for tgt, tr in grid:
                out.append(dict(tgt=tgt, treatment=tr, pm=pm, spec='main' if tr == custom else 'sat', ytype=ytype,
                                w='w'))
        # the stochastic entry point with deterministic plans (p = 1 / 0 / conditional [1, 0]) is the same intervention:
        # every predict_missing=False cell also through fit_stochastic, a third of the others
        for o in list(out):
            if not o['pm']:
                out.append(dict(o, stoch=True))
            elif rng.integers(0, 3) == 0:
                o['stoch'] = True
    elif which == 'AIPTW':
        for mm in modes:
            out.append(dict(miss=mm, spec=spec(), ytype=ytype, w=[None, 'w'][int(rng.integers(0, 2))]))
            out.extend(dr_cells(mm, ytype, rng, tier))
    elif which == 'GEstimationSNM':
        for mm in modes:
            out.append(dict(snm=str(rng.choice(['A', 'A + A:L1'])), miss=mm, stab=bool(rng.integers(0, 2)), spec=spec(),
                            ytype=ytype, w=[None, 'w'][int(rng.integers(0, 2))]))
    elif which == 'TMLE':
        for mm in modes:
            out.append(dict(miss=mm, spec=spec(), ytype=ytype))
        if has_ymiss:
            out.append(dict(miss='mm', spec='sat', ytype=ytype, cb=0.0))
        for mm in modes:
            out.extend(dict(c, cb=0.0) for c in dr_cells(mm, ytype, rng, tier))
    elif which == 'StochasticTMLE':
        base = dict(p=float(rng.choice([0.3, 0.7])), samples=15, seed=int(rng.integers(0, 10 ** 6)), ytype=ytype)
        out.append(dict(base, spec=spec()))
        out.append(dict(base, spec='sat', custom=str(rng.choice(['proba', 'predict']))))
    else:
        out.append(dict(cls=which, seed=int(rng.integers(0, 10 ** 6)), ytype=ytype))
    # history on the one object: half of the cells of the classes with a documented refit (a second fit(), another
    # marginal structural model or plan first) run after an earlier fit; judged like the others, and against a fresh object
    if which in ('IPTW', 'TimeFixedGFormula', 'AIPTW', 'TMLE', 'GEstimationSNM', 'StochasticIPTW'):
        for o in out:
            if rng.integers(0, 2):
                o['hist'] = ['twice', 'respec'][int(rng.integers(0, 2))]
    return out


# ------------------------------------------------------------------ checks
def same_est(a, b, tol):
    return set(a) == set(b) and all(close(a[k], b[k], **tol) for k in a)


def measures_of(cf, tgt, ytype, with_m0=True):
    m1, m0 = cf[(tgt, 1)], cf[(tgt, 0)]
    d = {'binary': {'RD': m1 - m0, 'RR': m1 / m0, 'OR': (m1 / (1 - m1)) / (m0 / (1 - m0)), 'm0': m0},
         'normal': {'ATE': m1 - m0, 'm0': m0}, 'poisson': {'ratio': m1 / m0, 'm0': m0}}[ytype]
    return {k: float(v) for k, v in d.items() if with_m0 or k != 'm0'}


def spy_checks(chk, which, spy, df, exp, case):
    """(c): which rows reached the fits (expected sets computed from the caller's frame, not from zEpid's output)"""
    kept = df.iloc[exp['kept_pos']]
    n_kept, y_obs = len(kept), kept['Y'].dropna().values
    for c in spy.calls:
        lhs = c['formula'].split('~')[0].strip()
        if lhs == 'Y' and which in OUTCOME_MODEL_KEEPERS:
            ok = len(c['endog']) == len(y_obs) and not np.isnan(c['endog']).any()
            if ok and which != 'TMLE':         # TMLE rescales a continuous outcome before fitting
                ok = bool(np.array_equal(c['endog'], y_obs))
            chk.d(ok, '%s: outcome model fitted on exactly the retained rows with an observed outcome' % which,
                  dict(case, fit_rows=len(c['endog']), observed=len(y_obs)))
        elif lhs in ('A', '__missing_indicator__') and which in ('IPTW', 'AIPTW', 'TMLE'):
            ok = len(c['endog']) == n_kept
            if ok and lhs == '__missing_indicator__':
                ok = bool(np.array_equal(c['endog'], kept['Y'].notna().values.astype(float)))
            chk.d(ok, '%s: %s model fitted on exactly the retained rows (missing outcomes included, incomplete rows '
                  'excluded)%s' % (which, 'treatment' if lhs == 'A' else 'missingness',
                                   '' if lhs == 'A' else ' with response = outcome observed'),
                  dict(case, fit_rows=len(c['endog']), retained=n_kept))


def model_checks(chk, drv, which, o, df, covs, ob, nu, est, case, dc):
    """K: check_input_data vs the Lean model; estimator model composed with it, on the data and after deletion"""
    raw = enc_raw(df, covs, o.get('w'))
    # row retention by the REGENERATED check_input_data (Gen/InputData.lean), called with the flags the generated
    # call-site table records for this class's constructor; `model` = it agrees with the hand-written checkInput
    rep, _ = drv.ask('c10', est='check', cls=which, **raw)
    ok = rep['status'] == 'ok' and rep.get('raise') == '0' and c09_ints(rep['kept']) == ob['kept_pos'] and \
        (rep['miss'] == '1') == ob['flag'] and c09_ints(rep['obs']) == ob['obs'] and rep['same'] == '1' and \
        rep['model'] == '1' and (rep['dc'] == '1') == bool(dc)
    chk.k(ok, '%s: rows kept / observed-outcome indicator / miss_flag of check_input_data = the regenerated code run with '
          'the flags of this class\'s constructor (generated call-site table) = the hand-written model' % which,
          dict(case, model={k: v for k, v in rep.items() if len(v) < 80}))
    if which == 'IPTW' and o.get('msm') != 'modifier':
        rep, _ = drv.ask('c10', est='iptw', dc=0, stab=int(o['stab']), tgt=o['tgt'], n=c09.encv(nu['n']),
                         d=c09.encv(nu['d'], 0.5), mw=c09.encv(nu['mw']), **raw)
        ok = rep['status'] == 'ok' and rep['same'] == '1'
        if ok:
            cfm = {(o['tgt'], 1): Fraction(rep['m1']), (o['tgt'], 0): Fraction(rep['m0'])}
            ok = same_est(measures_of(cfm, o['tgt'], o['ytype']), est, KTOL)
        chk.k(ok, 'IPTW: weight formula + MSM on check_input(data) = model, and = model after deletion', case)
    if which == 'TimeFixedGFormula':
        rep, _ = drv.ask('c10', est='gform', dc=0, tgt=o['tgt'], pm=int(o['pm']), q1=c09.encv(nu['q']),
                         q0=c09.encv(nu['q']), **raw)
        ok = rep['status'] == 'ok' and rep['same'] == '1' and close(float(Fraction(rep['g1'])), est['marginal'], **KTOL)
        chk.k(ok, 'TimeFixedGFormula: marginal over the retained target rows = model, and = model after deletion', case)


def c09_ints(s):
    return [] if s in ('', '[]') else [int(t) for t in s.split(',')]


def attempt(f, *a):
    """('ok', value) or ('err', exception): nothing zEpid does with a generated data set may abort the check"""
    try:
        return 'ok', f(*a)
    except Exception as ex:       # noqa: BLE001
        return 'err', ex


def one_case(chk, drv, which, o, df, covs, dele, cc, cfs, ytype, case):
    w = o.get('w')
    dc = which in DROP_ALL
    # ---- what check_input_data hands to the estimator (public constructor only), against the documentation
    exp = expected_format(df, covs, dc, w)
    st, val = attempt(lambda: formatted(which, df, covs, o))
    if st == 'err':
        chk.d(False, '%s: constructor raises on a data set with incomplete rows / this index' % which,
              dict(case, error=repr(val)[:300]))
        return
    ob = observables(df, val[0], val[1])
    fmt_ok = format_check(chk, which, ob, exp, case)
    # ---- the estimator on the data, after the user deleted the incomplete rows, on the complete cases
    spy = GlmSpy()
    with spy:
        s1, r1 = attempt(RUN[which], df, covs, o)
    s2, r2 = attempt(RUN[which], dele, covs, o)
    if s1 == 'err' or s2 == 'err':
        same_err = s1 == s2 and type(r1) is type(r2)
        chk.d(same_err, '%s: raises on the data iff it raises after deleting the incomplete rows' % which,
              dict(case, on_data=repr(r1)[:300], after_deletion=repr(r2)[:300]))
        if s1 == 'err' and dc:
            s3, r3 = attempt(RUN[which], cc, covs, o)
            chk.d(s3 == 'err' and type(r3) is type(r1), '%s: drop-everything estimator = its complete-case result '
                  '(raises on the data, runs on the complete cases)' % which, dict(case, error=repr(r1)[:300]))
        if same_err and fmt_ok:
            # the estimator itself cannot be computed on this data set (e.g. separation inside a cross-fit split)
            chk.discard('%s could not be computed on the generated data (same error after deletion)' % which)
        return
    (e1, nu), (e2, _) = r1, r2
    case['on_data'], case['after_deletion'] = e1, e2
    # (a)
    chk.d(same_est(e1, e2, XTOL), '%s: rows missing exposure/covariates do not influence the result '
          '(= result after deleting them)' % which, case)
    if o.get('hist'):
        s6, r6 = attempt(RUN[which], df, covs, {k: v for k, v in o.items() if k != 'hist'})
        case['fresh_object'] = r6[0] if s6 == 'ok' else repr(r6)[:300]
        chk.d(s6 == 'ok' and same_est(e1, r6[0], dict(rtol=1e-10, atol=1e-12)), '%s: the missing-data / weight '
              'handling is not compounded by an earlier fit() on the same object (= fresh object)' % which, case)
    # (b)
    if dc:
        s3, r3 = attempt(RUN[which], cc, covs, o)
        case['complete_case'] = r3[0] if s3 == 'ok' else repr(r3)[:300]
        chk.d(s3 == 'ok' and same_est(e1, r3[0], XTOL), '%s: drop-everything estimator = its complete-case result'
              % which, case)
    # (c)
    spy_checks(chk, which, spy, df, exp, case)
    # (d) saturated treatment + missingness models: exact closed form over all retained rows
    cf_all, cf_cc = cfs[('all', w)], cfs[('cc', w)]
    if which == 'IPTW' and o['miss'] == 'mm' and o['spec'] == 'sat':
        want = measures_of(cf_all, o['tgt'], ytype)
        chk.d(same_est(e1, want, CTOL), 'IPTW (saturated treatment + missingness models): observed-outcome '
              'stratum means standardized over all retained rows', dict(case, want=want))
    # (doubly robust: it suffices that treatment + missingness models, or the outcome model, are saturated -- the
    #  layouts 'G' and 'Q' of dr_cells; P10.tmle_missing_saturated / P02)
    if which == 'TMLE' and o['miss'] in ('mm', 'none') and o['spec'] == 'sat' and (ytype == 'binary' or o.get('cb') == 0.0):
        want = measures_of(cf_all, 'population', 'binary' if ytype == 'binary' else 'normal', with_m0=False)
        chk.d(same_est(e1, want, dict(rtol=1e-6, atol=1e-7)), 'TMLE (saturated models%s): observed-outcome '
              'stratum means standardized over all retained rows' %
              (', user-supplied %s learners' % o['custom'] if o.get('custom') else ''), dict(case, want=want))
    if which == 'AIPTW' and o.get('dr') and o['miss'] == 'none':
        want = measures_of(cf_all, 'population', 'binary' if ytype == 'binary' else 'normal', with_m0=False)
        want.pop('OR', None)
        chk.d(same_est(e1, want, CTOL), 'AIPTW (no missing outcomes, user-supplied %s learners, layout %s): '
              'standardized stratum means' % (o['custom'], o['dr']), dict(case, want=want))
    if o.get('custom') and which != 'StochasticTMLE':
        # (StochasticTMLE: no clause of C10 speaks about its plan logic -- its custom-outcome-model path once ignored
        #  the treatment plan, found here and repaired under C14 --; the custom cell is kept for the deletion /
        #  complete-case clauses only)
        # a user-supplied learner that returns the stratum proportions/means is interchangeable with the built-in
        # saturated GLM: same fitted values -> same estimate
        s4, r4 = attempt(RUN[which], df, covs, {k: v for k, v in o.items() if k != 'custom'})
        case['built_in'] = r4[0] if s4 == 'ok' else repr(r4)[:300]
        chk.d(s4 == 'ok' and same_est(e1, r4[0], dict(rtol=1e-6, atol=1e-7)), '%s: user-supplied %s learners for the '
              'nuisance models give the result of the built-in saturated models' % (which, o['custom']), case)
    if which == 'TimeFixedGFormula':
        if o['spec'] == 'sat' and o['treatment'] in ('all', 'none'):
            a = 1 if o['treatment'] == 'all' else 0
            cfp = cf_all if o['pm'] else cf_cc   # predict_missing=False: target = rows with an observed outcome
            chk.d(close(e1['marginal'], float(cfp[(o['tgt'], a)]), **CTOL), 'TimeFixedGFormula%s: predict_missing '
                  'switch selects all retained rows / observed-outcome rows as the target (exact closed form)' %
                  (' with weights' if w else ''), dict(case, want=float(cfp[(o['tgt'], a)])))
        if not o['pm']:
            # predict_missing=False = the answer on the data from which the missing-outcome rows were deleted
            s5, r5 = attempt(RUN[which], dele.dropna(subset=['Y']), covs, o)
            case['after_deleting_missing_outcomes'] = r5[0] if s5 == 'ok' else repr(r5)[:300]
            chk.d(s5 == 'ok' and same_est(e1, r5[0], dict(rtol=1e-10, atol=1e-12)), 'TimeFixedGFormula%s: '
                  'predict_missing=False = result after deleting the rows with a missing outcome' %
                  (' with weights' if w else ''), case)
    if drv is not None and fmt_ok and not o.get('custom'):
        model_checks(chk, drv, which, o, df, covs, ob, nu, e1, case, dc)


def one_dataset(chk, drv, rng, ytype, ymiss, xmiss, tier, classes, only=None, seed=None, shape=None):
    seed = int(rng.integers(0, 2 ** 31)) if seed is None else seed
    shape = INDEX_SHAPES[seed % len(INDEX_SHAPES)] if shape is None else shape
    df, covs = make_data(seed, ytype, ymiss, xmiss, shape)
    vr = np.random.default_rng(seed + 7)
    dele, cc = variants(df, covs, vr)
    n_inc = int(len(df) - len(df.dropna(subset=covs + ['A'])))
    cfs = {('all', None): gen.closed_form(dele, covs), ('cc', None): gen.closed_form(cc, covs),
           ('all', 'w'): gen.closed_form(dele, covs, 'w'), ('cc', 'w'): gen.closed_form(cc, covs, 'w')}
    cf_all, cf_cc = cfs[('all', None)], cfs[('cc', None)]
    shifts = abs(float(cf_all[('population', 1)] - cf_cc[('population', 1)])) > 1e-9
    rec = gen.describe(df, covs, outcome=ytype, ymiss=ymiss, xmiss=xmiss, data_seed=seed, incomplete_rows=n_inc,
                       retained=int(len(dele)), complete_cases=int(len(cc)), index=shape,
                       deleted_labels='reset' if isinstance(dele.index, pd.RangeIndex) else 'kept')
    scheme, nm = draw_naming(np.random.default_rng(seed + 11), covs)
    rec['naming'] = scheme
    chk.count('data/y=%s/x=%s/%s' % (ymiss, xmiss, ytype))
    chk.count('index/' + shape)
    chk.count('naming/' + scheme)
    odd = dele['Y'].dropna().isin([0, 1]).all() and not df['Y'].dropna().isin([0, 1]).all()
    chk.count('outcome/%s' % ('0-1 in the retained rows, other values in incomplete rows' if odd else ytype))
    # gate H: reference saturated treatment fit on the retained rows = cell proportions
    import statsmodels.formula.api as smf
    chk.h_checked += 1
    ref = smf.glm('A ~ ' + gen.sat_cov(covs), dele, family=sm.families.family.Binomial()).fit().predict(dele)
    exact = dele.groupby(list(covs))['A'].transform('mean')
    if not np.allclose(ref, exact, rtol=0, atol=1e-7):
        chk.discard('reference saturated fit missed the cell proportions by > 1e-7')
        return
    if drv is not None:     # the model's closed form on check_input(data), before and after deletion, vs Fractions
        for w in (None, 'w'):
            r, _ = drv.ask('c10', est='std', dc=0, **enc_raw(df, covs, w))
            ok = r['status'] == 'ok' and r['same'] == '1' and all(
                Fraction(r['%s%d' % (t, a)]) == cfs[('all', w)][(t, a)]
                for t in ('population', 'exposed', 'unexposed') for a in (0, 1))
            chk.k(ok, 'Lean std on check_input(data) == after deletion (exact) == independent closed form',
                  {'data': rec, 'weights': w})
    has_ymiss = bool(dele['Y'].isna().any())
    for which in classes:
        opts = [only] if only is not None else cells(which, ytype, has_ymiss, covs, rng, tier)
        for o in opts:
            if only is None and nm:
                o['nm'] = nm
            case = {'estimator': which, 'options': o, 'data': rec}
            key = (seed, which, tuple(sorted((k, str(v)) for k, v in o.items())))
            chk.case(case, key if (n_inc > 0 or shifts) else None, sample=case if chk.evals % 37 == 0 else None)
            chk.count('%s/%s' % (which, '/'.join('%s=%s' % (k, v) for k, v in sorted(o.items())
                                                 if k in ('miss', 'tgt', 'pm', 'snm', 'cb', 'w', 'custom', 'hist', 'stoch'))))
            st, val = attempt(one_case, chk, drv, which, o, df, covs, dele, cc, cfs, ytype, case)
            if st == 'err':
                import traceback
                chk.d(False, '%s: zEpid handed back something the check could not digest (reported as a property '
                      'failure with the data set attached, not as a crash)' % which,
                      dict(case, error=repr(val)[:300],
                           traceback=''.join(traceback.format_exception(type(val), val, val.__traceback__))[-1500:]))


def one_survival(chk, drv, rng, tier, seed=None):
    seed = int(rng.integers(0, 2 ** 31)) if seed is None else seed
    df = c09.make_survival(seed).astype({'A': float, 'L1': float, 'L2': float, 'Y': float})
    r = np.random.default_rng(seed + 3)
    for col, frac in (('A', 0.03), ('L1', 0.03), ('L2', 0.02), ('Y', 0.04)):
        df.loc[r.uniform(size=len(df)) < frac, col] = np.nan
    shape = INDEX_SHAPES[seed % len(INDEX_SHAPES)]
    df = reshape_index(df, shape, r)
    dele = df.dropna(subset=['A', 'L1', 'L2'])
    cc = df.dropna().reset_index(drop=True)
    rec = {'rows': int(len(df)), 'retained': int(len(cc)), 'data_seed': seed, 'kind': 'survival', 'index': shape}
    if drv is not None:
        # K: the frame SurvivalGFormula's constructor keeps = the regenerated check_input_data with the flags of the
        # generated call-site entry of SurvivalGFormula (the class re-orders its rows afterwards: labels compared as sets)
        from zepid.causal.gformula import SurvivalGFormula
        other = [c for c in df.columns if c not in ('A', 'Y')]
        okc = ~df[other].isna().any(axis=1).values
        raw = dict(a=','.join('_' if np.isnan(v) else str(int(v)) for v in df['A'].tolist()),
                   l=','.join('0' if b else '_' for b in okc.tolist()),
                   y=','.join('_' if np.isnan(v) else rq(float(v)) for v in df['Y'].tolist()))
        rep, _ = drv.ask('c10', est='check', cls='SurvivalGFormula', **raw)
        st, val = attempt(lambda: SurvivalGFormula(df, idvar='id', exposure='A', outcome='Y', time='t', weights='w'))
        ok = st == 'ok' and rep['status'] == 'ok' and rep.get('raise') == '0' and 'index' in val.gf.columns and \
            sorted(c09_ints(rep['kept'])) == sorted(int(v) for v in df.index.get_indexer(pd.Index(list(val.gf['index'])))) \
            and rep['model'] == '1' and (rep['miss'] == '1') == bool(val._miss_flag)
        chk.k(ok, 'SurvivalGFormula: rows its constructor keeps = the regenerated check_input_data run with the flags of '
              'its generated call-site entry', {'data': rec, 'model': {k: v for k, v in rep.items() if len(v) < 80},
                                                'error': repr(val)[:200] if st == 'err' else None})
    for tr in ('all', 'natural'):
        o = dict(treatment=tr, model='A + L1 + L2 + t')
        case = {'estimator': 'SurvivalGFormula', 'options': o, 'data': rec}
        chk.case(case, (seed, 'SGF', tr))
        chk.count('SurvivalGFormula/%s' % tr)
        runs = [attempt(c09.est_survival, d, 'w', o) for d in (df, dele, cc)]
        if any(st == 'err' for st, _ in runs):
            chk.d(all(st == 'err' for st, _ in runs) and len({type(v) for _, v in runs}) == 1,
                  'SurvivalGFormula: raises on the data iff it raises after deletion / on the complete cases',
                  dict(case, errors=[repr(v)[:200] for st, v in runs if st == 'err']))
            continue
        (e1, _, gf), (e2, _, _), (e3, _, _) = (v for _, v in runs)
        case['on_data'], case['after_deletion'], case['complete_case'] = e1, e2, e3
        chk.d(same_est(e1, e2, XTOL), 'SurvivalGFormula: rows missing exposure/covariates do not influence the result',
              case)
        chk.d(same_est(e1, e3, XTOL) and len(gf) == len(cc), 'SurvivalGFormula: drop-everything estimator = its '
              'complete-case result', case)


def direct_call(df, nm, dc, dm, bo):
    """check_input_data called directly on the frame under the caller's names: ('err', exception) or
    ('ok', {kept positions in df, indicator column, flag, continuous})"""
    import warnings
    from zepid.causal.utils import check_input_data
    with warnings.catch_warnings():
        warnings.simplefilter('ignore')
        st, val = attempt(lambda: check_input_data(df.rename(columns=nm), N(nm, 'A'), N(nm, 'Y'), 'K', bool(dc),
                                                   bool(dm), bool(bo)))
    if st == 'err':
        return st, val
    out, flag, continuous = val
    pos = [int(v) for v in df.index.get_indexer(pd.Index(list(out['index'])))] if 'index' in out.columns else None
    ind = [int(v) for v in np.asarray(out['__missing_indicator__'])] if '__missing_indicator__' in out.columns else None
    return st, {'kept': pos, 'obs': ind, 'flag': bool(flag), 'continuous': bool(continuous)}


def direct_case(chk, drv, df, nm, dc, dm, bo, case):
    """one direct call: K against the regenerated code; D = the documented row filter, and the same answer after the
    caller deleted the rows the function is documented to drop (the incomplete rows decide nothing: not the retained
    rows, not the indicator, not miss_flag, not whether the outcome counts as continuous, not the exposure guard)"""
    st, got = direct_call(df, nm, dc, dm, bo)
    sub = list(df.columns) if dc else [c for c in df.columns if c != 'Y']
    keep = df.dropna(subset=sub)
    if drv is not None:
        okc = ~df[[c for c in df.columns if c not in ('A', 'Y')]].isna().any(axis=1).values
        raw = dict(e=','.join('_' if np.isnan(v) else rq(float(v)) for v in df['A'].tolist()),
                   l=','.join('0' if b else '_' for b in okc.tolist()),
                   y=','.join('_' if np.isnan(v) else rq(float(v)) for v in df['Y'].tolist()))
        rep, _ = drv.ask('c10gen', dc=dc, dm=dm, bo=bo, **raw)
        if st == 'err':
            ok = rep['status'] == 'ok' and rep['raise'] == '1' and isinstance(got, ValueError)
        else:
            ok = rep['status'] == 'ok' and rep['raise'] == '0' and c09_ints(rep['kept']) == got['kept'] and \
                c09_ints(rep['obs']) == got['obs'] and (rep['miss'] == '1') == got['flag'] and \
                (rep['cont'] == '1') == got['continuous']
        chk.k(ok, 'check_input_data called directly = the code regenerated from it (raise / retained rows / '
              'indicator column / miss_flag / continuous)',
              dict(case, python=repr(got)[:200] if st == 'err' else got, generated=rep))
    if st == 'ok':
        obs = [1] * len(keep) if dc else [int(v) for v in keep['Y'].notna()]
        exp = {'kept': [int(v) for v in df.index.get_indexer(keep.index)], 'obs': obs,
               'flag': (not dc) and (0 in obs)}
        chk.d(all(got[k] == exp[k] for k in exp), 'check_input_data called directly: retains exactly the rows it '
              'documents (%s), in the caller\'s order, each with its own observed-outcome indicator, and the matching '
              'miss_flag' % ('complete rows' if dc else 'everything but the outcome present'),
              dict(case, got=got, want=exp))
    st2, got2 = direct_call(keep, nm, dc, dm, bo)
    if st == 'ok' and st2 == 'ok':
        a = dict(got, kept=[df.index[i] for i in got['kept']] if got['kept'] is not None else None)
        b = dict(got2, kept=[keep.index[i] for i in got2['kept']] if got2['kept'] is not None else None)
        same = a == b
    else:
        same = st == st2 and type(got) is type(got2)
    chk.d(same, 'check_input_data called directly: incomplete rows do not influence what it returns (retained rows, '
          'indicator, miss_flag, outcome type, binary-exposure guard = those after deleting them)',
          dict(case, on_data=repr(got)[:300], after_deletion=repr(got2)[:300]))


def gen_stream(chk, drv, rng, tier):
    """`zepid.causal.utils.check_input_data` called directly, with each of the eight flag combinations, on small frames
    with a numeric exposure column (mostly 0/1, sometimes another value: the binary-exposure guard), a binary or
    continuous outcome or a 0/1 outcome with one or two other values (a count, a code), NaN anywhere, one of the
    row-label shapes and a naming of the columns (draw_naming).  K: against the regenerated `Gen.check_input_data`
    (driver op c10gen): raises or not, retained labels in order, indicator column, miss_flag, continuous.  D: see
    direct_case"""
    n_frames = 12 if tier == 'quick' else 60
    for k in range(n_frames):
        n = int(rng.integers(1, 14))
        cont = bool(rng.integers(0, 2))
        ev = rng.choice([0.0, 1.0], size=n)
        odd = k % 3 == 0
        if odd:
            ev[int(rng.integers(0, n))] = float(rng.choice([2.0, 0.5, -1.0]))
        yv = rng.normal(size=n).round(2) if cont else rng.choice([0.0, 1.0], size=n)
        oddy = (not cont) and k % 2 == 1
        if oddy:
            yv[rng.integers(0, n, size=int(rng.integers(1, 3)))] = float(rng.choice([2.0, 3.0, 0.5, -1.0]))
        df = pd.DataFrame({'L1': rng.integers(0, 3, n).astype(float), 'A': ev, 'L2': rng.integers(0, 2, n).astype(float),
                           'Y': yv})
        pm = float(rng.choice([0.0, 0.15, 0.4]))
        for c in df.columns:
            df.loc[rng.uniform(size=n) < pm, c] = np.nan
        shape = INDEX_SHAPES[k % len(INDEX_SHAPES)]
        df = reshape_index(df, 'shifted' if shape == 'string' else shape, rng)
        scheme, nm = draw_naming(rng, ['L1', 'L2'])
        nm = {c: v for c, v in nm.items() if c in df.columns}
        for dc in (0, 1):
            for dm in (0, 1):
                for bo in (0, 1):
                    case = {'kind': 'direct', 'frame': df.to_dict('list'), 'index': [int(v) for v in df.index],
                            'names': nm, 'drop_censoring': dc, 'drop_missing': dm, 'binary_exposure_only': bo}
                    chk.case(case, ('gen', k, dc, dm, bo) if (df.isna().any().any() or odd) else None)
                    chk.count('generated-check_input_data/dc=%d/bo=%d/%s' % (dc, bo, 'odd-exposure' if odd else 'binary'))
                    chk.count('generated-check_input_data/naming/' + scheme)
                    chk.count('generated-check_input_data/outcome/' + ('continuous' if cont else '0-1 with other values'
                                                                       if oddy else '0-1'))
                    direct_case(chk, drv, df, nm, dc, dm, bo, case)


def measures_recheck(chk, rng):
    """(e), light: the C07 check covers the effect-measure classes; one frame per class here"""
    import zepid
    n = 60
    df = pd.DataFrame({'exp': rng.integers(0, 2, n).astype(float), 'dis': rng.integers(0, 2, n).astype(float),
                       't': rng.uniform(1, 5, n)})
    df.loc[rng.uniform(size=n) < 0.15, 'exp'] = np.nan
    df.loc[rng.uniform(size=n) < 0.15, 'dis'] = np.nan
    me = int((df['exp'].isna() & ~df['dis'].isna()).sum())
    md = int((~df['exp'].isna() & df['dis'].isna()).sum())
    med = int((df['exp'].isna() & df['dis'].isna()).sum())
    cc = df.dropna(subset=['exp', 'dis'])
    for name in ('RiskRatio', 'RiskDifference', 'OddsRatio', 'NNT', 'IncidenceRateRatio', 'IncidenceRateDifference'):
        rate = name.startswith('Incidence')
        res = []
        for d in (df, cc):
            obj = getattr(zepid, name)()
            obj.fit(d, exposure='exp', outcome='dis', **({'time': 't'} if rate else {}))
            res.append(obj)
        case = {'estimator': name, 'n': n, 'missing': [me, md, med]}
        chk.case(case, ('measures', name, me, md, med))
        chk.count('measures/' + name)
        a, b = res[0].results.select_dtypes('number'), res[1].results.select_dtypes('number')
        chk.d(bool(np.allclose(a.values, b.values, rtol=1e-12, atol=0, equal_nan=True)),
              '%s ignores rows missing exposure or outcome' % name, case)
        chk.d((res[0]._missing_e, res[0]._missing_d, res[0]._missing_ed) == (me, md, med),
              '%s counts rows missing exposure / outcome / both' % name, case)


MAIN = ['IPTW', 'StochasticIPTW', 'TimeFixedGFormula', 'AIPTW', 'TMLE', 'StochasticTMLE', 'GEstimationSNM',
        'SingleCrossfitAIPTW', 'DoubleCrossfitAIPTW', 'SingleCrossfitTMLE', 'DoubleCrossfitTMLE']


def run(chk, drv, rng, tier):
    reps = 1 if tier == 'quick' else 3
    k = 0
    for _ in range(reps):
        for ytype in (('binary', 'normal') if tier == 'quick' else ('binary', 'normal', 'poisson')):
            for ymiss in (None, 'mcar', 'mar'):
                for xmiss in (None, 'mcar', 'mar'):
                    # one (quick) / two (thorough) cross-fit classes per data set, in rotation: every class meets every
                    # outcome type with incomplete rows in each run
                    cls = MAIN[:7] + [MAIN[7 + k % 4]] + ([MAIN[7 + (k + 1 + k // 4) % 4]] if tier == 'thorough' else [])
                    k += 1
                    one_dataset(chk, drv, rng, ytype, ymiss, xmiss, tier, cls)
        for _ in range(2):
            one_survival(chk, drv, rng, tier)
        measures_recheck(chk, rng)
    gen_stream(chk, drv, rng, tier)


def replay(rec):
    import common
    n = 0
    for f in rec.get('failures', []):
        c = f['case']
        o, data = c['options'] if 'options' in c else None, c.get('data', {})
        chk = common.Check('C10', 'quick', rec.get('seed', 0))
        with common.quiet():
            if c.get('kind') == 'direct':
                df = pd.DataFrame(c['frame'], index=c['index']).astype(float)
                direct_case(chk, None, df, c['names'], c['drop_censoring'], c['drop_missing'],
                            c['binary_exposure_only'], dict(c))
            elif data.get('kind') == 'survival':
                one_survival(chk, None, None, 'quick', seed=data['data_seed'])
            elif 'data_seed' in data:
                one_dataset(chk, None, None, data['outcome'], data['ymiss'], data['xmiss'], 'quick', [c['estimator']],
                            only=o, seed=data['data_seed'], shape=data.get('index'))
            else:
                print('  (effect-measure re-check: rerun with the recorded seed)')
        for g in chk.d_fail:
            print(g['gate'], g['what'], '| options', o, '| on data', g['case'].get('on_data'), '| after deletion',
                  g['case'].get('after_deletion'), '| complete case', g['case'].get('complete_case'), '| want',
                  g['case'].get('want'), '| built-in', g['case'].get('built_in'), '| fresh', g['case'].get('fresh_object'),
                  '| mismatch',
                  g['case'].get('mismatch'), g['case'].get('error'))
        n += len(chk.d_fail)
    print('failures reproduced:', n)
    return 1 if n else 0
