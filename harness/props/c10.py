"""C10 -- incomplete rows are handled exactly as documented (check_input_data and every class built on it; the
effect-measure classes are covered by C07 and re-checked lightly here)."""
from fractions import Fraction

import numpy as np
import pandas as pd
import statsmodels.api as sm

import gen
from common import rq, enc_list, close
from props import c09

REQUIRED = ['drop_idempotent', 'est_eq_after_deletion', 'incomplete_rows_irrelevant', 'drop_all_eq_complete_case',
            'miss_flag_spec', 'outcome_fit_on_observed', 'std_missing_form', 'iptw_missing_saturated',
            'gformula_predict_missing', 'tmle_plugin_missing_partial', 'tmle_missing_saturated', 'measures_ignore_and_count']
RULE = ('random categorical data sets (1-3 covariates, <= 8 strata, positivity by construction among the complete '
        'rows; outcome binary / normal / count) with outcome missingness none / MCAR / depending on A and L, to which '
        'incomplete rows are added (none / MCAR / selected depending on A and L): copies of rows with the exposure, a '
        'covariate, both, and optionally also the outcome blanked; rows shuffled.  Every class built on '
        'check_input_data is run on the data, on the data with the exposure/covariate-incomplete rows deleted (labels '
        'kept or reset) and, for the drop-everything classes, on the complete cases.  Cells: IPTW {missing ignored, '
        'missing_model} x standardize, StochasticIPTW, TimeFixedGFormula predict_missing x standardize, '
        'SurvivalGFormula, AIPTW, TMLE, StochasticTMLE, GEstimationSNM, the four cross-fit estimators (GLM learner). '
        'distinct = (data seed, class, options); non-trivial = the data set contains rows missing exposure or '
        'covariates, or missing outcomes whose strata distribution changes the closed form (all-retained-rows '
        'standardization differs from the complete-case one)')
ASSUMPTIONS = ['statsmodels GLM/GEE are deterministic functions of the rows they are given (same rows in the same order '
               '-> bit-identical fits); measured: results on the data and on the deleted data agree to 1e-12',
               'statsmodels GLM solves the score equations of saturated models (reference fit per data set: gate H)',
               'patsy drops rows with a NaN in any model variable (this is how TimeFixedGFormula restricts its outcome '
               'model to observed outcomes); observed by wrapping smf.glm at run time',
               'TMLE is compared with the closed form for a binary outcome and for a continuous outcome with '
               'continuous_bound=0 (the documented clipping changes a continuous outcome, see C01)']

XTOL = dict(rtol=1e-12, atol=1e-14)     # same rows reach the same fits: identical up to the last bits
CTOL = dict(rtol=1e-6, atol=1e-8)       # closed form vs implementation: IRLS convergence error
KTOL = dict(rtol=1e-9, atol=1e-11)


# ------------------------------------------------------------------ data
def make_data(seed, ytype, ymiss, xmiss, weights=False):
    rng = np.random.default_rng(seed)
    df, covs = gen.cat_dataset(rng, outcome=ytype, missing=ymiss, max_strata=8, weights=weights,
                               n_extra=int(rng.integers(150, 400)))    # large enough for 3-way cross-fitting
    if xmiss:
        n_add = int(rng.integers(6, 40))
        if xmiss == 'mcar':
            pick = rng.integers(0, len(df), size=n_add)
        else:   # incomplete rows arise preferentially in some (A, L) cells
            sid = gen.strata_ids(df, covs)
            pr = 0.05 + ((sid * 7 + df['A'].values * 3) % 5) / 4.0
            pick = rng.choice(len(df), size=n_add, p=pr / pr.sum())
        extra = df.iloc[pick].copy().astype({c: float for c in covs + ['A']})
        pats = rng.choice(['A', 'L', 'AL', 'AY', 'LY', 'ALY', 'Lall'], size=n_add)
        for j, pat in enumerate(pats):
            if 'A' in pat:
                extra.iloc[j, extra.columns.get_loc('A')] = np.nan
            if pat == 'Lall':
                for c in covs:
                    extra.iloc[j, extra.columns.get_loc(c)] = np.nan
            elif 'L' in pat:
                extra.iloc[j, extra.columns.get_loc(covs[int(rng.integers(0, len(covs)))])] = np.nan
            if 'Y' in pat:
                extra.iloc[j, extra.columns.get_loc('Y')] = np.nan
        df = pd.concat([df.astype({c: float for c in covs + ['A']}), extra], ignore_index=True)
        df = df.iloc[rng.permutation(len(df))].reset_index(drop=True)
    else:
        df = df.astype({c: float for c in covs + ['A']})
    return df, covs


def variants(df, covs, rng, wcol=None):
    """(deleted: exposure/covariate-incomplete rows removed, labels kept or reset; complete cases)"""
    sub = covs + ['A'] + ([wcol] if wcol else [])
    dele = df.dropna(subset=sub)
    if rng.uniform() < 0.5:
        dele = dele.reset_index(drop=True)
    return dele, df.dropna().reset_index(drop=True)


def enc_raw(df, covs, wcol=None):
    """driver arguments a= l= y= [w=] (`_` = missing; l = id of the covariate pattern)"""
    okc = ~df[covs].isna().any(axis=1).values
    ids = np.full(len(df), -1)
    ids[okc] = gen.strata_ids(df.loc[okc], covs)
    kw = dict(a=','.join('_' if np.isnan(v) else str(int(v)) for v in df['A'].tolist()),
              l=','.join('_' if v < 0 else str(int(v)) for v in ids.tolist()),
              y=','.join('_' if np.isnan(v) else rq(float(v)) for v in df['Y'].tolist()))
    if wcol:
        kw['w'] = enc_list(df[wcol].tolist(), lambda v: str(int(v)))
    return kw


# ------------------------------------------------------------------ spying on the fits (no /repo edit)
class GlmSpy:
    """records formula, number of rows and response of every smf.glm(...) made while active"""

    def __enter__(self):
        import statsmodels.formula.api as smf
        self.smf, self.orig, self.calls = smf, smf.glm, []

        def spy(formula, data, *a, **k):
            m = self.orig(formula, data, *a, **k)
            self.calls.append({'formula': formula, 'rows_in': int(len(data)), 'endog': np.asarray(m.endog).copy()})
            return m
        smf.glm = spy
        return self

    def __exit__(self, *exc):
        self.smf.glm = self.orig
        return False


# ------------------------------------------------------------------ runners (estimates + formatted-data observables)
def observables(e_df, flag):
    d = {'kept': [int(v) for v in e_df['index'].tolist()], 'flag': bool(flag)}
    if '__missing_indicator__' in e_df.columns:
        d['obs'] = [int(v) for v in e_df['__missing_indicator__'].tolist()]
    return d


def run_tmle(df, covs, o):
    from zepid.causal.doublyrobust import TMLE
    tm, om = c09.specs(covs, o['spec'])
    t = TMLE(df[covs + ['A', 'Y']], exposure='A', outcome='Y', continuous_bound=o.get('cb', 0.0005))
    t.exposure_model(tm, print_results=False)
    if o['miss'] == 'mm':
        t.missing_model(om, print_results=False)
    yt = o['ytype']
    if yt == 'binary':
        t.outcome_model(om, print_results=False)
    else:
        t.outcome_model(om, print_results=False, continuous_distribution='poisson' if yt == 'poisson' else 'gaussian')
    t.fit()
    est = {'RD': t.risk_difference, 'RR': t.risk_ratio, 'OR': t.odds_ratio} if yt == 'binary' else \
        {'ATE': t.average_treatment_effect}
    return {k: float(v) for k, v in est.items()}, observables(t.df, t._miss_flag)


def run_stmle(df, covs, o):
    from zepid.causal.doublyrobust import StochasticTMLE
    tm, om = c09.specs(covs, o['spec'])
    s = StochasticTMLE(df[covs + ['A', 'Y']], exposure='A', outcome='Y')
    s.exposure_model(tm)
    s.outcome_model(om)
    s.fit(p=o['p'], samples=o['samples'], seed=o['seed'])
    return {'marginal': float(s.marginal_outcome)}, observables(s.df, s._miss_flag)


def run_crossfit(df, covs, o):
    import zepid.causal.doublyrobust as dr
    from zepid.superlearner import GLMSL
    f = sm.families.family.Binomial()
    e = getattr(dr, o['cls'])(df[covs + ['A', 'Y']], exposure='A', outcome='Y')
    e.exposure_model(' + '.join(covs), GLMSL(f))
    # cross-fit TMLE rescales a continuous outcome to [0, 1]: a (quasi-)binomial GLM keeps predictions inside
    e.outcome_model('A + ' + ' + '.join(covs), GLMSL(f) if (o['ytype'] == 'binary' or 'TMLE' in o['cls']) else
                    GLMSL(sm.families.family.Gaussian()))
    e.fit(n_splits=3 if 'Double' in o['cls'] else 2, n_partitions=2, random_state=o['seed'])
    est = {'RD': e.risk_difference, 'RR': e.risk_ratio} if o['ytype'] == 'binary' else {'ACE': e.ace}
    return {k: float(v) for k, v in est.items()}, observables(e.df, e._miss_flag)


def run_c09(which):
    """IPTW / StochasticIPTW / TimeFixedGFormula / AIPTW / GEstimationSNM through the runners of the C09 check"""
    def f(df, covs, o):
        # formatted-data observables from a bare instance of the class (public constructor, nothing fitted)
        import zepid.causal.ipw as ipw
        import zepid.causal.gformula as gf
        import zepid.causal.doublyrobust as dr
        import zepid.causal.snm as snm
        cols = covs + ['A', 'Y'] + ([o['w']] if o.get('w') else [])
        if which == 'IPTW':
            b = ipw.IPTW(df[cols], treatment='A', outcome='Y', weights=o.get('w'))
            ob = observables(b.df, b._miss_flag)
        elif which == 'StochasticIPTW':
            b = ipw.StochasticIPTW(df[cols], treatment='A', outcome='Y', weights=o.get('w'))
            ob = observables(b.df, b._miss_flag)
        elif which == 'TimeFixedGFormula':
            b = gf.TimeFixedGFormula(df[cols], exposure='A', outcome='Y', outcome_type=o['ytype'], weights=o.get('w'))
            ob = observables(b.gf, b._miss_flag)
        elif which == 'AIPTW':
            b = dr.AIPTW(df[cols], exposure='A', outcome='Y', weights=o.get('w'))
            ob = observables(b.df, b._miss_flag)
        else:
            b = snm.GEstimationSNM(df[cols], exposure='A', outcome='Y', weights=o.get('w'))
            ob = observables(b.df, b._miss_flag)
        est, nu, _ = c09.RUNNERS[which](df, covs, o.get('w'), o)
        ob['nuisance'] = nu
        return est, ob
    return f


RUN = {'IPTW': run_c09('IPTW'), 'StochasticIPTW': run_c09('StochasticIPTW'),
       'TimeFixedGFormula': run_c09('TimeFixedGFormula'), 'AIPTW': run_c09('AIPTW'),
       'GEstimationSNM': run_c09('GEstimationSNM'), 'TMLE': run_tmle, 'StochasticTMLE': run_stmle,
       'SingleCrossfitAIPTW': run_crossfit, 'DoubleCrossfitAIPTW': run_crossfit, 'SingleCrossfitTMLE': run_crossfit,
       'DoubleCrossfitTMLE': run_crossfit}
DROP_ALL = {'StochasticIPTW', 'StochasticTMLE', 'SingleCrossfitAIPTW', 'DoubleCrossfitAIPTW', 'SingleCrossfitTMLE',
            'DoubleCrossfitTMLE', 'SurvivalGFormula'}
OUTCOME_MODEL_KEEPERS = {'TimeFixedGFormula', 'AIPTW', 'TMLE'}      # keep missing-outcome rows and fit an outcome model


def cells(which, ytype, has_ymiss, covs, rng, tier):
    spec = lambda: str(rng.choice(['sat', 'main']))
    modes = ['cc', 'mm'] if has_ymiss else ['none']
    tgts = ('population', 'exposed', 'unexposed')
    out = []
    if which == 'IPTW':
        for mm in modes:
            for tgt in (tgts if tier == 'thorough' else (str(rng.choice(tgts)),)):
                out.append(dict(stab=bool(rng.integers(0, 2)), tgt=tgt, miss=mm, spec=spec(), ytype=ytype))
        if has_ymiss:      # the closed-form cell: saturated treatment + missingness models, every target
            for tgt in tgts:
                out.append(dict(stab=bool(rng.integers(0, 2)), tgt=tgt, miss='mm', spec='sat', ytype=ytype))
    elif which == 'StochasticIPTW':
        out.append(dict(plan='marginal', p=[float(rng.choice([0.25, 0.6]))], spec=spec(), ytype=ytype))
    elif which == 'TimeFixedGFormula':
        for pm in ((True, False) if has_ymiss else (True,)):
            for tgt in (tgts if tier == 'thorough' else (str(rng.choice(tgts)),)):
                out.append(dict(tgt=tgt, treatment=str(rng.choice(['all', 'none'])), pm=pm, spec='sat', ytype=ytype))
                out.append(dict(tgt=tgt, treatment="g['%s']==0" % covs[0], pm=pm, spec='main', ytype=ytype))
    elif which == 'AIPTW':
        for mm in modes:
            out.append(dict(miss=mm, spec=spec(), ytype=ytype))
    elif which == 'GEstimationSNM':
        for mm in modes:
            out.append(dict(snm=str(rng.choice(['A', 'A + A:L1'])), miss=mm, stab=bool(rng.integers(0, 2)), spec=spec(),
                            ytype=ytype))
    elif which == 'TMLE':
        for mm in modes:
            out.append(dict(miss=mm, spec=spec(), ytype=ytype))
        if has_ymiss:
            out.append(dict(miss='mm', spec='sat', ytype=ytype, cb=0.0))
    elif which == 'StochasticTMLE':
        out.append(dict(p=float(rng.choice([0.3, 0.7])), samples=15, seed=int(rng.integers(0, 10 ** 6)), spec=spec(),
                        ytype=ytype))
    else:
        out.append(dict(cls=which, seed=int(rng.integers(0, 10 ** 6)), ytype=ytype))
    return out


# ------------------------------------------------------------------ checks
def same_est(a, b, tol):
    return set(a) == set(b) and all(close(a[k], b[k], **tol) for k in a)


def spy_checks(chk, which, spy, df, covs, ob, case):
    """(c): which rows reached the fits"""
    kept = df.loc[ob['kept']]
    n_kept, y_obs = len(kept), kept['Y'].dropna().values
    for c in spy.calls:
        lhs = c['formula'].split('~')[0].strip()
        if lhs == 'Y' and which in OUTCOME_MODEL_KEEPERS:
            ok = len(c['endog']) == len(y_obs) and not np.isnan(c['endog']).any()
            if ok and which != 'TMLE':         # TMLE rescales a continuous outcome before fitting
                ok = bool(np.array_equal(c['endog'], y_obs))
            chk.d(ok, '%s: outcome model fitted on exactly the retained rows with an observed outcome' % which,
                  dict(case, fit_rows=len(c['endog']), observed=len(y_obs)))
        elif lhs in ('A', '__missing_indicator__') and which in ('IPTW', 'AIPTW', 'TMLE'):
            chk.d(len(c['endog']) == n_kept, '%s: %s model fitted on exactly the retained rows (missing outcomes '
                  'included, incomplete rows excluded)' % (which, 'treatment' if lhs == 'A' else 'missingness'),
                  dict(case, fit_rows=len(c['endog']), retained=n_kept))


def model_checks(chk, drv, which, o, df, covs, ob, est, case, dc):
    """K: check_input_data vs the Lean model; estimator model composed with it, on the data and after deletion"""
    raw = enc_raw(df, covs)
    rep, _ = drv.ask('c10', est='check', dc=int(dc), **raw)
    ok = rep['status'] == 'ok' and c09_ints(rep['kept']) == ob['kept'] and (rep['miss'] == '1') == ob['flag'] and \
        ('obs' not in ob or c09_ints(rep['obs']) == ob['obs']) and rep['same'] == '1'
    chk.k(ok, '%s: rows kept / observed-outcome indicator / miss_flag of check_input_data = model' % which,
          dict(case, model={k: v for k, v in rep.items() if len(v) < 80}))
    nu = ob.get('nuisance')
    if which == 'IPTW' and o.get('msm') != 'modifier':
        rep, _ = drv.ask('c10', est='iptw', dc=0, stab=int(o['stab']), tgt=o['tgt'], n=c09.encv(nu['n']),
                         d=c09.encv(nu['d'], 0.5), mw=c09.encv(nu['mw']), **raw)
        ok = rep['status'] == 'ok' and rep['same'] == '1'
        if ok:
            m1, m0 = Fraction(rep['m1']), Fraction(rep['m0'])
            me = {'binary': {'RD': m1 - m0, 'RR': m1 / m0, 'OR': (m1 / (1 - m1)) / (m0 / (1 - m0)), 'm0': m0},
                  'normal': {'ATE': m1 - m0, 'm0': m0}, 'poisson': {'ratio': m1 / m0, 'm0': m0}}[o['ytype']]
            ok = same_est({k: float(v) for k, v in me.items()}, est, KTOL)
        chk.k(ok, 'IPTW: weight formula + MSM on check_input(data) = model, and = model after deletion', case)
    if which == 'TimeFixedGFormula':
        rep, _ = drv.ask('c10', est='gform', dc=0, tgt=o['tgt'], pm=int(o['pm']), q1=c09.encv(nu['q']),
                         q0=c09.encv(nu['q']), **raw)
        ok = rep['status'] == 'ok' and rep['same'] == '1' and close(float(Fraction(rep['g1'])), est['marginal'], **KTOL)
        chk.k(ok, 'TimeFixedGFormula: marginal over the retained target rows = model, and = model after deletion', case)


def c09_ints(s):
    return [] if s in ('', '[]') else [int(t) for t in s.split(',')]


def one_dataset(chk, drv, rng, ytype, ymiss, xmiss, tier, classes, only=None, seed=None):
    seed = int(rng.integers(0, 2 ** 31)) if seed is None else seed
    df, covs = make_data(seed, ytype, ymiss, xmiss)
    vr = np.random.default_rng(seed + 7)
    dele, cc = variants(df, covs, vr)
    n_inc = int(len(df) - len(df.dropna(subset=covs + ['A'])))
    cf_all, cf_cc = gen.closed_form(dele, covs), gen.closed_form(cc, covs)
    shifts = abs(float(cf_all[('population', 1)] - cf_cc[('population', 1)])) > 1e-9
    rec = gen.describe(df, covs, outcome=ytype, ymiss=ymiss, xmiss=xmiss, data_seed=seed, incomplete_rows=n_inc,
                       retained=int(len(dele)), complete_cases=int(len(cc)))
    chk.count('data/y=%s/x=%s/%s' % (ymiss, xmiss, ytype))
    # gate H: reference saturated treatment fit on the retained rows = cell proportions
    import statsmodels.formula.api as smf
    chk.h_checked += 1
    ref = smf.glm('A ~ ' + gen.sat_cov(covs), dele, family=sm.families.family.Binomial()).fit().predict(dele)
    exact = dele.groupby(list(covs))['A'].transform('mean')
    if not np.allclose(ref, exact, rtol=0, atol=1e-7):
        chk.discard('reference saturated fit missed the cell proportions by > 1e-7')
        return
    if drv is not None:     # the model's closed form on check_input(data), before and after deletion, vs Fractions
        r, _ = drv.ask('c10', est='std', dc=0, **enc_raw(df, covs))
        ok = r['status'] == 'ok' and r['same'] == '1' and all(
            Fraction(r['%s%d' % (t, a)]) == cf_all[(t, a)] for t in ('population', 'exposed', 'unexposed') for a in (0, 1))
        chk.k(ok, 'Lean std on check_input(data) == after deletion (exact) == independent closed form', {'data': rec})
    has_ymiss = bool(dele['Y'].isna().any())
    for which in classes:
        opts = [only] if only is not None else cells(which, ytype, has_ymiss, covs, rng, tier)
        for o in opts:
            case = {'estimator': which, 'options': o, 'data': rec}
            key = (seed, which, tuple(sorted((k, str(v)) for k, v in o.items())))
            chk.case(case, key if (n_inc > 0 or shifts) else None, sample=case if chk.evals % 37 == 0 else None)
            chk.count('%s/%s' % (which, '/'.join('%s=%s' % (k, v) for k, v in sorted(o.items())
                                                 if k in ('miss', 'tgt', 'pm', 'snm', 'cb'))))
            try:
                with GlmSpy() as spy:
                    e1, ob = RUN[which](df, covs, o)
            except (ValueError, np.linalg.LinAlgError, FloatingPointError) as ex:
                # the estimator itself cannot be computed on this data set (e.g. separation inside a cross-fit
                # split): the property still demands the same behaviour after deletion
                try:
                    RUN[which](dele, covs, o)
                    same_err = False
                except type(ex):
                    same_err = True
                chk.d(same_err, '%s: raises on the data iff it raises after deleting the incomplete rows' % which,
                      dict(case, error=repr(ex)[:200]))
                if which in DROP_ALL:       # ... and iff it raises on the complete cases
                    try:
                        RUN[which](cc, covs, o)
                        cc_err = False
                    except type(ex):
                        cc_err = True
                    chk.d(cc_err, '%s: drop-everything estimator = its complete-case result (raises on the data, '
                          'runs on the complete cases)' % which, dict(case, error=repr(ex)[:200]))
                chk.discard('%s could not be computed on the generated data (same error after deletion)' % which)
                continue
            e2, _ = RUN[which](dele, covs, o)
            case['on_data'], case['after_deletion'] = e1, e2
            # (a)
            chk.d(same_est(e1, e2, XTOL), '%s: rows missing exposure/covariates do not influence the result '
                  '(= result after deleting them)' % which, case)
            # (b)
            dc = which in DROP_ALL
            if dc:
                e3, _ = RUN[which](cc, covs, o)
                case['complete_case'] = e3
                chk.d(same_est(e1, e3, XTOL), '%s: drop-everything estimator = its complete-case result' % which, case)
                chk.d(not ob['flag'] and len(ob['kept']) == len(cc), '%s: retains exactly the complete cases' % which,
                      case)
            # (c)
            spy_checks(chk, which, spy, df, covs, ob, case)
            # (d) saturated treatment + missingness models: exact closed form over all retained rows
            if which == 'IPTW' and o['miss'] == 'mm' and o['spec'] == 'sat':
                m1, m0 = cf_all[(o['tgt'], 1)], cf_all[(o['tgt'], 0)]
                want = {'binary': {'RD': m1 - m0, 'RR': m1 / m0, 'OR': (m1 / (1 - m1)) / (m0 / (1 - m0)), 'm0': m0},
                        'normal': {'ATE': m1 - m0, 'm0': m0}, 'poisson': {'ratio': m1 / m0, 'm0': m0}}[ytype]
                want = {k: float(v) for k, v in want.items()}
                chk.d(same_est(e1, want, CTOL), 'IPTW (saturated treatment + missingness models): observed-outcome '
                      'stratum means standardized over all retained rows', dict(case, want=want))
            if which == 'TMLE' and o['miss'] == 'mm' and o['spec'] == 'sat' and (ytype == 'binary' or o.get('cb') == 0.0):
                m1, m0 = cf_all[('population', 1)], cf_all[('population', 0)]
                want = {'RD': m1 - m0, 'RR': m1 / m0, 'OR': (m1 / (1 - m1)) / (m0 / (1 - m0))} if ytype == 'binary' \
                    else {'ATE': m1 - m0}
                want = {k: float(v) for k, v in want.items()}
                chk.d(same_est(e1, want, dict(rtol=1e-6, atol=1e-7)), 'TMLE (saturated models): observed-outcome '
                      'stratum means standardized over all retained rows', dict(case, want=want))
            if which == 'TimeFixedGFormula' and o['spec'] == 'sat' and o['treatment'] in ('all', 'none'):
                a = 1 if o['treatment'] == 'all' else 0
                cfp = cf_all if o['pm'] else cf_cc   # predict_missing=False: target = rows with an observed outcome
                chk.d(close(e1['marginal'], float(cfp[(o['tgt'], a)]), **CTOL), 'TimeFixedGFormula: predict_missing '
                      'switch selects all retained rows / observed-outcome rows as the target', case)
            if drv is not None:
                model_checks(chk, drv, which, o, df, covs, ob, e1, case, dc)


def one_survival(chk, drv, rng, tier, seed=None):
    seed = int(rng.integers(0, 2 ** 31)) if seed is None else seed
    df = c09.make_survival(seed).astype({'A': float, 'L1': float, 'L2': float, 'Y': float})
    r = np.random.default_rng(seed + 3)
    for col, frac in (('A', 0.03), ('L1', 0.03), ('L2', 0.02), ('Y', 0.04)):
        df.loc[r.uniform(size=len(df)) < frac, col] = np.nan
    dele = df.dropna(subset=['A', 'L1', 'L2'])
    cc = df.dropna().reset_index(drop=True)
    rec = {'rows': int(len(df)), 'retained': int(len(cc)), 'data_seed': seed, 'kind': 'survival'}
    for tr in ('all', 'natural'):
        o = dict(treatment=tr, model='A + L1 + L2 + t')
        case = {'estimator': 'SurvivalGFormula', 'options': o, 'data': rec}
        chk.case(case, (seed, 'SGF', tr))
        chk.count('SurvivalGFormula/%s' % tr)
        e1, _, gf = c09.est_survival(df, 'w', o)
        e2, _, _ = c09.est_survival(dele, 'w', o)
        e3, _, _ = c09.est_survival(cc, 'w', o)
        case['on_data'], case['after_deletion'], case['complete_case'] = e1, e2, e3
        chk.d(same_est(e1, e2, XTOL), 'SurvivalGFormula: rows missing exposure/covariates do not influence the result',
              case)
        chk.d(same_est(e1, e3, XTOL) and len(gf) == len(cc), 'SurvivalGFormula: drop-everything estimator = its '
              'complete-case result', case)


def measures_recheck(chk, rng):
    """(e), light: the C07 check covers the effect-measure classes; one frame per class here"""
    import zepid
    n = 60
    df = pd.DataFrame({'exp': rng.integers(0, 2, n).astype(float), 'dis': rng.integers(0, 2, n).astype(float),
                       't': rng.uniform(1, 5, n)})
    df.loc[rng.uniform(size=n) < 0.15, 'exp'] = np.nan
    df.loc[rng.uniform(size=n) < 0.15, 'dis'] = np.nan
    me = int((df['exp'].isna() & ~df['dis'].isna()).sum())
    md = int((~df['exp'].isna() & df['dis'].isna()).sum())
    med = int((df['exp'].isna() & df['dis'].isna()).sum())
    cc = df.dropna(subset=['exp', 'dis'])
    for name in ('RiskRatio', 'RiskDifference', 'OddsRatio', 'NNT', 'IncidenceRateRatio', 'IncidenceRateDifference'):
        rate = name.startswith('Incidence')
        res = []
        for d in (df, cc):
            obj = getattr(zepid, name)()
            obj.fit(d, exposure='exp', outcome='dis', **({'time': 't'} if rate else {}))
            res.append(obj)
        case = {'estimator': name, 'n': n, 'missing': [me, md, med]}
        chk.case(case, ('measures', name, me, md, med))
        chk.count('measures/' + name)
        a, b = res[0].results.select_dtypes('number'), res[1].results.select_dtypes('number')
        chk.d(bool(np.allclose(a.values, b.values, rtol=1e-12, atol=0, equal_nan=True)),
              '%s ignores rows missing exposure or outcome' % name, case)
        chk.d((res[0]._missing_e, res[0]._missing_d, res[0]._missing_ed) == (me, md, med),
              '%s counts rows missing exposure / outcome / both' % name, case)


MAIN = ['IPTW', 'StochasticIPTW', 'TimeFixedGFormula', 'AIPTW', 'TMLE', 'StochasticTMLE', 'GEstimationSNM',
        'SingleCrossfitAIPTW', 'DoubleCrossfitAIPTW', 'SingleCrossfitTMLE', 'DoubleCrossfitTMLE']


def run(chk, drv, rng, tier):
    reps = 1 if tier == 'quick' else 3
    for _ in range(reps):
        for ytype in (('binary', 'normal') if tier == 'quick' else ('binary', 'normal', 'poisson')):
            for ymiss in (None, 'mcar', 'mar'):
                for xmiss in (None, 'mcar', 'mar'):
                    cls = MAIN if tier == 'thorough' else MAIN[:7] + [str(c) for c in rng.choice(MAIN[7:], 2, replace=False)]
                    one_dataset(chk, drv, rng, ytype, ymiss, xmiss, tier, cls)
        for _ in range(2):
            one_survival(chk, drv, rng, tier)
        measures_recheck(chk, rng)


def replay(rec):
    import common
    n = 0
    for f in rec.get('failures', []):
        c = f['case']
        o, data = c['options'] if 'options' in c else None, c.get('data', {})
        chk = common.Check('C10', 'quick', rec.get('seed', 0))
        with common.quiet():
            if data.get('kind') == 'survival':
                one_survival(chk, None, None, 'quick', seed=data['data_seed'])
            elif 'data_seed' in data:
                one_dataset(chk, None, None, data['outcome'], data['ymiss'], data['xmiss'], 'quick', [c['estimator']],
                            only=o, seed=data['data_seed'])
            else:
                print('  (effect-measure re-check: rerun with the recorded seed)')
        for g in chk.d_fail:
            print(g['gate'], g['what'], '| options', o, '| on data', g['case'].get('on_data'), '| after deletion',
                  g['case'].get('after_deletion'), '| complete case', g['case'].get('complete_case'), '| want',
                  g['case'].get('want'))
        n += len(chk.d_fail)
    print('failures reproduced:', n)
    return 1 if n else 0
