"""C12 -- longitudinal g-formula estimators reproduce the nonparametric g-formula.

IterativeCondGFormula (zepid/causal/gformula/TimeVary.py) and SurvivalGFormula (zepid/causal/gformula/TimeFixed.py).

K  the Lean model (lean/ZepidVerif/Model/Ice.lean, SurvGF.lean) is run by the native driver at exact rationals.  The
   regressions are not re-implemented: for the iterative estimator the model hands back the pseudo-outcome column of
   step k (op ice_q), the harness makes the *reference* GLM call with the documented arguments on that column, and
   the fitted values go back into the model as a table (op ice_fit); for the survival estimator the reference fit's
   per-record hazards under exposure 1 / 0 go in (op sgf_run).  marginal_outcome / predicted_df are compared.
D  the property's own predicates on the real code: estimate == stratified nonparametric g-formula from raw counts
   (op ice_npg, the spec of theorem ice_eq_npgformula, exact rationals); n identical plan rows == one plan row;
   one time point == TimeFixedGFormula; marginal curve == product-limit from counts (op sgf_pl); each person's
   cumulative incidence non-decreasing and within [0,1]; under EVERY plan (custom conditions included) and with or
   without weights= every person's curve == product-limit curve of the arm the plan assigns from (weighted) counts
   (sgf_closed_form, exact rationals) and one prediction per complete person-period; plans assigning the same arms
   give the same curves (theorem plan_same_assignment).
H  the reference fits reproduce cell means (saturated designs) / solve their score equations.
"""
import itertools
import math
from fractions import Fraction

import numpy as np
import pandas as pd

from common import rq, unrq, enc_list, dec_list

REQUIRED = ['ice_eq_npgformula', 'plan_rowwise_eq_single', 'ice_rowwise_eq_npgformula', 'npg_textbook_form',
            'plan_shape', 'ice_single_t_eq_timefixed',
            'survival_product_limit', 'cuminc_monotone_bounded', 'plan_same_assignment', 'custom_plan_named',
            'survgf_fit_generated', 'survgf_fit_generated_custom', 'ice_step_generated']
RULE = ('wide data: K in 1..3 time points, covariate arity 2 (3 for K<=2 in some sets), every history cell seeded so '
        'that the saturated designs have full rank, survival-type outcomes (missing after the first event; optionally '
        'treatments/covariates missing there too), four index styles, four column layouts (chronological, most recent '
        'visit first, blocks in descending order, shuffled: the stored order of the columns is not the order of the '
        '`exposures` / `outcomes` arguments); every static plan in {0,1}^K given as one row and '
        'as n rows (ndarray / list of lists); saturated models (full interactions of treatment and covariate history) '
        'for D, plus main-effects models, per-individual varying plans and censored / non-monotone outcome patterns for '
        'K only; malformed plans and outcome tables.  long data: person-period records with events, censoring, '
        'shuffled rows, non-contiguous ids, records with a missing value; hazard models saturated in arm x time '
        '(product-limit clause) and unsaturated with continuous covariates (monotone/bounded clause); plans '
        'all/none/natural and custom conditions drawn from a family (baseline covariate, observed treatment and its '
        'negation, time-varying "first k intervals", continuous threshold, nobody / everybody, compounds), judged '
        'against the product-limit curve of the arm the plan assigns to each record; the weights= option with '
        'frequency / fractional / per-person weights incl. weights of exactly zero on final and non-final records '
        '(product-limit from weighted counts).  distinct = (data hash, models, plan, plan form); non-trivial = at least one '
        'individual with an event before the last time point and both treatment values at every time')
ASSUMPTIONS = ['statsmodels GLM (Binomial, logit) on a design that contains the indicator of every cell returns the '
               'cell means of the (possibly fractional) outcome: measured on every reference fit, |fitted - cell mean| '
               '<= 1e-7, otherwise the case is discarded',
               'statsmodels GLM fitted values solve the score equations X\'(y - mu) = 0 (measured <= 1e-6 on '
               'unsaturated reference fits)',
               'pandas sort_values / groupby.cumprod / groupby.mean are modelled as stable sort by (id,time), running '
               'product within id, mean by time (exercised by K on shuffled tables)']

TOL = 1e-9        # model (exact rationals fed with float fitted values) vs implementation: only float rounding and
                  # the IRLS stopping rule separate them (measured agreement 1e-12..1e-15)
H_TOL = 1e-7


# ---------------------------------------------------------------------------------------------- wide data
def sat_model(k, nlev):
    """saturated in (A1..Ak, L1..Lk)"""
    terms = []
    for j in range(1, k + 1):
        terms.append('A%d' % j)
        terms.append('L%d' % j if nlev == 2 else 'C(L%d)' % j)
    return '*'.join(terms)


def main_model(k, nlev):
    return 'A%d + %s' % (k, 'L%d' % k if nlev == 2 else 'C(L%d)' % k) + (' + A%d' % (k - 1) if k > 1 else '')


WIDE_LAYOUTS = ('chrono', 'recent_first', 'blocks_desc', 'shuffled')


def lay_out(df, K, layout, rng):
    """the order in which the columns of a wide table are stored is the caller's business: the estimator is told which
    column is which time point through `exposures=` / `outcomes=` and the model strings, never through the position of
    a column in the frame.  'chrono' = L1 A1 Y1 L2 A2 Y2 ... (the bundled data), 'recent_first' = most recent visit
    first, 'blocks_desc' = all outcomes, all treatments, all covariates, each block most recent first, 'shuffled'."""
    named = [c for c in df.columns if c[1:].isdigit()]
    other = [c for c in df.columns if c not in named]
    if layout == 'chrono':
        return df
    if layout == 'recent_first':
        cols = [c + str(k) for k in range(K, 0, -1) for c in 'LAY']
    elif layout == 'blocks_desc':
        cols = [c + str(k) for c in 'YAL' for k in range(K, 0, -1)]
    else:
        cols = [named[i] for i in rng.permutation(len(named))]
        exp = [c for c in cols if c[0] == 'A']
        if K > 1 and exp == sorted(exp):       # make sure the stored order of the treatments is not the chronological one
            i, j = cols.index('A1'), cols.index('A%d' % K)
            cols[i], cols[j] = cols[j], cols[i]
    k = int(rng.integers(0, len(other) + 1)) if other else 0
    return df[other[:k] + cols + other[k:]]


def gen_wide(rng, K, nlev, n_random, style, seed_rows=1, layout=None):
    """style: 'surv' (missing exactly after the first event), 'surv_na' (treatments / covariates missing there too),
    'censor' (survival-type plus drop-out), 'holes' (outcomes missing at random); layout: see lay_out (drawn when None)"""
    hist = []
    # skeleton: every (treatment history, covariate history) at risk at every time
    for combo in itertools.product(itertools.product([0, 1], repeat=K), itertools.product(range(nlev), repeat=K)):
        for _ in range(seed_rows):
            a, l = combo
            y = [0.0] * (K - 1) + [float(rng.integers(0, 2))]
            hist.append((list(a), list(l), y))
    base = rng.uniform(0.15, 0.45)
    ba, bl = rng.uniform(-0.15, 0.1), rng.uniform(0.0, 0.3)
    for _ in range(n_random):
        a, l, y = [], [], []
        alive = True
        pa, pl = 0, 0
        for k in range(K):
            lk = int(rng.choice(nlev, p=None)) if rng.uniform() < 0.6 else min(nlev - 1, pl + pa)
            ak = int(rng.uniform() < 0.35 + 0.25 * (lk > 0) + 0.15 * pa)
            hz = min(0.9, max(0.05, base + ba * ak + bl * lk / max(1, nlev - 1)))
            yk = float(rng.uniform() < hz)
            a.append(ak)
            l.append(lk)
            y.append(yk if alive else np.nan)
            if alive and yk == 1:
                alive = False
            pa, pl = ak, lk
        hist.append((a, l, y))
    order = rng.permutation(len(hist))
    hist = [hist[i] for i in order]
    n = len(hist)
    cols = {}
    for k in range(K):
        cols['L%d' % (k + 1)] = [float(h[1][k]) for h in hist]
        cols['A%d' % (k + 1)] = [float(h[0][k]) for h in hist]
        cols['Y%d' % (k + 1)] = [h[2][k] for h in hist]
    df = pd.DataFrame(cols)
    if style == 'surv_na':
        for k in range(1, K):
            gone = df['Y%d' % (k + 1)].isna()
            df.loc[gone, 'A%d' % (k + 1)] = np.nan
            df.loc[gone, 'L%d' % (k + 1)] = np.nan
    elif style == 'censor':
        for i in range(n):
            if rng.uniform() < 0.25:
                c = int(rng.integers(1, K + 1))
                for k in range(c, K):
                    df.iloc[i, df.columns.get_loc('Y%d' % (k + 1))] = np.nan
    elif style == 'holes':
        for k in range(K):
            m = rng.uniform(size=n) < 0.15
            df.loc[m, 'Y%d' % (k + 1)] = np.nan
            if k > 0:       # some tables keep recording 0 after the event instead of a missing value
                z = df['Y%d' % (k + 1)].isna() & (rng.uniform(size=n) < 0.3)
                df.loc[z, 'Y%d' % (k + 1)] = 0.0
        # keep at most one event per row (recurrent outcomes are rejected by the constructor)
        ys = ['Y%d' % (k + 1) for k in range(K)]
        for i in np.where(df[ys].sum(axis=1, skipna=True) > 1)[0]:
            seen = False
            for c in ys:
                if df.iloc[i][c] == 1:
                    if seen:
                        df.iloc[i, df.columns.get_loc(c)] = 0.0
                    seen = True
    if K >= 2 and rng.uniform() < 0.3:
        z = rng.normal(size=n)
        z[rng.uniform(size=n) < 0.3] = np.nan
        df['Z_unused'] = z
    if layout is None:
        layout = WIDE_LAYOUTS[int(rng.integers(0, len(WIDE_LAYOUTS)))]
    df = lay_out(df, K, layout, rng)
    ix = int(rng.integers(0, 5))
    if ix == 4 and style == 'surv_na':
        ix = 2      # statsmodels' predict cannot re-insert rows with missing predictors under repeated labels
    if ix == 1:
        df.index = np.arange(n) + int(rng.integers(5, 500))
    elif ix == 2:
        df.index = rng.permutation(n) + int(rng.integers(0, 50))
    elif ix == 3:
        df.index = ['r%04d' % i for i in rng.permutation(n)]
    elif ix == 4:
        df.index = np.arange(n) // 2
    return df, ('range', 'shifted', 'permuted', 'string', 'repeated')[ix] + '/' + layout


def wide_args(df, K):
    A = df[['A%d' % (k + 1) for k in range(K)]].to_numpy(dtype=float).ravel()
    L = df[['L%d' % (k + 1) for k in range(K)]].to_numpy(dtype=float).ravel()
    Y = df[['Y%d' % (k + 1) for k in range(K)]].to_numpy(dtype=float).ravel()
    a = ['0' if math.isnan(v) else str(int(v)) for v in A]      # never consulted where missing (outcome missing too)
    l = ['0' if math.isnan(v) else str(int(v)) for v in L]
    y = ['_' if math.isnan(v) else str(int(v)) for v in Y]
    return dict(K=K, a=','.join(a) or '[]', l=','.join(l) or '[]', y=','.join(y) or '[]')


def plan_args(plan):
    """plan: ('single', [..]) or ('matrix', 2-d list)"""
    kind, p = plan
    if kind == 'single':
        return dict(plan='single', g=enc_list(p, lambda v: str(int(v))))
    flat = [v for row in p for v in row]
    w = len(p[0]) if len(p) else 0
    return dict(plan='matrix', gw=w, g=enc_list(flat, lambda v: str(int(v))))


def mu_args(tab, base):
    """tab: {(k, a-tuple, l-tuple): float}"""
    ks, cas, cls, vs = [], [], [], []
    for (k, a, l), v in sorted(tab.items()):
        ks.append(str(k))
        cas.append(str(sum(int(x) << j for j, x in enumerate(a))))
        cls.append(str(sum(int(x) * base ** j for j, x in enumerate(l))))
        vs.append(rq(v))
    if not ks:
        return {}
    return dict(mk=','.join(ks), ma=','.join(cas), ml=','.join(cls), mv=','.join(vs), mb=base)


def glm_binomial(formula, data):
    import warnings
    import statsmodels.api as sm
    import statsmodels.formula.api as smf
    with warnings.catch_warnings():
        warnings.simplefilter('ignore')
        return smf.glm(formula, data, family=sm.families.family.Binomial()).fit()


def reference_run(chk, drv, df, K, nlev, models, plan, saturated):
    """model run with reference fits.  Returns (status, value|None, hdev) ; status in ok / err / discard"""
    wa = wide_args(df, K)
    pa = plan_args(plan)
    tab = {}
    hdev = 0.0
    for k in range(K - 1, -1, -1):
        rep, line = drv.ask('ice_q', k=k, **wa, **pa, **mu_args(tab, nlev))
        if rep['status'] != 'ok':
            return ('err', rep, hdev)
        q = [None if t == '_' else unrq(t) for t in dec_list(rep['q'], str)]
        yk = 'Y%d' % (k + 1)
        dfk = df.reset_index(drop=True)      # the reference call is the harness's own: labels are irrelevant to it
        dfk[yk] = [np.nan if v is None else float(v) for v in q]
        # the Rat values are exactly floats (0, 1, or a fitted value that came from a float)
        try:
            fm = glm_binomial(yk + ' ~ ' + models[k], dfk)
        except Exception as e:   # reference call failed (e.g. perfect separation): not zEpid's fault
            return ('discard', 'reference fit raised %s' % type(e).__name__, hdev)
        used = dfk.loc[fm.fittedvalues.index]
        if saturated:
            keys = [c for j in range(1, k + 2) for c in ('A%d' % j, 'L%d' % j)]
            t = pd.DataFrame({'mu': fm.fittedvalues, 'y': used[yk]})
            grp = t.groupby([used[c] for c in keys])
            dev = float((grp['mu'].transform('max') - grp['y'].transform('mean')).abs().max())
            dev = max(dev, float((grp['mu'].transform('min') - grp['y'].transform('mean')).abs().max()))
            ncell = len(grp)
            if ncell != (2 * nlev) ** (k + 1):
                return ('discard', 'saturated design not of full rank (empty cell)', hdev)
        else:
            X = fm.model.exog
            dev = float(np.abs(X.T @ (fm.model.endog - fm.fittedvalues.values)).max()) / 10.0
        chk.h_checked += 1
        hdev = max(hdev, dev)
        if not (dev <= H_TOL):
            return ('discard', 'reference GLM does not satisfy its score equations to 1e-7', hdev)
        # table of predictions of this step's model on every (treatment history, covariate history)
        combos = list(itertools.product(itertools.product([0, 1], repeat=k + 1),
                                        itertools.product(range(nlev), repeat=k + 1)))
        nd = pd.DataFrame({**{'A%d' % (j + 1): [float(c[0][j]) for c in combos] for j in range(k + 1)},
                           **{'L%d' % (j + 1): [float(c[1][j]) for c in combos] for j in range(k + 1)}})
        pr = np.asarray(fm.predict(nd), dtype=float)
        for c, v in zip(combos, pr):
            tab[(k, c[0], c[1])] = float(v)
    rep, line = drv.ask('ice_fit', nexp=K, nout=K, spec=1, **wa, **pa, **mu_args(tab, nlev))
    if rep['status'] != 'ok':
        return ('err', rep, hdev)
    # ---- K: the statements regenerated from the text of IterativeCondGFormula.fit (Gen.ice_pseudo / ice_pred /
    # ice_marginal), run by the driver's own loop on the same inputs, return the model's value exactly (both are exact
    # rationals); the model's value is compared with the implementation by the caller
    rep2, _ = drv.ask('ice_fit_gen', **wa, **pa, **mu_args(tab, nlev))
    okg = rep2['status'] == 'ok' and rep2.get('value') == rep['value']
    chk.k(okg, 'IterativeCondGFormula.fit: generated loop statements vs model (exact)',
          None if okg else {'kind': 'ice_gen', 'frame': frame_record(df), 'K': K, 'plan': list(plan),
                            'model': rep.get('value'), 'generated': {k: rep2.get(k) for k in ('status', 'err', 'value')}})
    return ('ok', unrq(rep['value']), hdev)


def impl_ice(df, K, models, treatments, exposures=None, outcomes=None, specify=True, session=None):
    """one estimate.  With `session` (a dict) the estimator object is built once and `fit` is called repeatedly on it,
    the way the documentation uses it (fit(plan 1), fit(plan 2), ...)"""
    import warnings
    from zepid.causal.gformula import IterativeCondGFormula
    warnings.simplefilter('ignore')
    exposures = exposures or ['A%d' % (k + 1) for k in range(K)]
    outcomes = outcomes or ['Y%d' % (k + 1) for k in range(K)]
    try:
        ic = session.get('obj') if session is not None else None
        if ic is None:
            ic = IterativeCondGFormula(df, exposures=exposures, outcomes=outcomes)
            if specify:
                ic.outcome_model(models, print_results=False)
            if session is not None:
                session['obj'] = ic
                session['fits'] = 0
        if session is not None:
            session['fits'] += 1
        ic.fit(treatments)
        return ('ok', float(ic.marginal_outcome))
    except ValueError as e:
        return ('err', 'ValueError: ' + str(e)[:80])
    except Exception as e:   # anything else is reported as it is
        return ('exc', '%s: %s' % (type(e).__name__, str(e)[:120]))


def frame_record(df):
    def val(v):
        if isinstance(v, str):
            return v
        return None if pd.isna(v) else float(v)
    return {'index': [str(i) for i in df.index], 'dtypes': {c: str(df[c].dtype) for c in df.columns},
            'column_order': [str(c) for c in df.columns],      # the stored order of the columns is part of the input
            'columns': {c: [val(v) for v in df[c]] for c in df.columns}}


def frame_from(rec):
    df = pd.DataFrame({c: [np.nan if v is None else v for v in vals] for c, vals in rec['columns'].items()})
    if rec.get('column_order'):
        df = df[rec['column_order']]
    for c, dt in rec.get('dtypes', {}).items():
        if dt.startswith(('int', 'uint')) and not df[c].isna().any():
            df[c] = df[c].astype(dt)
    df.index = rec['index']
    return df


def nontrivial_wide(df, K):
    early = K > 1 and bool((df['Y1'] == 1).any())
    both = all(df['A%d' % (k + 1)].dropna().nunique() == 2 for k in range(K))
    return (early or K == 1) and both


def check_wide(chk, drv, rng, df, ixstyle, K, nlev, style, models, saturated, plans, forms):
    """plans: list of K-tuples; forms: subset of {'single','ndarray','lists'}"""
    n = len(df)
    wa = wide_args(df, K)
    key = hash(df.to_csv())
    session = {}       # one estimator object per data set, fitted for every plan in turn
    for g in plans:
        res = {}
        for form in forms:
            if form == 'single':
                tr = [int(v) for v in g]
            elif form == 'ndarray':
                tr = np.tile(np.array(g, dtype=int), (n, 1))
            else:
                tr = [[int(v) for v in g] for _ in range(n)]
            res[form] = impl_ice(df, K, models, tr, session=session)
            chk.count('fits_on_a_reused_object', 1 if session.get('fits', 0) > 1 else 0)

            chk.case(None, (key, tuple(models), tuple(g), form) if nontrivial_wide(df, K) else None,
                     sample={'K': K, 'n': n, 'nlev': nlev, 'style': style, 'index': ixstyle, 'models': models,
                             'plan': list(map(int, g)), 'form': form, 'impl': res[form]} if chk.evals % 29 == 0 else None)
            chk.count('ice_K%d_%s_%s' % (K, style, 'sat' if saturated else 'unsat'))
            chk.count('index_' + ixstyle.split('/')[0])
            chk.count('layout_' + ixstyle.split('/')[-1])
            chk.count('form_' + form)
        # ---- K: model with reference fits vs implementation (single-row form of the model; the per-row form
        #         of the model is compared against the per-row form of the implementation below)
        ref = reference_run(chk, drv, df, K, nlev, models, ('single', list(g)), saturated) if drv is not None else None
        if ref is not None and ref[0] == 'discard':
            chk.discard(ref[1])
            continue
        for form in forms:
            st = res[form]
            if ref is not None:
                if form == 'single':
                    mref = ref
                else:
                    mref = reference_run(chk, drv, df, K, nlev, models, ('matrix', [list(g)] * n), saturated)
                    if mref[0] == 'discard':
                        chk.discard(mref[1])
                        continue
                ok = (st[0] == 'ok' and mref[0] == 'ok' and abs(st[1] - float(mref[1])) <= TOL) or \
                     (st[0] == 'err' and mref[0] == 'err')
                chk.k(ok, 'IterativeCondGFormula.fit (%s plan) model-with-reference-fits vs impl' % form,
                      None if ok else {'kind': 'ice', 'K': K, 'nlev': nlev, 'models': models, 'plan': list(map(int, g)),
                                       'form': form, 'impl': st, 'model': str(mref[:2]), 'frame': frame_record(df)})
        # ---- D: n identical plan rows == the single plan row
        if 'single' in res:
            for form in forms:
                if form != 'single':
                    a, b = res['single'], res[form]
                    ok = a[0] == b[0] and (a[0] != 'ok' or abs(a[1] - b[1]) <= 1e-12)
                    chk.d(ok, 'plan given as n identical rows (%s) == plan given as one row' % form,
                          None if ok else {'kind': 'ice', 'K': K, 'nlev': nlev, 'models': models,
                                           'plan': list(map(int, g)), 'form': form, 'single': a, 'rowwise': b,
                                           'frame': frame_record(df)})
        # ---- D: nonparametric g-formula by direct stratification (exact, from raw counts)
        if saturated and drv is not None:
            rep, line = drv.ask('ice_npg', g=enc_list(g, lambda v: str(int(v))),
                                levels=enc_list(range(nlev), str), **wa)
            applicable = rep['status'] == 'ok' and all(rep[f] == '1' for f in ('wf', 'surv', 'cover', 'pos'))
            if not applicable:
                chk.count('npg_hypotheses_not_met_' + style)
                continue
            want = float(unrq(rep['value']))
            slack = TOL + 2 * K * (ref[2] if ref is not None else 0.0)   # measured deviation of the reference fits
            for form in forms:
                st = res[form]
                ok = st[0] == 'ok' and abs(st[1] - want) <= slack
                chk.d(ok, 'IterativeCondGFormula (saturated models, %s plan) == nonparametric g-formula' % form,
                      None if ok else {'kind': 'ice', 'K': K, 'nlev': nlev, 'models': models,
                                       'plan': list(map(int, g)), 'form': form, 'impl': st, 'npg': want,
                                       'npg_exact': rep['value'], 'frame': frame_record(df),
                                       'earlier_plans_on_same_object': [list(map(int, p)) for p in plans[:plans.index(g)]],
                                       'forms': forms})


def check_varying_plan(chk, drv, rng, df, ixstyle, K, nlev, style, models, saturated):
    """K only: a different plan for every individual"""
    n = len(df)
    P = rng.integers(0, 2, size=(n, K))
    st = impl_ice(df, K, models, P if rng.uniform() < 0.5 else P.tolist())
    chk.case(None, (hash(df.to_csv()), tuple(models), 'varying', hash(P.tobytes())))
    chk.count('ice_varying_plan_K%d_%s' % (K, style))
    if drv is None:
        return
    ref = reference_run(chk, drv, df, K, nlev, models, ('matrix', P.tolist()), saturated)
    if ref[0] == 'discard':
        chk.discard(ref[1])
        return
    ok = (st[0] == 'ok' and ref[0] == 'ok' and abs(st[1] - float(ref[1])) <= TOL) or (st[0] == 'err' and ref[0] == 'err')
    chk.k(ok, 'IterativeCondGFormula.fit (per-individual varying plan) model vs impl',
          None if ok else {'kind': 'ice', 'K': K, 'nlev': nlev, 'models': models, 'plan_matrix': P.tolist(),
                           'impl': st, 'model': str(ref[:2]), 'frame': frame_record(df)})


def check_malformed(chk, drv, rng, df, K, nlev, models):
    n = len(df)
    wa = wide_args(df, K)
    g = [1] * K
    cases = [('plan too short', g[:-1] if K > 1 else [], ('single', g[:-1] if K > 1 else [])),
             ('plan too long', g + [0], ('single', g + [0])),
             ('2-d plan with one row', [g], ('matrix', [g])),
             ('2-d plan with n-1 rows', [g] * (n - 1), ('matrix', [g] * (n - 1))),
             ('2-d plan with n+1 rows', [g] * (n + 1), ('matrix', [g] * (n + 1))),
             ('2-d plan with K+1 columns', [g + [1]] * n, ('matrix', [g + [1]] * n))]
    for what, tr, plan in cases:
        st = impl_ice(df, K, models, tr)
        chk.case(None, ('malformed', what, K))
        chk.count('malformed_plan')
        if drv is not None:
            rep, line = drv.ask('ice_fit', nexp=K, nout=K, spec=1, **wa, **plan_args(plan))
            ok = (st[0] == 'err') == (rep['status'] == 'err') and st[0] in ('ok', 'err')
            chk.k(ok, 'malformed plan (%s): model and impl agree on rejection' % what,
                  None if ok else {'what': what, 'impl': st, 'model': rep, 'K': K, 'n': n})
    # fit before outcome_model
    st = impl_ice(df, K, models, g, specify=False)
    if drv is not None:
        rep, _ = drv.ask('ice_fit', nexp=K, nout=K, spec=0, **wa, **plan_args(('single', g)))
        chk.k(st[0] == 'err' and rep.get('err') == 'notSpecified', 'fit before outcome_model is rejected',
              {'impl': st, 'model': rep})
    # constructor: recurrent outcome, non-binary outcome, different numbers of exposures and outcomes
    if K > 1:
        d2 = df.copy()
        d2.iloc[0, d2.columns.get_loc('Y1')] = 1.0
        d2.iloc[0, d2.columns.get_loc('Y2')] = 1.0
        st = impl_ice(d2, K, models, g)
        if drv is not None:
            rep, _ = drv.ask('ice_fit', nexp=K, nout=K, spec=1, **wide_args(d2, K), **plan_args(('single', g)))
            chk.k(st[0] == 'err' and rep['status'] == 'err', 'recurrent outcomes are rejected', {'impl': st, 'model': rep})
        st = impl_ice(df, K, models, g, exposures=['A%d' % (k + 1) for k in range(K - 1)])
        if drv is not None:
            rep, _ = drv.ask('ice_fit', nexp=K - 1, nout=K, spec=1, **wa, **plan_args(('single', g)))
            chk.k(st[0] == 'err' and rep['status'] == 'err', 'unequal numbers of exposures and outcomes are rejected',
                  {'impl': st, 'model': rep})
    d3 = df.copy()
    d3.iloc[1, d3.columns.get_loc('Y1')] = 2.0
    st = impl_ice(d3, K, models, g)
    if drv is not None:
        rep, _ = drv.ask('ice_fit', nexp=K, nout=K, spec=1, **wide_args(d3, K), **plan_args(('single', g)))
        chk.k(st[0] == 'err' and rep['status'] == 'err', 'non-binary outcomes are rejected', {'impl': st, 'model': rep})
    chk.count('malformed_table', 3)


# ---------------------------------------------------------------------------------------------- single time point
def check_single_t(chk, drv, rng, tier):
    from zepid.causal.gformula import TimeFixedGFormula
    n = int(rng.integers(80, 300))
    nlev = int(rng.integers(2, 4))
    L = rng.integers(0, nlev, size=n).astype(float)
    W = np.round(rng.normal(size=n), 3)
    A = (rng.uniform(size=n) < 0.3 + 0.15 * L).astype(float)
    Y = (rng.uniform(size=n) < 0.25 + 0.1 * L + 0.2 * A).astype(float)
    miss = rng.uniform() < 0.5
    if miss:
        Y[rng.uniform(size=n) < 0.2] = np.nan
    df = pd.DataFrame({'A1': A, 'L1': L, 'W': W, 'Y1': Y})
    if rng.uniform() < 0.5:
        df.index = rng.permutation(n) + 11
    for model, cat in (('A1*C(L1)', True), ('A1 + L1 + W', False), ('A1 + C(L1) + A1:W', False)):
        for treat, g in (('all', [1]), ('none', [0])):
            ice = impl_ice(df, 1, [model], g)
            out = {}
            for pm in (True, False):
                try:
                    tf = TimeFixedGFormula(df, exposure='A1', outcome='Y1')
                    tf.outcome_model(model=model, print_results=False)
                    tf.fit(treatment=treat, predict_missing=pm)
                    out[pm] = ('ok', float(tf.marginal_outcome))
                except Exception as e:
                    out[pm] = ('exc', '%s: %s' % (type(e).__name__, str(e)[:100]))
            chk.case(None, (hash(df.to_csv()), model, treat), sample={'n': n, 'model': model, 'treat': treat,
                     'missing_outcomes': bool(miss), 'ice': ice, 'timefixed': {str(k): v for k, v in out.items()}}
                     if chk.evals % 31 == 0 else None)
            chk.count('single_t_' + ('missingY' if miss else 'completeY'))

            def mk():
                return {'kind': 'single_t', 'model': model, 'treat': treat, 'ice': ice,
                        'timefixed': {str(k): v for k, v in out.items()}, 'frame': frame_record(df)}
            # D: one time point == TimeFixedGFormula with the same model (over the individuals the iterative
            #    estimator averages: those with an observed outcome; identical to the default when none is missing)
            ok = ice[0] == 'ok' and out[False][0] == 'ok' and abs(ice[1] - out[False][1]) <= 1e-12
            chk.d(ok, 'single time point == TimeFixedGFormula(predict_missing=False)', None if ok else mk())
            if not miss:
                ok = ice[0] == 'ok' and out[True][0] == 'ok' and abs(ice[1] - out[True][1]) <= 1e-12
                chk.d(ok, 'single time point, no missing outcome == TimeFixedGFormula (default)', None if ok else mk())
            # K: the TimeFixedGFormula slice of the model, for categorical designs
            if cat and drv is not None:
                try:
                    fm = glm_binomial('Y1 ~ ' + model, df)
                except Exception:
                    chk.discard('reference fit raised')
                    continue
                combos = list(itertools.product([0, 1], range(nlev)))
                pr = np.asarray(fm.predict(pd.DataFrame({'A1': [float(c[0]) for c in combos],
                                                         'L1': [float(c[1]) for c in combos]})), dtype=float)
                chk.h_checked += 1
                for pm in (True, False):
                    rep, _ = drv.ask('tf_fit', a=enc_list(A, lambda v: str(int(v))), l=enc_list(L, lambda v: str(int(v))),
                                     y=','.join('_' if math.isnan(v) else str(int(v)) for v in Y),
                                     treat=1 if treat == 'all' else 0, pm=1 if pm else 0,
                                     ta=enc_list([c[0] for c in combos], str), tl=enc_list([c[1] for c in combos], str),
                                     tv=enc_list(pr, rq))
                    ok = rep['status'] == 'ok' and out[pm][0] == 'ok' and abs(float(unrq(rep['value'])) - out[pm][1]) <= TOL
                    chk.k(ok, 'TimeFixedGFormula.fit(predict_missing=%s) model vs impl' % pm,
                          None if ok else {'model': rep, 'impl': out[pm], 'frame': frame_record(df)})


# ---------------------------------------------------------------------------------------------- long data
def gen_long(rng, n, T, censor, with_na, shape='free'):
    """shape: 'free'; 'divisible' = unequal follow-up, but the number of complete records is a multiple of the number
    of people (and, when possible, of the number of time points too); 'balanced' = everybody followed to T"""
    ids = rng.choice(np.arange(1, 5 * n), size=n, replace=False)
    rows = []
    hz = rng.uniform(0.05, 0.35, size=(2, T))
    bw = rng.uniform(-0.5, 0.5)
    for j, i in enumerate(ids):
        a = int(rng.uniform() < 0.45)
        w = float(np.round(rng.normal(), 3))
        b = int(rng.uniform() < 0.4)
        keep = j < 2            # one person per arm observed event-free to the end: every arm x time cell non-empty
        if keep:
            a = j
        for t in range(1, T + 1):
            p = min(0.9, max(0.01, hz[a, t - 1] * math.exp(bw * w) + 0.05 * b))
            y = 0 if keep else int(rng.uniform() < p)
            if shape == 'balanced' and t < T:
                y = 0
            rows.append({'id': int(i), 't': t, 'A': float(a), 'W': w, 'B': float(b), 'Y': float(y)})
            if y == 1:
                break
            if not keep and shape != 'balanced' and rng.uniform() < censor:
                break
    df = pd.DataFrame(rows)
    if with_na:
        # the last record of some people carries a missing outcome (dropped by the estimator)
        last = df.groupby('id')['t'].transform('max') == df['t']
        m = last & (rng.uniform(size=len(df)) < 0.15) & (df['t'] > 1) & ~df['id'].isin(ids[:2])
        df.loc[m, 'Y'] = np.nan
    if shape == 'divisible':
        # end the follow-up of some people one record earlier (drop-out) until records % people == 0 on the complete
        # records, follow-up staying unequal
        for _ in range(len(df)):
            cc = df.dropna()
            R, N = len(cc), cc['id'].nunique()
            if R % N == 0:
                break
            size = cc.groupby('id').size()
            cand = [i for i in size.index[size >= 2] if i not in (int(ids[0]), int(ids[1]))]
            if not cand:
                break
            i = cand[int(rng.integers(0, len(cand)))]
            tmax = cc.loc[cc['id'] == i, 't'].max()
            df = df[~((df['id'] == i) & (df['t'] == tmax) & df['Y'].notna())].reset_index(drop=True)
    df = df.iloc[rng.permutation(len(df))]
    ix = int(rng.integers(0, 4))
    if ix == 0:
        df = df.reset_index(drop=True)
    elif ix == 1:
        df.index = rng.permutation(len(df)) + 1000
    elif ix == 2:
        df.index = ['p%05d' % i for i in rng.permutation(len(df))]
    else:
        df.index = np.arange(len(df)) // 2            # repeated labels
    v = int(rng.integers(0, 4))
    if v == 1:
        df['id'] = ['s%d' % i for i in df['id']]      # string person labels (not zero-padded: lexicographic order)
    elif v == 2:
        df['t'] = df['t'].astype(float)
    elif v == 3:
        df['t'] = df['t'].astype(np.int16)
        if not df[['A', 'Y']].isna().any().any():
            df['A'] = df['A'].astype(np.int8)
            df['Y'] = df['Y'].astype(np.int32)
            df['B'] = df['B'].astype(bool)
    return df


def id_codes(df):
    """person labels -> naturals, order-preserving (labels may be strings)"""
    u = sorted(df['id'].unique())
    return {v: i + 1 for i, v in enumerate(u)}


def long_args(df, cond, h1=None, h0=None):
    ok = ~df[['id', 't', 'A', 'W', 'B', 'Y']].isna().any(axis=1)
    code = id_codes(df)
    d = dict(id=enc_list(df['id'], lambda v: str(code[v])), t=enc_list(df['t'], lambda v: str(int(v))),
             a=enc_list(df['A'], lambda v: '0' if pd.isna(v) else str(int(v))),
             y=enc_list(df['Y'], lambda v: '0' if pd.isna(v) else str(int(v))),
             c=enc_list(cond, lambda v: str(int(bool(v)))), ok=enc_list(ok, lambda v: str(int(bool(v)))))
    if h1 is not None:
        d['h1'] = enc_list(h1, lambda v: '0' if math.isnan(v) else rq(v))
        d['h0'] = enc_list(h0, lambda v: '0' if math.isnan(v) else rq(v))
    return d


# ---- plans of SurvivalGFormula.fit and the product-limit closed form for any of them (with or without weights)
def sgf_custom_family(rng, df):
    """custom treatment strings over `g` (the documented spelling): conditions on a baseline covariate, on the observed
    treatment (incl. its negation, and the observed treatment itself = the natural course), on time (treated during the
    first k intervals only), on a continuous covariate, conditions nobody / everybody meets, and compounds of those"""
    T = int(df['t'].max())
    k = int(rng.integers(1, T + 1))
    thr = float(np.round(rng.normal(0, 0.5), 2))
    return ["g['B']==1", "g['A']==0", "g['A']==1", "g['t']<=%d" % k, "g['W']>%s" % thr, "g['A']>=0", "g['A']>1",
            "(g['B']==1) & (g['A']==0)", "(g['B']==0) | (g['t']>%d)" % k, "((g['W']<=%s) & (g['B']==1))" % thr]


def plan_assignment(df, treat):
    """arm (0/1) the plan assigns to every record of df, in df's row order (records with a missing exposure get -1 under
    the natural course; they are dropped by the estimator)"""
    n = len(df)
    if treat == 'all':
        return np.ones(n, dtype=int)
    if treat == 'none':
        return np.zeros(n, dtype=int)
    if treat == 'natural':
        return np.where(df['A'].isna(), -1, df['A'].fillna(0)).astype(int)
    return np.asarray(eval(treat, {'g': df, 'np': np, 'pd': pd}), dtype=bool).astype(int)


def sgf_closed_form(df, treat, wcol=None):
    """Discrete-time product-limit cumulative incidence under a plan, from (weighted) counts on the complete records:
    hazard of arm a in interval u  h(a,u) = sum w*Y / sum w over the complete records with A = a at time u; the curve of
    a person at time t = 1 - prod over that person's records u <= t of (1 - h(arm the plan assigns to the record, u));
    the marginal curve at t = (weighted) mean of the curves of the records present at t.  Exact rationals.
    Returns None when a hazard that is needed is 0/0 (no weight in the arm x time cell), otherwise
    ({(id, t): value}, {t: value or None})."""
    cc = df.loc[~df.isna().any(axis=1)]
    asg = plan_assignment(df, treat)[(~df.isna().any(axis=1)).values]
    w = [Fraction(float(v)) for v in cc[wcol].values] if wcol else [Fraction(1)] * len(cc)
    num, den = {}, {}
    for a, t, y, wi in zip(cc['A'].values, cc['t'].values, cc['Y'].values, w):
        k = (int(a), int(t))
        num[k] = num.get(k, Fraction(0)) + wi * int(y)
        den[k] = den.get(k, Fraction(0)) + wi
    recs = sorted(zip(cc['id'].values, [int(t) for t in cc['t'].values], asg, w), key=lambda r: (r[0], r[1]))
    ind, mnum, mden = {}, {}, {}
    cur, surv = None, Fraction(1)
    for i, t, a, wi in recs:
        if cur is None or i != cur:
            cur, surv = i, Fraction(1)
        if not den.get((int(a), t)):
            return None
        surv *= 1 - num[(int(a), t)] / den[(int(a), t)]
        if (i, t) in ind:
            return None             # two records of one person in one interval: not person-period data
        ind[(i, t)] = 1 - surv
        mnum[t] = mnum.get(t, Fraction(0)) + wi * (1 - surv)
        mden[t] = mden.get(t, Fraction(0)) + wi
    return ind, {t: (mnum[t] / mden[t] if mden[t] else None) for t in sorted(mnum)}


def sgf_compare_closed_form(df, treat, wcol, pdf, marg, slack):
    """predicted_df / marginal_outcome of the implementation against sgf_closed_form.  Returns (applicable, ok, first
    difference)"""
    cf = sgf_closed_form(df, treat, wcol)
    if cf is None:
        return False, True, None
    ind, mg = cf
    got = {}
    for i, t, v in zip(pdf['id'].values, pdf['t'].values, pdf['Y'].values):
        got.setdefault((i, int(t)), []).append(float(v))
    missing = [k for k in ind if k not in got]
    extra = [k for k in got if k not in ind or len(got[k]) != 1]
    if missing or extra:
        return True, False, {'person_periods_without_prediction': [[str(k[0]), k[1]] for k in missing[:5]],
                             'n_without_prediction': len(missing), 'unexpected_predictions': len(extra)}
    for k, w in ind.items():
        if not abs(got[k][0] - float(w)) <= slack:
            return True, False, {'id': str(k[0]), 'time': k[1], 'impl': got[k][0], 'product_limit_under_plan': float(w)}
    if [int(x) for x in marg.index] != list(mg):
        return True, False, {'marginal_times': [int(x) for x in marg.index], 'expected_times': list(mg)}
    for t, gv in zip(mg, marg.values):
        if mg[t] is not None and not abs(float(gv) - float(mg[t])) <= slack:
            return True, False, {'time': t, 'marginal_impl': float(gv), 'product_limit_under_plan': float(mg[t])}
    return True, True, None


def sat_hazard_dev(cc, wcol=None):
    """H: the harness's own saturated reference fit (arm x time, `freq_weights` when weights are given) returns the
    (weighted) cell proportions; returns the largest deviation (inf when a cell is empty / the fit fails)"""
    try:
        import warnings
        import statsmodels.api as sm
        import statsmodels.formula.api as smf
        with warnings.catch_warnings():
            warnings.simplefilter('ignore')
            kw = {'freq_weights': cc[wcol]} if wcol else {}
            fm = smf.glm('Y ~ C(t)*A', cc, family=sm.families.family.Binomial(), **kw).fit()
        wv = cc[wcol].astype(float) if wcol else pd.Series(1.0, index=cc.index)
        t_ = pd.DataFrame({'mu': fm.fittedvalues, 'wy': cc['Y'].astype(float) * wv, 'w': wv})
        grp = t_.groupby([cc['A'].astype(float), cc['t'].astype(float)])
        tot = grp['w'].transform('sum')
        if len(grp) != 2 * cc['t'].nunique() or not bool((tot > 0).all()):
            return float('inf')
        mean = grp['wy'].transform('sum') / tot
        dev = max(float((grp['mu'].transform('max') - mean).abs().max()), float((grp['mu'].transform('min') - mean).abs().max()))
        return dev if dev == dev else float('inf')
    except Exception:
        return float('inf')


WEIGHT_KINDS = ('frequency', 'frequency_with_zeros', 'fractional', 'fractional_with_zeros', 'per_person')


def add_long_weights(rng, df, kind):
    """a weight column `w` for person-period data: whole-number frequency weights / non-integer sampling weights, either
    strictly positive or with some weights of exactly zero (on final and on non-final records of a person: such a record
    contributes nothing to the hazards and to the mean at its time, the person is still followed through it), or one
    weight per person"""
    df = df.copy()
    n = len(df)
    if kind.startswith('frequency'):
        w = rng.integers(1, 5, size=n).astype(float)
    elif kind.startswith('fractional'):
        w = np.round(rng.uniform(0.3, 2.5, size=n), 3)
    else:
        per = {i: float(np.round(rng.uniform(0.3, 3.0), 2)) for i in df['id'].unique()}
        w = np.array([per[i] for i in df['id'].values])
    if kind.endswith('zeros'):
        z = rng.uniform(size=n) < 0.08
        last = (df.groupby('id')['t'].transform('max') == df['t']).values
        nl = np.flatnonzero(~last)
        if len(nl):
            z[nl[int(rng.integers(0, len(nl)))]] = True          # at least one non-final record
        w = np.where(z, 0.0, w)
    df['w'] = w
    if kind == 'frequency' and rng.uniform() < 0.5:
        df['w'] = df['w'].astype(int)
    return df


def check_long(chk, drv, rng, df, model, saturated, tag, wcol=None, ncustom=2):
    """the three named treatments and custom treatments (drawn from sgf_custom_family) on one estimator object, in random
    order; with `wcol` the estimator is given that weight column (D only: the Lean model is the unweighted estimator)"""
    from zepid.causal.gformula import SurvivalGFormula
    key = hash(df.to_csv())
    dfr = df.reset_index(drop=True)      # positional copy for the harness's own reference call
    cc = dfr.dropna()
    # reference fit (harness's own call on the complete records, caller's row order)
    href = None
    if drv is not None and wcol is None:
        try:
            fm = glm_binomial('Y ~ ' + model, cc)
            d1, d0 = cc.copy(), cc.copy()
            d1['A'] = 1.0
            d0['A'] = 0.0
            h1 = pd.Series(np.asarray(fm.predict(d1), dtype=float), index=cc.index).reindex(dfr.index)
            h0 = pd.Series(np.asarray(fm.predict(d0), dtype=float), index=cc.index).reindex(dfr.index)
            if saturated:
                t = pd.DataFrame({'mu': fm.fittedvalues, 'y': cc['Y']})
                grp = t.groupby([cc['A'], cc['t']])
                dev = float((grp['mu'].transform('max') - grp['y'].transform('mean')).abs().max())
                dev = max(dev, float((grp['mu'].transform('min') - grp['y'].transform('mean')).abs().max()))
                if len(grp) != 2 * cc['t'].nunique():
                    dev = float('inf')
            else:
                dev = float(np.abs(fm.model.exog.T @ (fm.model.endog - fm.fittedvalues.values)).max()) / 10.0
            chk.h_checked += 1
            # the estimator fits the same model on the (id, time)-sorted records: the comparison at 1e-9 presumes the
            # fit does not depend on the row order (it does under separation, where the MLE does not exist)
            cs = cc.sort_values(['id', 't'])
            fm2 = glm_binomial('Y ~ ' + model, cs)
            odev = max(float(np.abs(np.asarray(fm2.predict(d1), dtype=float) - h1.reindex(cc.index).values).max()),
                       float(np.abs(np.asarray(fm2.predict(d0), dtype=float) - h0.reindex(cc.index).values).max()))
            chk.h_checked += 1
            if dev <= H_TOL and odev <= 1e-10:
                href = (h1.values, h0.values, dev)
            elif dev <= H_TOL:
                chk.discard('reference hazard fit depends on the row order beyond 1e-10 (separation; K not judged, D is)')
            else:
                chk.discard('reference hazard fit off its cell means / score equations (or empty arm x time cell)')
        except Exception as e:
            chk.discard('reference hazard fit raised %s' % type(e).__name__)
    # H for the closed form under any plan: the (weighted) saturated reference fit returns the (weighted) cell proportions
    sdev = None
    if saturated:
        sdev = sat_hazard_dev(cc, wcol)
        chk.h_checked += 1
    sg = None
    fam = sgf_custom_family(rng, df)
    customs = ["g['B']==1"] + [fam[i] for i in rng.choice(np.arange(1, len(fam)), size=min(ncustom, len(fam) - 1), replace=False)]
    order = [('all', 'all'), ('none', 'none'), ('natural', 'natural')] + [(c, 'custom') for c in customs]
    order = [order[i] for i in rng.permutation(len(order))]
    results = {}
    for treat, plan in order:
        try:
            if sg is None:      # one estimator object, fitted for the treatments in turn (documented usage)
                kw = {'weights': wcol} if wcol else {}
                sg = SurvivalGFormula(df, idvar='id', exposure='A', outcome='Y', time='t', **kw)
                sg.outcome_model(model=model, print_results=False)
            sg.fit(treatment=treat)
            pdf = sg.predicted_df[['id', 't', 'Y']].copy()
            marg = sg.marginal_outcome
            st = ('ok',)
        except Exception as e:
            st = ('exc', '%s: %s' % (type(e).__name__, str(e)[:120]))
        nontriv = bool((cc['Y'] == 1).any()) and cc['A'].nunique() == 2 and cc.groupby('id').size().max() > 1

        def mk(extra=None):
            r = {'kind': 'sgf', 'model': model, 'treatment': treat, 'impl_status': st, 'frame': frame_record(df),
                 'weights': wcol, 'saturated': bool(saturated),
                 'treatments_in_order_on_same_object': [o[0] for o in order]}
            r.update(extra or {})
            return r
        chk.case(None, (key, model, treat, wcol) if nontriv else None,
                 sample={'people': int(df['id'].nunique()), 'records': len(df), 'dropped': len(df) - len(cc), 'model': model,
                         'treatment': treat, 'weights': wcol,
                         'marginal': [float(v) for v in marg.values] if st[0] == 'ok' else st}
                 if chk.evals % 23 == 0 else None)
        chk.count('sgf_%s_%s%s' % (tag, plan, '_weighted' if wcol else ''))
        if plan == 'custom':
            chk.count('sgf_custom_plan: ' + ''.join(ch for ch in treat if not (ch.isdigit() or ch in '.-')))
        if st[0] != 'ok':
            chk.d(False, 'SurvivalGFormula runs on valid person-period data', mk())
            continue
        asg = plan_assignment(dfr, treat)[cc.index.values]
        cond = plan_assignment(dfr, treat) == 1
        s = pdf.sort_values(['id', 't'])
        v = s['Y'].values
        results[treat] = (s, marg, asg)
        # ---- D: each person's cumulative incidence is non-decreasing in time and within [0,1]
        same = s['id'].values[1:] == s['id'].values[:-1]
        mono = bool(np.all(v[1:][same] >= v[:-1][same]))
        inside = bool(np.all((v >= 0) & (v <= 1)))
        chk.d(mono and inside, 'individual cumulative incidence non-decreasing in time and within [0,1]',
              None if (mono and inside) else mk())
        # ---- D: every complete person-period of the input has a predicted cumulative incidence (and nothing else has)
        have = sorted(zip([str(x) for x in s['id'].values], [int(x) for x in s['t'].values]))
        want_keys = sorted(zip([str(x) for x in cc['id'].values], [int(x) for x in cc['t'].values]))
        chk.d(have == want_keys, 'predicted_df holds one cumulative incidence for every complete person-period of the input',
              None if have == want_keys else mk({'records_in': len(want_keys), 'records_predicted': len(have)}))
        # ---- D: hazard saturated in arm x time, no covariates: every person's curve is the product-limit curve of the arm
        # the plan assigns (from (weighted) counts), the marginal curve their (weighted) mean -- for EVERY plan
        if saturated:
            if not sdev <= H_TOL:
                chk.count('pl_any_plan_hypotheses_not_met')
            else:
                slack = TOL + 2 * int(cc['t'].nunique()) * sdev
                app, ok, bad = sgf_compare_closed_form(dfr, treat, wcol, pdf, marg, slack)
                if not app:
                    chk.count('pl_any_plan_hypotheses_not_met')
                else:
                    chk.count('pl_any_plan_compared_%s%s' % (plan, '_weighted' if wcol else ''))
                    chk.d(ok, 'SurvivalGFormula (hazard saturated in arm x time%s): individual and marginal curves == '
                              'product-limit cumulative incidence of the arm the plan assigns' % (', weights' if wcol else ''),
                          None if ok else mk({'first_difference': bad, 'predicate': 'closed_form'}))
        if drv is None or wcol is not None:
            continue
        # ---- K: model fed with the reference hazards vs predicted_df and marginal_outcome
        if href is not None:
            rep, line = drv.ask('sgf_run', plan=plan, **long_args(df, cond, href[0], href[1]))
            ok = rep['status'] == 'ok'
            if ok:
                sid, stt = dec_list(rep['sid'], int), dec_list(rep['st'], int)
                ci = [float(unrq(x)) for x in dec_list(rep['ci'], str)]
                tm = dec_list(rep['times'], int)
                mg = [float(unrq(x)) for x in dec_list(rep['marg'], str)]
                ok = sid == [id_codes(df)[x] for x in s['id'].values] and stt == [int(x) for x in s['t'].values] and \
                    len(ci) == len(v) and bool(np.all(np.abs(np.array(ci) - v) <= TOL)) and \
                    tm == [int(x) for x in marg.index] and bool(np.all(np.abs(np.array(mg) - marg.values) <= TOL))
            chk.k(ok, 'SurvivalGFormula.fit(%s) predicted_df / marginal_outcome model vs impl' % plan,
                  None if ok else mk({'model_reply': {k: rep[k] for k in rep if k in ('status', 'err', 'times', 'marg')}}))
        # ---- K: the definition regenerated from the text of SurvivalGFormula.fit (Gen.survgf_fit), run on the prepared
        # table (complete records sorted by id, time) with the reference hazards, vs predicted_df and marginal_outcome
        if href is not None:
            cs = cc.sort_values(['id', 't'], kind='stable')
            pos = cs.index.values
            rep, line = drv.ask('sgf_gen', treatment=('custom' if plan == 'custom' else treat),
                                **long_args(dfr.loc[pos], cond[pos], href[0][pos], href[1][pos]))
            ok = rep['status'] == 'ok'
            if ok:
                ci = [float(unrq(x)) for x in dec_list(rep['ci'], str)]
                tm = dec_list(rep['times'], int)
                mg = [float(unrq(x)) for x in dec_list(rep['marg'], str)]
                ok = len(ci) == len(v) and bool(np.all(np.abs(np.array(ci) - v) <= TOL)) and \
                    tm == [int(x) for x in marg.index] and bool(np.all(np.abs(np.array(mg) - marg.values) <= TOL))
            chk.k(ok, 'SurvivalGFormula.fit(%s): generated code (Gen.survgf_fit) vs impl' % plan,
                  None if ok else mk({'generated_reply': {k: rep[k] for k in rep if k in ('status', 'err', 'times', 'marg')}}))
        # ---- D: saturated in arm x time, no covariates: marginal curve == product-limit of that arm from counts
        if saturated and plan in ('all', 'none'):
            rep, line = drv.ask('sgf_pl', arm=1 if plan == 'all' else 0, **long_args(df, cond))
            if rep['status'] != 'ok' or rep['pp'] != '1' or rep['bin'] != '1':
                chk.count('pl_hypotheses_not_met')
                continue
            tm = dec_list(rep['times'], int)
            pl = [None if x == '_' else float(unrq(x)) for x in dec_list(rep['pl'], str)]
            slack = TOL + 2 * len(tm) * (href[2] if href is not None else 0.0)
            ok = tm == [int(x) for x in marg.index]
            bad = None
            if ok:
                for t, w, got in zip(tm, pl, marg.values):
                    if w is not None and not abs(got - w) <= slack:
                        ok, bad = False, {'time': t, 'impl': float(got), 'product_limit': w}
                        break
            chk.count('pl_times_compared', sum(1 for w in pl if w is not None))
            chk.d(ok, 'SurvivalGFormula (hazard saturated in arm x time) == product-limit cumulative incidence',
                  None if ok else mk({'first_difference': bad}))
    # ---- D (any hazard model): a custom plan that assigns every record the arm a named plan assigns gives that plan's
    # curves (a condition everybody meets = 'all', nobody meets = 'none', the observed treatment itself = 'natural');
    # two custom strings that assign the same arms give the same curves
    names = [t for t, _ in order if t in results]
    for i, ta in enumerate(names):
        for tb in names[:i]:
            (sa, ma, aa), (sb, mb, ab) = results[ta], results[tb]
            if not np.array_equal(aa, ab) or (ta in ('all', 'none', 'natural') and tb in ('all', 'none', 'natural')):
                continue
            ok = len(sa) == len(sb) and list(ma.index) == list(mb.index) and \
                bool(np.all(np.abs(sa['Y'].values - sb['Y'].values) <= 1e-12)) and \
                bool(np.all(np.abs(ma.values - mb.values) <= 1e-12))
            chk.count('sgf_same_assignment_pairs')
            chk.d(ok, 'SurvivalGFormula: two plans that assign every record the same arm give the same curves '
                      '(custom condition vs all / none / natural / another custom condition)',
                  None if ok else {'kind': 'sgf', 'model': model, 'treatment': ta, 'same_assignment_as': tb,
                                   'weights': wcol, 'saturated': bool(saturated), 'frame': frame_record(df),
                                   'treatments_in_order_on_same_object': [o[0] for o in order],
                                   'predicate': 'same_assignment'})


# ---------------------------------------------------------------------------------------------- histories
def plan_in_form(g, form, n):
    """the same static plan in the containers a caller may reasonably pass"""
    g = [int(v) for v in g]
    if form == 'single':
        return g
    if form == 'tuple':
        return tuple(g)
    if form == 'float':
        return [float(v) for v in g]
    if form == 'int8':
        return np.array(g, dtype=np.int8)
    if form == 'series':
        return pd.Series(g)
    if form == 'ndarray':
        return np.tile(np.array(g, dtype=int), (n, 1))
    if form == 'lists':
        return [list(g) for _ in range(n)]
    if form == 'frame':
        return pd.DataFrame(np.tile(np.array(g, dtype=np.int64), (n, 1)), index=np.arange(n)[::-1])
    if form == 'bool':
        return [bool(v) for v in g]
    if form == 'boolmatrix':
        return np.tile(np.array(g, dtype=bool), (n, 1))
    raise KeyError(form)


PLAN_FORMS = ['single', 'tuple', 'float', 'int8', 'series', 'ndarray', 'lists', 'frame']


def ice_specs(K, nlev):
    sat = [sat_model(k, nlev) for k in range(1, K + 1)]
    main = [main_model(k, nlev) for k in range(1, K + 1)]
    specs = {'sat': sat, 'main': main}
    if K > 1:
        specs['main_then_sat_last'] = main[:-1] + sat[-1:]
        specs['sat_then_main_last'] = sat[:-1] + main[-1:]
    else:
        specs['a_only'] = ['A1']
    return specs


def run_ice_ops(frames, K, ops, upto=None):
    """execute a history on one object per data set; returns the list of (status, value) of the fit ops"""
    from zepid.causal.gformula import IterativeCondGFormula
    import warnings
    warnings.simplefilter('ignore')
    exps = ['A%d' % (k + 1) for k in range(K)]
    outs = ['Y%d' % (k + 1) for k in range(K)]
    objs = {}
    out = []
    for i, op in enumerate(ops if upto is None else ops[:upto + 1]):
        try:
            if op['obj'] not in objs:
                objs[op['obj']] = IterativeCondGFormula(frames[op['obj']], exps, outs) if op['obj'] % 2 else \
                    IterativeCondGFormula(frames[op['obj']], exposures=exps, outcomes=outs)
            o = objs[op['obj']]
            if op['op'] == 'spec':
                o.outcome_model(op['models'], print_results=False)
                out.append(None)
            else:
                o.fit(plan_in_form(op['plan'], op['form'], len(frames[op['obj']])))
                out.append(('ok', float(o.marginal_outcome)))
        except Exception as e:      # a history of valid calls must not raise
            out.append(('exc', '%s: %s' % (type(e).__name__, str(e)[:120])))
    return out


def check_ice_history(chk, drv, rng, K, nlev, length):
    """Several data sets with the same column names and model strings, one estimator object each, calls interleaved:
    specify -> fit -> respecify another model -> fit ..., every fit judged against a fresh object given the last
    specification, against the nonparametric g-formula when the last specification is saturated, and (K = 1) against
    TimeFixedGFormula with the last model."""
    from zepid.causal.gformula import TimeFixedGFormula
    nobj = 2
    frames, styles = [], []
    for j in range(nobj):
        style = ('surv', 'surv_na')[int(rng.integers(0, 2))]
        df, ixs = gen_wide(rng, K, nlev, int(rng.integers(60, 160)), style, seed_rows=1 if (2 * nlev) ** K > 40 else 2)
        frames.append(df)
        styles.append(style + '/' + ixs)
    specs = ice_specs(K, nlev)
    names = sorted(specs)
    plans = list(itertools.product([0, 1], repeat=K))
    # history: every object starts with a non-saturated specification and a fit, then is respecified
    ops = []
    last = {}
    for j in range(nobj):
        first = names[int(rng.integers(0, len(names)))]
        if first == 'sat':
            first = 'main'
        ops.append({'op': 'spec', 'obj': j, 'spec': first, 'models': specs[first]})
        ops.append({'op': 'fit', 'obj': j, 'plan': list(plans[int(rng.integers(0, len(plans)))]), 'form': 'single'})
        last[j] = first
    for i in range(length):
        j = int(rng.integers(0, nobj))
        if rng.uniform() < 0.4:
            nm = 'sat' if (last[j] != 'sat' and rng.uniform() < 0.6) else names[int(rng.integers(0, len(names)))]
            ops.append({'op': 'spec', 'obj': j, 'spec': nm, 'models': specs[nm]})
            last[j] = nm
            ops.append({'op': 'fit', 'obj': j, 'plan': list(plans[int(rng.integers(0, len(plans)))]),
                        'form': PLAN_FORMS[int(rng.integers(0, len(PLAN_FORMS)))]})
        else:
            ops.append({'op': 'fit', 'obj': j, 'plan': list(plans[int(rng.integers(0, len(plans)))]),
                        'form': PLAN_FORMS[int(rng.integers(0, len(PLAN_FORMS)))]})
    res = run_ice_ops(frames, K, ops)
    fresh, refs, npgs = {}, {}, {}
    cur = {}
    for i, (op, r) in enumerate(zip(ops, res)):
        j = op['obj']
        if op['op'] == 'spec':
            cur[j] = op
            if r is not None:
                chk.d(False, 'outcome_model() on valid models does not raise', ice_hist_case(frames, K, nlev, ops, i, r))
            continue
        spec = cur[j]
        g = tuple(op['plan'])
        chk.case(None, ('ice_history', hash(frames[j].to_csv()), spec['spec'], g, op['form'], i),
                 sample={'history': [(o['op'], o['obj'], o.get('spec') or (o['plan'], o['form'])) for o in ops[:i + 1]],
                         'result': r} if chk.evals % 37 == 0 else None)
        chk.count('ice_history_fit_after_%s' % ('respecification' if sum(1 for o in ops[:i] if o['op'] == 'spec' and
                                                                           o['obj'] == j) > 1 else 'first_specification'))
        chk.count('history_form_' + op['form'])
        key = (j, spec['spec'], g)
        if key not in fresh:
            fresh[key] = impl_ice(frames[j], K, spec['models'], list(g))
        f = fresh[key]
        ok = r[0] == 'ok' and f[0] == 'ok' and abs(r[1] - f[1]) <= 1e-12
        chk.d(ok, 'fit after a history of specifications/fits (other objects interleaved) == fresh object with the '
                  'last specification', None if ok else ice_hist_case(frames, K, nlev, ops, i, r, fresh=f))
        if spec['spec'] == 'sat' and drv is not None:
            if (j, g) not in npgs:
                rep, _ = drv.ask('ice_npg', g=enc_list(g, lambda v: str(int(v))), levels=enc_list(range(nlev), str),
                                 **wide_args(frames[j], K))
                app = rep['status'] == 'ok' and all(rep[x] == '1' for x in ('wf', 'surv', 'cover', 'pos'))
                ref = reference_run(chk, drv, frames[j], K, nlev, spec['models'], ('single', list(g)), True) if app else None
                if ref is not None and ref[0] == 'discard':
                    chk.discard(ref[1])
                    app = False
                npgs[(j, g)] = (float(unrq(rep['value'])), rep['value'], ref[2]) if app else None
            if npgs[(j, g)] is None:
                chk.count('npg_hypotheses_not_met_history')
            else:
                want, exact, hdev = npgs[(j, g)]
                ok = r[0] == 'ok' and abs(r[1] - want) <= TOL + 2 * K * hdev
                chk.d(ok, 'saturated models specified last in a history == nonparametric g-formula',
                      None if ok else ice_hist_case(frames, K, nlev, ops, i, r, npg=want, npg_exact=exact))
        if K == 1:
            try:
                tf = TimeFixedGFormula(frames[j], exposure='A1', outcome='Y1')
                tf.outcome_model(model=spec['models'][0], print_results=False)
                tf.fit(treatment='all' if g[0] == 1 else 'none', predict_missing=False)
                t = ('ok', float(tf.marginal_outcome))
            except Exception as e:
                t = ('exc', '%s: %s' % (type(e).__name__, str(e)[:100]))
            ok = r[0] == 'ok' and t[0] == 'ok' and abs(r[1] - t[1]) <= 1e-12
            chk.d(ok, 'single time point, model specified last in a history == TimeFixedGFormula with that model',
                  None if ok else ice_hist_case(frames, K, nlev, ops, i, r, timefixed=t))
    # boolean plans (a per-individual plan computed from a condition is a boolean array)
    j = 0
    g = plans[int(rng.integers(0, len(plans)))]
    for form in ('bool', 'boolmatrix'):
        want = impl_ice(frames[j], K, specs['sat'], list(g))
        got = impl_ice(frames[j], K, specs['sat'], plan_in_form(g, form, len(frames[j])))
        chk.case(None, ('ice_boolplan', hash(frames[j].to_csv()), g, form))
        chk.count('plan_form_' + form)
        ok = got[0] == 'ok' and want[0] == 'ok' and abs(got[1] - want[1]) <= 1e-12
        chk.d(ok, 'plan given as booleans == the same plan given as 0/1',
              None if ok else {'kind': 'ice', 'K': K, 'nlev': nlev, 'models': specs['sat'], 'plan': list(map(int, g)),
                               'form': form, 'impl': got, 'as_integers': want, 'frame': frame_record(frames[j])})


def ice_hist_case(frames, K, nlev, ops, i, r, **extra):
    c = {'kind': 'ice_history', 'K': K, 'nlev': nlev, 'ops': ops[:i + 1], 'failing_op': i, 'result': r,
         'frames': [frame_record(f) for f in frames]}
    c.update(extra)
    return c


SGF_MODELS = {'sat': 'C(t)*A', 'lin': 'A + W + B + t', 'quad': 'A*W + B + t + I(t**2)', 'ct': 'A + C(t) + W'}
SGF_TREATS = ['all', 'none', 'natural', "g['B']==1", "g['A']==1", "g['A']==0", "g['A']>1", "g['t']<=1", "g['W']>0",
              "(g['B']==1) & (g['A']==0)"]


def sgf_outputs(sg):
    pdf = sg.predicted_df
    s = pdf[['id', 't', 'Y']].sort_values(['id', 't'])
    return s, sg.marginal_outcome


def run_sgf_ops(frames, ops, upto=None):
    """execute a history; after every op, every result object kept from an earlier fit is compared with the snapshot
    taken when it was returned.  Returns per-op records."""
    from zepid.causal.gformula import SurvivalGFormula
    import warnings
    warnings.simplefilter('ignore')
    objs, kept, out = {}, [], []
    for i, op in enumerate(ops if upto is None else ops[:upto + 1]):
        rec = {'status': 'ok'}
        try:
            if op['obj'] not in objs:
                kw = {'weights': 'w'} if 'w' in frames[op['obj']].columns else {}     # a frame with a column `w` is weighted
                objs[op['obj']] = SurvivalGFormula(frames[op['obj']], 'id', 'A', 'Y', 't', **kw) if op['obj'] % 2 else \
                    SurvivalGFormula(frames[op['obj']], idvar='id', exposure='A', outcome='Y', time='t', **kw)
            o = objs[op['obj']]
            if op['op'] == 'spec':
                o.outcome_model(model=op['model'], print_results=False)
            else:
                o.fit(treatment=op['treat'])
                s, m = sgf_outputs(o)
                rec['ids'] = list(s['id'].values)
                rec['ts'] = [int(x) for x in s['t'].values]
                rec['ci'] = np.array(s['Y'].values, dtype=float)
                rec['mt'] = [int(x) for x in m.index]
                rec['mg'] = np.array(m.values, dtype=float)
                kept_now = (i, o.predicted_df, o.predicted_df.copy(deep=True), o.marginal_outcome,
                            o.marginal_outcome.copy(deep=True))
        except Exception as e:
            rec = {'status': 'exc', 'error': '%s: %s' % (type(e).__name__, str(e)[:120])}
            kept_now = None
        # results handed out earlier must still be what they were
        changed = []
        for (i0, pdf, snap, mo, msnap) in kept:
            try:
                same = pdf.shape == snap.shape and list(pdf.columns) == list(snap.columns) and \
                    bool(np.all((pdf.values == snap.values) | (pd.isna(pdf.values) & pd.isna(snap.values)))) and \
                    bool(np.all(mo.values == msnap.values))
            except Exception:
                same = False
            if not same:
                changed.append(i0)
        rec['earlier_results_changed'] = changed
        if op['op'] == 'fit' and kept_now is not None:
            kept.append(kept_now)
        out.append(rec)
    return out


def check_sgf_history(chk, drv, rng, length):
    nobj = 2
    T = int(rng.integers(2, 6))
    frames = [gen_long(rng, int(rng.integers(40, 120)), T, censor=float(rng.choice([0.0, 0.15])), with_na=bool(j % 2),
                       shape=('free', 'divisible', 'divisible', 'balanced')[int(rng.integers(0, 4))])
              for j in range(nobj)]
    if rng.uniform() < 0.5:       # one of the two data sets carries weights (zeros included half of the time)
        j = int(rng.integers(0, nobj))
        frames[j] = add_long_weights(rng, frames[j], WEIGHT_KINDS[int(rng.integers(0, len(WEIGHT_KINDS)))])
        chk.count('sgf_history_weighted_frame')
    names = sorted(SGF_MODELS)
    ops, last = [], {}
    for j in range(nobj):
        first = names[int(rng.integers(0, len(names)))]
        ops.append({'op': 'spec', 'obj': j, 'name': first, 'model': SGF_MODELS[first]})
        ops.append({'op': 'fit', 'obj': j, 'treat': ('all', 'none')[int(rng.integers(0, 2))]})
        last[j] = first
    for i in range(length):
        j = int(rng.integers(0, nobj))
        if rng.uniform() < 0.35:
            nm = 'sat' if rng.uniform() < 0.5 else names[int(rng.integers(0, len(names)))]
            ops.append({'op': 'spec', 'obj': j, 'name': nm, 'model': SGF_MODELS[nm]})
        ops.append({'op': 'fit', 'obj': j, 'treat': SGF_TREATS[int(rng.integers(0, len(SGF_TREATS)))]})
    res = run_sgf_ops(frames, ops)
    cur, fresh, pls, hdevs, sdevs = {}, {}, {}, {}, {}

    def case(i, **extra):
        c = {'kind': 'sgf_history', 'ops': ops[:i + 1], 'failing_op': i,
             'record': {k: (v.tolist() if isinstance(v, np.ndarray) else v) for k, v in res[i].items() if k != 'ids'},
             'frames': [frame_record(f) for f in frames]}
        c.update(extra)
        return c

    for i, (op, r) in enumerate(zip(ops, res)):
        j = op['obj']
        if r.get('earlier_results_changed'):
            chk.d(False, 'predicted_df / marginal_outcome kept from an earlier fit are not changed by later calls',
                  case(i, earlier_fit_ops=r['earlier_results_changed']))
        else:
            chk.d(True, 'predicted_df / marginal_outcome kept from an earlier fit are not changed by later calls', None)
        if op['op'] == 'spec':
            cur[j] = op
            if r['status'] != 'ok':
                chk.d(False, 'outcome_model() on a valid model does not raise', case(i))
            continue
        spec = cur[j]
        chk.case(None, ('sgf_history', hash(frames[j].to_csv()), spec['name'], op['treat'], i),
                 sample={'history': [(o['op'], o['obj'], o.get('name') or o['treat']) for o in ops[:i + 1]],
                         'marginal': r['mg'].tolist() if r['status'] == 'ok' else r} if chk.evals % 37 == 0 else None)
        nspec = sum(1 for o in ops[:i] if o['op'] == 'spec' and o['obj'] == j)
        chk.count('sgf_history_fit_after_%s' % ('respecification' if nspec > 1 else 'first_specification'))
        if r['status'] != 'ok':
            chk.d(False, 'fit() in a history of valid calls does not raise', case(i))
            continue
        # ---- fresh object given the last specification
        key = (j, spec['name'], op['treat'])
        if key not in fresh:
            fr = run_sgf_ops(frames, [{'op': 'spec', 'obj': j, 'name': spec['name'], 'model': spec['model']},
                                      {'op': 'fit', 'obj': j, 'treat': op['treat']}])[1]
            fresh[key] = fr
        f = fresh[key]
        ok = f['status'] == 'ok' and r['ids'] == f['ids'] and r['ts'] == f['ts'] and r['mt'] == f['mt'] and \
            bool(np.all(np.abs(r['ci'] - f['ci']) <= 1e-12)) and bool(np.all(np.abs(r['mg'] - f['mg']) <= 1e-12))
        chk.d(ok, 'fit after a history (respecification, other treatments, other objects) == fresh object with the '
                  'last specification', None if ok else case(i, fresh_marginal=f.get('mg', np.array([])).tolist()))
        # ---- monotone / bounded
        v = r['ci']
        same = np.array(r['ids'][1:], dtype=object) == np.array(r['ids'][:-1], dtype=object)
        mono = bool(np.all(v[1:][same] >= v[:-1][same])) and bool(np.all((v >= 0) & (v <= 1)))
        chk.d(mono, 'individual cumulative incidence non-decreasing in time and within [0,1] (history)',
              None if mono else case(i))
        # ---- closed form under any plan (with or without weights): every person's curve is the product-limit curve of
        # the arm the plan assigns, the marginal curve their (weighted) mean
        if spec['name'] == 'sat':
            wcol = 'w' if 'w' in frames[j].columns else None
            dfr = frames[j].reset_index(drop=True)
            if j not in sdevs:
                sdevs[j] = sat_hazard_dev(dfr.dropna(), wcol)
                chk.h_checked += 1
            app = sdevs[j] <= H_TOL
            if app:
                app, ok, bad = sgf_compare_closed_form(dfr, op['treat'], wcol,
                                                       pd.DataFrame({'id': r['ids'], 't': r['ts'], 'Y': r['ci']}),
                                                       pd.Series(r['mg'], index=r['mt']),
                                                       TOL + 2 * len(r['mt']) * sdevs[j])
            if not app:
                chk.count('pl_any_plan_hypotheses_not_met_history')
            else:
                chk.count('pl_any_plan_compared_history%s' % ('_weighted' if wcol else ''))
                chk.d(ok, 'hazard model saturated in arm x time specified last in a history: individual and marginal '
                          'curves == product-limit cumulative incidence of the arm the plan assigns',
                      None if ok else case(i, first_difference=bad, predicate='closed_form'))
        # ---- closed form: product-limit of the arm (all / none), arm-weighted product-limit (natural)
        if spec['name'] == 'sat' and drv is not None and op['treat'] in ('all', 'none', 'natural', "g['A']==1") and \
                'w' not in frames[j].columns:
            df = frames[j]
            if j not in pls:
                cond = (df['B'] == 1).values
                pp = {}
                for arm in (1, 0):
                    rep, _ = drv.ask('sgf_pl', arm=arm, **long_args(df, cond))
                    good = rep['status'] == 'ok' and rep['pp'] == '1' and rep['bin'] == '1'
                    pp[arm] = (dec_list(rep['times'], int),
                               [None if x == '_' else float(unrq(x)) for x in dec_list(rep['pl'], str)]) if good else None
                pls[j] = pp
                cc = df.reset_index(drop=True).dropna()
                try:
                    fm = glm_binomial('Y ~ C(t)*A', cc)
                    t_ = pd.DataFrame({'mu': fm.fittedvalues, 'y': cc['Y'].astype(float)})
                    grp = t_.groupby([cc['A'], cc['t']])
                    dev = float((grp['mu'].transform('max') - grp['y'].transform('mean')).abs().max())
                    dev = max(dev, float((grp['mu'].transform('min') - grp['y'].transform('mean')).abs().max()))
                    if len(grp) != 2 * cc['t'].nunique():
                        dev = float('inf')
                except Exception:
                    dev = float('inf')
                chk.h_checked += 1
                hdevs[j] = dev
            if pls[j][1] is None or pls[j][0] is None or not hdevs[j] <= H_TOL:
                chk.count('pl_hypotheses_not_met_history')
                continue
            tm = pls[j][1][0]
            slack = TOL + 2 * len(tm) * hdevs[j]
            cc = df.dropna()
            want = []
            for k_, t in enumerate(tm):
                if op['treat'] in ('all', 'none'):
                    want.append(pls[j][1 if op['treat'] == 'all' else 0][1][k_])
                else:
                    n1 = int(((cc['t'] == t) & (cc['A'] == 1)).sum())
                    n0 = int(((cc['t'] == t) & (cc['A'] == 0)).sum())
                    p1, p0 = pls[j][1][1][k_], pls[j][0][1][k_]
                    if (n1 and p1 is None) or (n0 and p0 is None):
                        want.append(None)
                    else:
                        want.append(((p1 or 0.0) * n1 + (p0 or 0.0) * n0) / (n1 + n0))
            ok = r['mt'] == tm and all(w is None or abs(gv - w) <= slack for w, gv in zip(want, r['mg']))
            chk.d(ok, 'hazard model saturated in arm x time specified last in a history: marginal curve == '
                      'product-limit closed form (%s)' % ('arm' if op['treat'] in ('all', 'none') else 'arm-weighted, natural course'),
                  None if ok else case(i, product_limit=want))

# ---------------------------------------------------------------------------------------------- driver
def run(chk, drv, rng, tier):
    quick = tier == 'quick'
    # ---- IterativeCondGFormula, saturated models: all static plans, every plan form
    sets = [(1, 2, 3), (1, 3, 2), (2, 2, 4), (2, 3, 2), (3, 2, 3)] if quick else \
        [(1, 2, 24), (1, 3, 16), (2, 2, 36), (2, 3, 16), (3, 2, 24), (3, 3, 3)]
    for K, nlev, reps in sets:
        for rep in range(reps):
            style = ('surv', 'surv_na')[rep % 2]
            cells = (2 * nlev) ** K
            n_random = int(rng.integers(60, 200)) + (0 if quick else int(rng.integers(0, 400)))
            df, ixs = gen_wide(rng, K, nlev, n_random, style, seed_rows=1 if cells > 40 else 2,
                               layout=WIDE_LAYOUTS[(rep + 1) % len(WIDE_LAYOUTS)])
            models = [sat_model(k, nlev) for k in range(1, K + 1)]
            plans = list(itertools.product([0, 1], repeat=K))
            if K == 3 and nlev == 3:
                plans = [plans[i] for i in rng.choice(len(plans), size=3, replace=False)]
            forms = ['single', 'ndarray', 'lists'] if (rep % 2 == 0 or not quick) else ['single', ('ndarray', 'lists')[rep % 3 % 2]]
            check_wide(chk, drv, rng, df, ixs, K, nlev, style, models, True, plans, forms)
            if rep == 0:
                check_malformed(chk, drv, rng, df, K, nlev, models)
    # ---- K only: unsaturated models, censored / non-monotone outcome patterns, per-individual varying plans
    for rep in range(12 if quick else 200):
        K = 1 + (rep // 4 + rep) % 3
        nlev = 2 if K == 3 else int(rng.integers(2, 4))
        style = ('surv', 'censor', 'holes', 'surv_na')[rep % 4]
        df, ixs = gen_wide(rng, K, nlev, int(rng.integers(80, 250)), style, seed_rows=2)
        sat = rep % 2 == 0
        models = [sat_model(k, nlev) if sat else main_model(k, nlev) for k in range(1, K + 1)]
        plans = list(itertools.product([0, 1], repeat=K))
        g = plans[int(rng.integers(0, len(plans)))]
        check_wide(chk, drv, rng, df, ixs, K, nlev, style, models, sat, [g], ['single', 'ndarray'])
        check_varying_plan(chk, drv, rng, df, ixs, K, nlev, style, models, sat)
    # ---- single time point vs TimeFixedGFormula
    for rep in range(4 if quick else 100):
        check_single_t(chk, drv, rng, tier)
    # ---- SurvivalGFormula
    for rep in range(8 if quick else 150):
        T = int(rng.integers(2, 7))
        shape = ('divisible', 'free', 'divisible', 'balanced', 'free')[rep % 5]
        n_people = int(rng.integers(40, 160)) if rep % 3 else int(rng.integers(4, 12))   # small cohorts too
        df = gen_long(rng, n_people, T, censor=float(rng.choice([0.0, 0.1, 0.25])), with_na=rep % 2 == 1, shape=shape)
        cc_ = df.dropna()
        chk.count('long_shape_' + shape)
        chk.count('long_records_multiple_of_people_with_unequal_follow_up',
                  int(len(cc_) % cc_['id'].nunique() == 0 and cc_.groupby('id').size().nunique() > 1))
        check_long(chk, drv, rng, df, 'C(t)*A', True, 'saturated')
        unsat = ('A + W + B + t', 'A*W + B + t + I(t**2)', 'A + C(t) + W')[rep % 3]
        check_long(chk, drv, rng, df, unsat, False, 'unsaturated')
        # the weights= option: frequency / sampling weights incl. weights of exactly zero (gate D; product-limit from
        # weighted counts under every plan)
        kind = WEIGHT_KINDS[rep % len(WEIGHT_KINDS)]
        dfw = add_long_weights(rng, df, kind)
        chk.count('long_weights_' + kind)
        check_long(chk, drv, rng, dfw, 'C(t)*A', True, 'saturated', wcol='w')
        if rep % 2 == 0 or not quick:
            check_long(chk, drv, rng, dfw, unsat, False, 'unsaturated', wcol='w', ncustom=1)
    # ---- histories on reused objects, several data sets / objects interleaved in one process
    for rep in range(6 if quick else 60):
        K = 1 + rep % 3
        check_ice_history(chk, drv, rng, K, 2 if (K == 3 or rep % 2 == 0) else 3, length=6 if quick else 10)
    for rep in range(5 if quick else 50):
        check_sgf_history(chk, drv, rng, length=7 if quick else 12)
    chk.extra['exhaustive'] = False
    chk.extra['plans_exhaustive_per_data_set'] = 'all of {0,1}^K for K = 1..3 (3 sampled plans for K=3 with 3 covariate levels)'


# ---------------------------------------------------------------------------------------------- replay
def replay(rec):
    """re-run the stored failing cases on the real code and print what happens"""
    import common
    bad = 0
    drv = common.Driver() if __import__('os').path.exists(common.DRIVER) else None
    for f in rec.get('failures', []) + rec.get('k_failures', []):
        c = f.get('case') or {}
        print('---', f.get('gate'), f.get('what'))
        if c.get('kind') == 'ice':
            df = frame_from(c['frame'])
            K = c['K']
            if 'plan_matrix' in c:
                tr = c['plan_matrix']
            elif c.get('form', 'single') == 'single':
                tr = c['plan']
            else:
                tr = [c['plan']] * len(df)
            with common.quiet():
                sess = {}
                for p0 in c.get('earlier_plans_on_same_object', []):
                    for f0 in c.get('forms', ['single']):
                        impl_ice(df, K, c['models'], p0 if f0 == 'single' else [p0] * len(df), session=sess)
                for f0 in c.get('forms', []):
                    if f0 == c.get('form'):
                        break
                    impl_ice(df, K, c['models'], c['plan'] if f0 == 'single' else [c['plan']] * len(df), session=sess)
                st = impl_ice(df, K, c['models'], tr, session=sess)
                one = impl_ice(df, K, c['models'], c['plan']) if 'plan' in c else None
            print('impl now:', st, ' single-row plan:', one, ' stored:', c.get('impl') or c.get('rowwise'))
            if drv is not None and 'plan' in c:
                rep, _ = drv.ask('ice_npg', g=enc_list(c['plan'], str), levels=enc_list(range(c['nlev']), str),
                                 **wide_args(df, K))
                print('nonparametric g-formula (exact):', rep.get('value'), '=',
                      float(unrq(rep['value'])) if rep.get('value') else None, {k: rep.get(k) for k in ('wf', 'surv', 'cover', 'pos')})
                if rep.get('value') and st[0] == 'ok' and all(rep.get(k) == '1' for k in ('wf', 'surv', 'cover', 'pos')) \
                        and not abs(st[1] - float(unrq(rep['value']))) <= 1e-7:
                    bad += 1
            if one is not None and (st[0] != one[0] or (st[0] == 'ok' and not abs(st[1] - one[1]) <= 1e-12)):
                bad += 1
            if st[0] == 'exc':
                bad += 1
        elif c.get('kind') == 'sgf':
            df = frame_from(c['frame'])
            from zepid.causal.gformula import SurvivalGFormula
            wcol = c.get('weights')
            kw = {'weights': wcol} if wcol else {}
            with common.quiet():
                try:
                    sg = SurvivalGFormula(df, idvar='id', exposure='A', outcome='Y', time='t', **kw)
                    sg.outcome_model(model=c['model'], print_results=False)
                    for t0 in c.get('treatments_in_order_on_same_object', []):
                        if t0 == c['treatment']:
                            break
                        sg.fit(treatment=t0)
                    sg.fit(treatment=c['treatment'])
                    marg = sg.marginal_outcome
                except Exception as e:
                    marg = None
                    print('impl raised', type(e).__name__, e)
                    bad += 1
            if marg is not None:
                print('treatment:', c['treatment'], ' weights:', wcol)
                print('marginal_outcome:', dict(zip([int(i) for i in marg.index], [float(v) for v in marg.values])))
                if drv is not None and c['treatment'] in ('all', 'none') and not wcol:
                    rep, _ = drv.ask('sgf_pl', arm=1 if c['treatment'] == 'all' else 0,
                                     **long_args(df, (df['B'] == 1).values))
                    print('product-limit from counts:', rep.get('times'), rep.get('pl'))
                    pl = [None if x == '_' else float(unrq(x)) for x in dec_list(rep['pl'], str)]
                    if c['model'] == 'C(t)*A' and any(w is not None and not abs(w - g) <= 1e-7 for w, g in zip(pl, marg.values)):
                        bad += 1
                s = sg.predicted_df.sort_values(['id', 't'])
                v = s['Y'].values
                same = s['id'].values[1:] == s['id'].values[:-1]
                if not (np.all(v[1:][same] >= v[:-1][same]) and np.all((v >= 0) & (v <= 1))):
                    print('cumulative incidence not monotone / outside [0,1]')
                    bad += 1
                cc = df.dropna()
                have = sorted(zip([str(x) for x in s['id'].values], [int(x) for x in s['t'].values]))
                want_keys = sorted(zip([str(x) for x in cc['id'].values], [int(x) for x in cc['t'].values]))
                if have != want_keys:
                    print('predicted_df has %d records, the input has %d complete person-periods' % (len(have), len(want_keys)))
                    bad += 1
                if c.get('saturated') or c['model'] == 'C(t)*A':
                    app, ok, diff = sgf_compare_closed_form(df.reset_index(drop=True), c['treatment'], wcol,
                                                            sg.predicted_df[['id', 't', 'Y']], marg, 1e-7)
                    print('product-limit closed form under the plan (from %scounts): applicable=%s agrees=%s %s'
                          % ('weighted ' if wcol else '', app, ok, diff or ''))
                    if app and not ok:
                        bad += 1
                if c.get('same_assignment_as'):
                    with common.quiet():
                        s2 = SurvivalGFormula(df, idvar='id', exposure='A', outcome='Y', time='t', **kw)
                        s2.outcome_model(model=c['model'], print_results=False)
                        s2.fit(treatment=c['same_assignment_as'])
                    r2 = s2.predicted_df.sort_values(['id', 't'])
                    same_arms = np.array_equal(plan_assignment(df, c['treatment'])[(~df.isna().any(axis=1)).values],
                                               plan_assignment(df, c['same_assignment_as'])[(~df.isna().any(axis=1)).values])
                    dmax = float(np.abs(r2['Y'].values - v).max()) if len(r2) == len(v) else float('inf')
                    print('plan %r assigns the same arms as %r: %s; largest difference of the individual curves: %g'
                          % (c['treatment'], c['same_assignment_as'], same_arms, dmax))
                    if same_arms and not dmax <= 1e-12:
                        bad += 1
        elif c.get('kind') == 'ice_history':
            frames = [frame_from(fr) for fr in c['frames']]
            K, ops, i = c['K'], c['ops'], c['failing_op']
            with common.quiet():
                res = run_ice_ops(frames, K, ops)
                op = ops[i]
                spec = [o for o in ops[:i] if o['op'] == 'spec' and o['obj'] == op['obj']][-1]
                fr = impl_ice(frames[op['obj']], K, spec['models'], op.get('plan'))
            print('history:', [(o['op'], o['obj'], o.get('spec') or (o['plan'], o['form'])) for o in ops])
            print('last fit now:', res[i], ' fresh object with the last specification:', fr, ' stored:', c.get('result'))
            if res[i] is None or res[i][0] != 'ok' or fr[0] != 'ok' or not abs(res[i][1] - fr[1]) <= 1e-12:
                bad += 1
            if drv is not None and spec.get('spec') == 'sat':
                rep, _ = drv.ask('ice_npg', g=enc_list(op['plan'], str), levels=enc_list(range(c['nlev']), str),
                                 **wide_args(frames[op['obj']], K))
                print('nonparametric g-formula (exact):', rep.get('value'), {k: rep.get(k) for k in ('wf', 'surv', 'cover', 'pos')})
                if all(rep.get(k) == '1' for k in ('wf', 'surv', 'cover', 'pos')) and res[i] and res[i][0] == 'ok' and \
                        not abs(res[i][1] - float(unrq(rep['value']))) <= 1e-7:
                    bad += 1
        elif c.get('kind') == 'sgf_history':
            frames = [frame_from(fr) for fr in c['frames']]
            ops, i = c['ops'], c['failing_op']
            with common.quiet():
                res = run_sgf_ops(frames, ops)
            print('history:', [(o['op'], o['obj'], o.get('name') or o['treat']) for o in ops])
            r = res[i]
            print('failing op now:', {k: (v.tolist() if isinstance(v, np.ndarray) else v) for k, v in r.items()
                                      if k in ('status', 'error', 'mt', 'mg', 'earlier_results_changed')})
            if r['status'] != 'ok' or any(x.get('earlier_results_changed') for x in res):
                bad += 1
            if ops[i]['op'] == 'fit' and r['status'] == 'ok':
                spec = [o for o in ops[:i] if o['op'] == 'spec' and o['obj'] == ops[i]['obj']][-1]
                with common.quiet():
                    f = run_sgf_ops(frames, [dict(spec), dict(ops[i])])[1]
                print('fresh object with the last specification:', f.get('mg', np.array([])).tolist() if f['status'] == 'ok' else f)
                if f['status'] != 'ok' or r['mt'] != f['mt'] or not bool(np.all(np.abs(r['mg'] - f['mg']) <= 1e-12)) or \
                        not bool(np.all(np.abs(r['ci'] - f['ci']) <= 1e-12)):
                    bad += 1
                if spec.get('name') == 'sat':
                    fr_ = frames[ops[i]['obj']]
                    wcol = 'w' if 'w' in fr_.columns else None
                    app, ok, diff = sgf_compare_closed_form(fr_.reset_index(drop=True), ops[i]['treat'], wcol,
                                                            pd.DataFrame({'id': r['ids'], 't': r['ts'], 'Y': r['ci']}),
                                                            pd.Series(r['mg'], index=r['mt']), 1e-7)
                    print('product-limit closed form under the plan (from %scounts): applicable=%s agrees=%s %s'
                          % ('weighted ' if wcol else '', app, ok, diff or ''))
                    if app and not ok:
                        bad += 1
        elif c.get('kind') == 'single_t':
            df = frame_from(c['frame'])
            print('stored:', c.get('ice'), c.get('timefixed'))
            with common.quiet():
                print('ice now:', impl_ice(df, 1, [c['model']], [1 if c['treat'] == 'all' else 0]))
        else:
            print(c)
    if drv is not None:
        drv.close()
    return 1 if bad else 0
