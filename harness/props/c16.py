"""C16 -- generalize / transport estimators standardize to the stated target population (IPSW, GTransportFormula, AIPSW)."""
from fractions import Fraction

import numpy as np
import pandas as pd
import statsmodels.api as sm
import statsmodels.formula.api as smf

import gen
from common import fx, unfx, enc_list, close, rq

REQUIRED = ['ipsw_saturated', 'gtransport_saturated', 'aipsw_outcome_saturated', 'aipsw_weights_balanced',
            'aipsw_weights_saturated_unstab', 'rd_rr_def', 'target_outcomes_irrelevant', 'aipsw_fit_generated', 'ipsw_fit_generated',
            'gtransport_fit_generated', 'gtransport_fit_saturated', 'gtransport_fit_target_outcomes_irrelevant',
            'ipsw_sampling_weight_generated', 'aipsw_sampling_weight_generated', 'treatment_site_generated',
            # Props/C16_Observers.lean (round 4): in the tables derived from the source, summary() assigns no state
            'ipsw_reporting_methods_observe', 'gtransport_reporting_methods_observe', 'aipsw_reporting_methods_observe']
RULE = ('random combined data sets: a study sample (1-2 categorical modifiers, <= 8 strata, both arms and both outcome '
        'values in every stratum) plus a target sample with at least one row per stratum; target rows carry A = NaN, and '
        'Y = NaN or junk values (both variants are run and must agree); cells: IPSW+treatment model, GTransportFormula, '
        'AIPSW with/without treatment model x generalize x stabilized; a third variant records junk A and Y outside the sample; all models saturated.  distinct = (data hash, '
        'estimator, options); non-trivial = the modifier distribution differs between sample and target and the '
        'stratum-specific effects differ (generalize and transport closed forms differ from the crude sample estimate)')
ASSUMPTIONS = ['statsmodels GLM solves the score equations of the saturated sampling / treatment / outcome models '
               '(reference fit measured per data set: gate H)']
TOL = dict(rtol=1e-6, atol=1e-8)


def combined(rng, junk, outcome='binary', sign=1):
    """outcome: 'binary' | 'normal' | 'count' (gen.cat_dataset: normal values around 1.5 .. 8.5 with sd 2, counts with
    mean 1.6 .. 4.4 -- stratum means outside [0, 1]); sign = -1 mirrors a normal outcome (all stratum means negative)"""
    df, covs = gen.cat_dataset(rng, outcome=outcome, ncov=int(rng.integers(1, 3)), max_strata=8)
    if sign != 1:
        df['Y'] = sign * df['Y']
    df['S'] = 1
    strata = df[covs].drop_duplicates().values.tolist()
    rows = []
    for s in strata:
        for _ in range(1 + int(rng.integers(0, 12))):
            rows.append(list(s))
    tgt = pd.DataFrame(rows, columns=covs)
    # junk = False: A, Y missing outside the sample;  True: junk Y;  'AY': treatment AND outcome recorded (junk) there
    tgt['A'] = rng.integers(0, 2, size=len(tgt)).astype(float) if junk == 'AY' else np.nan
    if outcome == 'binary':
        tgt['Y'] = rng.integers(0, 2, size=len(tgt)).astype(float) if junk else np.nan
    else:
        tgt['Y'] = np.round(rng.normal(40.0, 25.0, size=len(tgt)), 2) if junk else np.nan
    tgt['S'] = 0
    out = pd.concat([df, tgt], ignore_index=True)
    out = out.iloc[rng.permutation(len(out))].reset_index(drop=True)
    return out, covs


def make_frames(seed, index_kind='default'):
    """the three variants of one combined data set (junk Y / missing A,Y / junk A,Y outside the sample), with row
    labels that are not positions when asked (frames sorted / sampled / sliced without reset_index)"""
    dfj, covs = combined(np.random.default_rng(seed), junk=True)
    dfn, _ = combined(np.random.default_rng(seed), junk=False)
    dfa, _ = combined(np.random.default_rng(seed), junk='AY')
    for fr in (dfj, dfn, dfa):
        if index_kind == 'shifted':
            fr.index = np.arange(len(fr)) + 700
        elif index_kind == 'shuffled':
            fr.index = np.random.default_rng(seed + 1).permutation(len(fr))
    return dfj, dfn, dfa, covs


def closed_form(df, covs):
    sid = gen.strata_ids(df, covs)
    S = sorted(set(sid.tolist()))
    smp = df['S'].values == 1
    out = {}
    for g in (True, False):
        for a in (0, 1):
            num, den = Fraction(0), Fraction(0)
            for s in S:
                cell = (sid == s) & smp & (df['A'].values == a)
                cm = sum(Fraction(float(v)) for v in df['Y'].values[cell]) / int(cell.sum())
                nt = int(((sid == s) & (True if g else ~smp)).sum()) if g else int(((sid == s) & ~smp).sum())
                num += nt * cm
                den += nt
            out[(g, a)] = num / den
    return out


def closed_form_w(df, covs, wcol):
    """frequency-weighted version: weighted sample cell means standardized to the weighted target"""
    sid = gen.strata_ids(df, covs)
    S = sorted(set(sid.tolist()))
    smp = df['S'].values == 1
    w = df[wcol].values
    out = {}
    for g in (True, False):
        for a in (0, 1):
            num, den = Fraction(0), Fraction(0)
            for s in S:
                cell = (sid == s) & smp & (df['A'].values == a)
                cm = Fraction(int((w * np.nan_to_num(df['Y'].values))[cell].sum()), int(w[cell].sum()))
                nt = int(w[(sid == s) & (True if g else ~smp)].sum()) if g else int(w[(sid == s) & ~smp].sum())
                num += nt * cm
                den += nt
            out[(g, a)] = num / den
    return out


def enc(df, covs, fl=True):
    sid = gen.strata_ids(df, covs)
    a = df['A'].fillna(0).astype(int).tolist()
    y = df['Y'].fillna(0.0).tolist()
    return dict(s=enc_list(sid.tolist(), str), a=enc_list(a, str), y=enc_list(y, fx if fl else rq),
                obs=enc_list(df['S'].astype(int).tolist(), str))


SUMMARY_DECIMALS = [0, 1, 2, 3, 4, 6]
OUTCOME_TYPE = {'binary': 'binary', 'normal': 'normal', 'count': 'poisson'}      # gen.cat_dataset kind -> zEpid option


def draw_after(rng):
    """reporting calls made between fit() and reading risk_difference / risk_ratio (round 4): every class here has one
    reporting method, summary(decimal=4); drawn in 2 of 3 cases, with the number of decimals drawn too"""
    u = rng.uniform()
    if u < 1 / 3:
        return None
    return [['summary', {} if u < 0.45 else {'decimal': int(rng.choice(SUMMARY_DECIMALS))}]]


def apply_after(e, after):
    import contextlib
    import io
    for meth, kwargs in (after or []):
        with contextlib.redirect_stdout(io.StringIO()):
            getattr(e, meth)(**kwargs)


def after_d(chk, e, which, after, case):
    """D: the results read after the reporting calls are exactly the ones fit() stored (a report computes nothing on
    them); the closed-form predicates that follow judge the values read AFTER the calls"""
    if not after:
        return
    at_fit = (float(e.risk_difference), float(e.risk_ratio))
    apply_after(e, after)
    now = (float(e.risk_difference), float(e.risk_ratio))
    chk.count('after:' + '+'.join('%s(%s)' % (m, ','.join('%s=%s' % kv for kv in sorted(k.items()))) for m, k in after))
    chk.d(now == at_fit, '%s: risk_difference / risk_ratio read after %s = the values fit() stored (exact)'
          % (which, ', '.join(m + '()' for m, _ in after)), dict(case, at_fit=at_fit, after_reporting=now))


def estimators(df, covs, g, stab, treat, which, grepr=bool, extra=(), ytype='binary', positional=False):
    """grepr: how the boolean option `generalize` is handed over (bool / numpy.bool_ / int: all legitimate truth values);
    extra: further columns of the caller's frame that no model uses (they may hold missing values);
    ytype: the documented outcome_type option of GTransportFormula / AIPSW.outcome_model (IPSW has none: it averages
    whatever the outcome column holds);
    positional (round 4): every argument handed over positionally in the documented order
      IPSW / AIPSW(df, exposure, outcome, selection, generalize=True, weights=None),
      GTransportFormula(df, exposure, outcome, selection, outcome_type='binary', generalize=True, weights=None),
      IPSW.sampling_model / .treatment_model(model_denominator, model_numerator='1', bound=None, stabilized=True, print_results),
      AIPSW.sampling_model(model_denominator, model_numerator='1', stabilized=True, print_results=True),
      AIPSW.treatment_model as IPSW's, GTransportFormula.outcome_model(model, print_results=True),
      AIPSW.outcome_model(model, outcome_type='binary', print_results=True)"""
    from zepid.causal.generalize import IPSW, GTransportFormula, AIPSW
    if positional:
        return estimators_positional(df, covs, g, stab, treat, which, grepr, extra, ytype)
    cols = covs + ['A', 'Y', 'S'] + list(extra)
    sc = gen.sat_cov(covs)
    g = grepr(g)
    if getattr(df, '_verif_shared', False):
        class _AsIs:            # hand the very same DataFrame object to the estimator (aliasing / cross-object leaks)
            def __getitem__(self, _):
                return df
        frame = _AsIs()
    else:
        frame = df
    if which == 'IPSW' and treat == 'column':
        # treatment weights supplied as a precomputed IPTW column (saturated treatment model fitted on the sample by the
        # harness), no treatment_model() call
        d2 = df[cols].copy()
        smp = d2['S'] == 1
        sid = pd.Series(gen.strata_ids(d2, covs), index=d2.index)
        # inverse probability of the arm a row is in, among the sampled rows of its stratum: n_s / n_{a,s} (= 1/p and
        # 1/(1-p) when every sampled row is in arm 1 or arm 0); rows in neither arm (a third arm, an unrecorded
        # exposure) keep weight 1 -- they are in neither of the two risks compared
        ns = smp.astype(int).groupby(sid).transform('sum')
        d2['tw'] = 1.0
        for arm in (0, 1):
            m = smp & (d2['A'] == arm)
            na = m.astype(int).groupby(sid).transform('sum')
            d2.loc[m, 'tw'] = (ns[m] / na[m]).astype(float)
        e = IPSW(d2, exposure='A', outcome='Y', selection='S', generalize=g, weights='tw')
        e.sampling_model(sc, stabilized=stab, print_results=False)
        e.fit()
    elif which == 'IPSW':
        e = IPSW(frame[cols], exposure='A', outcome='Y', selection='S', generalize=g)
        e.sampling_model(sc, stabilized=stab, print_results=False)
        e.treatment_model(sc, stabilized=stab, print_results=False)
        e.fit()
    elif which == 'GTransportFormula':
        if ytype == 'binary':
            e = GTransportFormula(frame[cols], exposure='A', outcome='Y', selection='S', generalize=g)
        else:
            e = GTransportFormula(frame[cols], exposure='A', outcome='Y', selection='S', generalize=g,
                                  outcome_type=OUTCOME_TYPE[ytype])
        e.outcome_model(gen.sat_out(covs), print_results=False)
        e.fit()
    else:
        e = AIPSW(frame[cols], exposure='A', outcome='Y', selection='S', generalize=g)
        e.sampling_model(sc, stabilized=stab, print_results=False)
        if treat:
            e.treatment_model(sc, stabilized=stab, print_results=False)
        if ytype == 'binary':
            e.outcome_model(gen.sat_out(covs), print_results=False)
        else:
            e.outcome_model(gen.sat_out(covs), outcome_type=OUTCOME_TYPE[ytype], print_results=False)
        e.fit()
    return e


def estimators_positional(df, covs, g, stab, treat, which, grepr, extra, ytype):
    from zepid.causal.generalize import IPSW, GTransportFormula, AIPSW
    fr = df[covs + ['A', 'Y', 'S'] + list(extra)]
    sc, so, g = gen.sat_cov(covs), gen.sat_out(covs), grepr(g)
    if which == 'IPSW':
        e = IPSW(fr, 'A', 'Y', 'S', g)
        e.sampling_model(sc, '1', None, stab, False)
        e.treatment_model(sc, '1', None, stab, False)
    elif which == 'GTransportFormula':
        e = GTransportFormula(fr, 'A', 'Y', 'S', OUTCOME_TYPE[ytype], g)
        e.outcome_model(so, False)
    else:
        e = AIPSW(fr, 'A', 'Y', 'S', g)
        e.sampling_model(sc, '1', stab, False)
        if treat:
            e.treatment_model(sc, '1', None, stab, False)
        e.outcome_model(so, OUTCOME_TYPE[ytype], False)
    e.fit()
    return e


def model_k(chk, drv, e, df, covs, g, stab, which, case, samp_model=None):
    """`samp_model`: the denominator model handed to sampling_model() by the caller (default: the saturated one)"""
    if drv is None:
        return
    samp_model = samp_model or gen.sat_cov(covs)
    if which == 'IPSW':
        smp = e.sample
        kw = enc(smp, covs)
        rep, _ = drv.ask('ipsw', c='f', gen=int(g), stab=int(stab),
                         ns=enc_list(np.broadcast_to(np.asarray(smp['__numer__'], dtype=float), (len(smp),)), fx),
                         ds=enc_list(smp['__denom__'], fx), tw=enc_list(e.iptw, fx), **kw)
        ok = rep['status'] == 'ok' and np.allclose([unfx(t) for t in rep['w'].split(',')], smp['__ipsw__'], rtol=1e-12)
        # the per-row lines regenerated from IPSW.sampling_model (Gen/Sites.lean; no truncation requested here) on the
        # harness's own reference fits of the two sampling models (all rows, unweighted) vs the stored columns
        dref = smf.glm('S ~ ' + samp_model, e.df, family=sm.families.family.Binomial()).fit().predict(smp)
        nref = smf.glm('S ~ 1', e.df, family=sm.families.family.Binomial()).fit().predict(smp)
        chk.h_checked += 1
        rs, _ = drv.ask('site', kind='ipsw', gen=int(g), stab=int(stab), spec='other', falsy=1, d=enc_list(dref, fx),
                        n=enc_list(nref, fx))
        oks = rs['status'] == 'ok' and \
            np.allclose([unfx(t) for t in rs['d'].split(',')], smp['__denom__'], rtol=1e-9) and \
            np.allclose([unfx(t) for t in rs['n'].split(',')], smp['__numer__'], rtol=1e-9) and \
            np.allclose([unfx(t) for t in rs['w'].split(',')], e.ipsw, rtol=1e-9)
        chk.k(oks, 'IPSW.sampling_model stored columns = lines generated from its source on the reference fits',
              dict(case, model={k: v[:80] for k, v in rs.items()}))
        rep2, _ = drv.ask('ipswfit', c='f', hasw=0, hasiptw=int(e.iptw is not None), ipsw=enc_list(e.ipsw, fx),
                          iptw=enc_list(np.ones(len(smp)) if e.iptw is None else e.iptw, fx), **kw)
        chk.k(rep2['status'] == 'ok' and close(unfx(rep2['rd']), e.risk_difference, rtol=1e-9, atol=1e-12) and
              close(unfx(rep2['rr']), e.risk_ratio, rtol=1e-9), 'IPSW.fit = definition generated from its source',
              dict(case, model=rep2))
    elif which == 'GTransportFormula':
        d1, d0 = df.copy(), df.copy()
        d1['A'], d0['A'] = 1, 0
        rep, _ = drv.ask('gtrans', c='f', gen=int(g), q1=enc_list(e._outcome_model.predict(d1), fx),
                         q0=enc_list(e._outcome_model.predict(d0), fx), **enc(df, covs))
        ok = rep['status'] == 'ok'
        gtransfit_k(chk, drv, e, df, covs, g, None, case)
    else:
        tw = np.ones(len(df)) if e.iptw is None else np.where(np.isnan(e.iptw), 0.0, e.iptw)
        rep, _ = drv.ask('aipsw', c='f', gen=int(g), stab=int(stab), ns=enc_list(e.df['__numer__'], fx),
                         ds=enc_list(e.df['__denom__'], fx), tw=enc_list(tw, fx), q1=enc_list(e._YA1, fx),
                         q0=enc_list(e._YA0, fx), **enc(e.df, covs))
        ok = rep['status'] == 'ok'
        # the per-row lines regenerated from AIPSW.sampling_model (Gen/Sites.lean) on the harness's own reference fits
        dref = smf.glm('S ~ ' + samp_model, e.df, family=sm.families.family.Binomial()).fit().predict(e.df)
        nref = smf.glm('S ~ 1', e.df, family=sm.families.family.Binomial()).fit().predict(e.df)
        chk.h_checked += 1
        rs, _ = drv.ask('site', kind='aipsw', gen=int(g), stab=int(stab), sample=enc_list(e.df['S'].astype(int).tolist(), str),
                        d=enc_list(dref, fx), n=enc_list(nref, fx))
        with np.errstate(all='ignore'):
            oks = rs['status'] == 'ok' and \
                np.allclose([unfx(t) for t in rs['d'].split(',')], e.df['__denom__'], rtol=1e-9) and \
                np.allclose([unfx(t) for t in rs['n'].split(',')], e.df['__numer__'], rtol=1e-9) and \
                np.allclose([unfx(t) for t in rs['w'].split(',')], e.ipsw, rtol=1e-9, equal_nan=True)
        chk.k(oks, 'AIPSW.sampling_model stored columns = lines generated from its source on the reference fits',
              dict(case, model={k: v[:80] for k, v in rs.items()}))
        # the definition generated from the text of AIPSW.fit, on the implementation's own arrays
        rep2, _ = drv.ask('aipswfit', c='f', gen=int(g), hasiptw=int(e.iptw is not None), ipsw=enc_list(e.ipsw, fx),
                          iptw=enc_list(tw, fx), q1=enc_list(e._YA1, fx), q0=enc_list(e._YA0, fx), **enc(e.df, covs))
        chk.k(rep2['status'] == 'ok' and close(unfx(rep2['rd']), e.risk_difference, rtol=1e-9, atol=1e-12) and
              close(unfx(rep2['rr']), e.risk_ratio, rtol=1e-9), 'AIPSW.fit = definition generated from its source',
              dict(case, model=rep2))
    if ok:
        r1, r0 = unfx(rep['r1']), unfx(rep['r0'])
        ok = close(r1 - r0, e.risk_difference, rtol=1e-9, atol=1e-12) and close(r1 / r0, e.risk_ratio, rtol=1e-9)
    chk.k(ok, '%s estimates = model on the fitted values' % which, dict(case, model={k: v for k, v in rep.items() if k != 'w'}))


def gtransfit_k(chk, drv, e, df, covs, g, wcol, case):
    """the definition generated from the text of GTransportFormula.fit (Gen/Transport.lean), on the implementation's own
    predictions for every row under A=1 / A=0, with (hasw=1) or without the frequency-weight column; also the rows the
    generated outcome-model call site says the GLM is fitted on, against the fitted model's own nobs"""
    if drv is None:
        return
    d1, d0 = df.copy(), df.copy()
    d1['A'], d0['A'] = 1, 0
    kw = enc(df, covs)
    if wcol is not None:
        kw['w'] = enc_list(df[wcol], fx)
    rep, _ = drv.ask('gtransfit', c='f', gen=int(g), hasw=int(wcol is not None),
                     q1=enc_list(e._outcome_model.predict(d1), fx), q0=enc_list(e._outcome_model.predict(d0), fx), **kw)
    ok = rep['status'] == 'ok' and close(unfx(rep['rd']), e.risk_difference, rtol=1e-9, atol=1e-12) and \
        close(unfx(rep['rr']), e.risk_ratio, rtol=1e-9)
    chk.k(ok, 'GTransportFormula.fit = definition generated from its source', dict(case, model=rep))
    # call site of the outcome GLM: fitted on the sampled rows (outcomes observed there), frequency-weighted iff a
    # weight column is given -- the generated call site (rows, weight column or none) against the fitted model object
    smp = df['S'].values == 1
    # statsmodels' formula interface drops the rows it is handed that lack a model variable (missing='drop'): sampled
    # rows with an unrecorded exposure (round-4 data family) are handed over and not fitted
    used = smp & df[covs + ['A', 'Y']].notna().all(axis=1).values
    fwm = np.asarray(e._outcome_model.model.freq_weights, dtype=float)
    want_fw = df.loc[used, wcol].values.astype(float) if wcol is not None else np.ones(int(used.sum()))
    chk.k(rep['status'] == 'ok' and int(rep.get('nfit', -1)) == int(smp.sum()) and int(used.sum()) == int(e._outcome_model.nobs)
          and (rep.get('fw') == '1') == (wcol is not None) and fwm.shape == want_fw.shape
          and bool(np.array_equal(fwm, want_fw)),
          'GTransportFormula.outcome_model: GLM fitted on the sampled rows with the frequency weights read from its source',
          dict(case, model=rep, impl_nobs=float(e._outcome_model.nobs)))


def other_arms(dfn, covs, seed, third_arm):
    """the combined data set plus SAMPLED rows whose exposure is neither 0 nor 1 (round 4): 0-3 rows per stratum with an
    unrecorded exposure (NaN) and a recorded outcome (mostly 1: unlike either arm), and -- `third_arm` -- 1-5 rows per
    stratum in a third trial arm A = 2 (risk 0.85).  The estimators compare exposure == 1 with exposure == 0: those rows
    belong to neither risk; they do count as members of the sample (sampling model) and of the population."""
    r = np.random.default_rng(seed + 13)
    rows = []
    for st in dfn[covs].drop_duplicates().values.tolist():
        for _ in range(int(r.integers(0, 4))):
            rows.append(list(st) + [np.nan, float(r.uniform() < 0.9), 1])
        if third_arm:
            for _ in range(int(r.integers(1, 6))):
                rows.append(list(st) + [2.0, float(r.uniform() < 0.85), 1])
    if not any(np.isnan(x[-3]) for x in rows):
        rows.append(dfn[covs].iloc[0].tolist() + [np.nan, 1.0, 1])
    out = pd.concat([dfn[covs + ['A', 'Y', 'S']], pd.DataFrame(rows, columns=covs + ['A', 'Y', 'S'])], ignore_index=True)
    for c in covs + ['S']:
        out[c] = out[c].astype(int)
    return out.iloc[r.permutation(len(out))].reset_index(drop=True)


def judge_cell(chk, drv, e, df, covs, cf, which, g, after, case, what):
    after_d(chk, e, which, after, case)
    want = [float(cf[(g, 1)] - cf[(g, 0)]), float(cf[(g, 1)] / cf[(g, 0)])]
    case['impl'] = [float(e.risk_difference), float(e.risk_ratio)]
    case['want'] = want
    chk.d(close(e.risk_difference, want[0], **TOL) and close(e.risk_ratio, want[1], **TOL),
          '%s RD/RR = sample cell means of exposure 1 and exposure 0 standardized to the %s (%s)'
          % (which, 'whole population' if g else 'non-sampled rows', what), case)
    if which == 'GTransportFormula':
        gtransfit_k(chk, drv, e, df, covs, g, None, case)


def arms_cell(chk, drv, seed, index_kind, which, g, stab, treat, after):
    """sampled rows in neither arm.  IPSW is run with a user-supplied treatment-weight column (inverse probability of
    the row's arm among the sampled rows of its stratum) on data with a third arm AND unrecorded exposures;
    GTransportFormula / AIPSW (documented: binary exposures only) on data with unrecorded exposures."""
    _, dfn, _, covs = make_frames(seed, index_kind)
    dfx = other_arms(dfn, covs, seed, third_arm=(which == 'IPSW'))
    cf = closed_form(dfx, covs)
    case = {'estimator': which, 'generalize': g, 'stabilized': stab, 'treatment_model': treat, 'after': after,
            'data': gen.describe(dfx, covs, data_seed=seed, index=index_kind,
                                 sampled_rows_exposure_missing=int((dfx['A'].isna() & (dfx['S'] == 1)).sum()),
                                 sampled_rows_third_arm=int((dfx['A'] == 2).sum())),
            'cell': {'fn': 'arms_cell', 'args': dict(seed=seed, index_kind=index_kind, which=which, g=g, stab=stab,
                                                     treat=treat, after=after)}}
    chk.case(case, (hash(dfx.to_csv()), 'arms', which, g, stab, treat))
    chk.count('other_arms/%s/%s' % (which, 'generalize' if g else 'transport'))
    try:
        e = estimators(dfx, covs, g, stab, treat, which)
    except Exception as ex:      # noqa: BLE001
        chk.d(False, '%s runs on a sample with rows in neither arm' % which, dict(case, impl_error=repr(ex)))
        return
    judge_cell(chk, drv, e, dfx, covs, cf, which, g, after, case,
               'sampled rows with an unrecorded exposure%s belong to neither arm' % (' / in a third arm' if which == 'IPSW' else ''))


def ytype_cell(chk, drv, seed, index_kind, kind, sign, which, g, stab, treat, after):
    """a non-binary outcome (documented: outcome_type 'normal' / 'poisson' of GTransportFormula and AIPSW.outcome_model;
    IPSW averages any numeric outcome): the standardized stratum-specific MEAN outcomes, which is what the classes
    report as `risk_difference` / `risk_ratio` for these types; junk outcome values recorded outside the sample"""
    dfy, covs = combined(np.random.default_rng(seed + 17), junk=True, outcome=kind, sign=sign)
    if index_kind == 'shifted':
        dfy.index = np.arange(len(dfy)) + 700
    elif index_kind == 'shuffled':
        dfy.index = np.random.default_rng(seed + 1).permutation(len(dfy))
    cf = closed_form(dfy, covs)
    case = {'estimator': which, 'generalize': g, 'stabilized': stab, 'treatment_model': treat, 'after': after,
            'outcome': kind, 'sign': sign,
            'data': gen.describe(dfy, covs, data_seed=seed, index=index_kind,
                                 sample_outcome_range=[float(dfy.loc[dfy.S == 1, 'Y'].min()),
                                                       float(dfy.loc[dfy.S == 1, 'Y'].max())]),
            'cell': {'fn': 'ytype_cell', 'args': dict(seed=seed, index_kind=index_kind, kind=kind, sign=sign, which=which,
                                                      g=g, stab=stab, treat=treat, after=after)}}
    chk.case(case, (hash(dfy.to_csv()), 'ytype', which, g, stab, treat))
    chk.count('outcome_%s/%s/%s' % (kind, which, 'generalize' if g else 'transport'))
    try:
        e = estimators(dfy, covs, g, stab, treat, which, ytype=kind)
    except Exception as ex:      # noqa: BLE001
        chk.d(False, '%s runs with a %s outcome' % (which, kind), dict(case, impl_error=repr(ex)))
        return
    judge_cell(chk, drv, e, dfy, covs, cf, which, g, after, case, '%s outcome' % kind)


def run(chk, drv, rng, tier):
    nds = 20 if tier == 'quick' else 60
    for di in range(nds):
        seed = int(rng.integers(0, 2 ** 31))
        index_kind = ['default', 'shifted', 'shuffled'][int(rng.integers(0, 3))]
        dfj, dfn, dfa, covs = make_frames(seed, index_kind)
        cf = closed_form(dfn, covs)
        sid = gen.strata_ids(dfn, covs)
        # gate H: reference saturated sampling fit = stratum sampling fractions
        chk.h_checked += 1
        ref = smf.glm('S ~ ' + gen.sat_cov(covs), dfn, family=sm.families.family.Binomial()).fit().predict(dfn)
        exact = pd.Series(dfn['S'].values).groupby(sid).transform('mean').values
        if not np.allclose(ref, exact, atol=1e-7, rtol=0):
            chk.discard('reference GLM fit missed the sampling fractions by > 1e-7')
            continue
        crude = dfn[dfn.S == 1].groupby('A')['Y'].mean()
        nontriv = abs(float(cf[(True, 1)] - cf[(False, 1)])) > 1e-9 and abs(crude[1] - float(cf[(True, 1)])) > 1e-9
        rec = gen.describe(dfn, covs, n_sample=int((dfn.S == 1).sum()), n_target=int((dfn.S == 0).sum()), data_seed=seed,
                           index=index_kind)
        dsid = hash(dfn.to_csv())
        # ONE frame object handed as is to every estimator of this data set, in sequence (what a user's session does)
        shared = dfn[covs + ['A', 'Y', 'S']].copy()
        shared._verif_shared = True
        if drv is not None:   # the model's own closed form against the harness's independent one (exact)
            rep, _ = drv.ask('stdgen', **enc(dfn, covs, fl=False))
            chk.k(rep['status'] == 'ok' and (Fraction(rep['gen1']), Fraction(rep['gen0']), Fraction(rep['tr1']),
                                             Fraction(rep['tr0'])) == (cf[(True, 1)], cf[(True, 0)], cf[(False, 1)],
                                                                       cf[(False, 0)]),
                  'Lean std over generalize/transport targets (exact) = independent closed form', {'data': rec, 'model': rep})
        for which, treats in (('IPSW', (True, 'column')), ('GTransportFormula', (None,)), ('AIPSW', (True, False))):
            for g in (True, False):
                for stab in ((True, False) if which != 'GTransportFormula' else (None,)):
                    for treat in treats:
                        case = {'estimator': which, 'generalize': g, 'stabilized': stab, 'treatment_model': treat,
                                'data': rec}
                        chk.case(case, (dsid, which, g, stab, treat) if nontriv else None,
                                 sample=case if chk.evals % 23 == 0 else None)
                        chk.count('%s/%s%s%s' % (which, 'generalize' if g else 'transport',
                                                 '' if stab is None else ('/stab' if stab else '/unstab'),
                                                 '' if treat is None else ('/treat' if treat else '/notreat')))
                        grepr = [bool, np.bool_, int][int(rng.integers(0, 3))]
                        case['generalize_passed_as'] = grepr.__name__
                        snap = shared.copy(deep=True)
                        # call convention of the variant runs below (junk-Y frame, junk A and Y): keyword or positional
                        pos = bool(rng.integers(0, 2)) and treat != 'column'
                        case['positional_calls'] = pos
                        try:
                            e = estimators(shared, covs, g, stab, treat, which, grepr)
                        except Exception as ex:      # noqa: BLE001
                            chk.d(False, '%s runs on a valid combined data set' % which, dict(case, impl_error=repr(ex)))
                            continue
                        # history / aliasing: the caller's frame is untouched (a later estimator built from the same frame
                        # must see the same data), and a second fit() on the same object reproduces the first
                        chk.d(snap.equals(shared) and list(snap.index) == list(shared.index) and
                              list(snap.columns) == list(shared.columns),
                              "%s leaves the caller's DataFrame untouched" % which, case)
                        first = (float(e.risk_difference), float(e.risk_ratio))
                        e.fit()
                        chk.d(close(e.risk_difference, first[0], rtol=1e-12, atol=1e-14) and
                              close(e.risk_ratio, first[1], rtol=1e-12, atol=1e-14),
                              '%s: a second fit() on the same object reproduces the first' % which,
                              dict(case, first=first, second=[float(e.risk_difference), float(e.risk_ratio)]))
                        # reporting calls between fit() and reading the results (drawn): what follows judges the values
                        # read after them
                        case['after'] = draw_after(rng)
                        after_d(chk, e, which, case['after'], case)
                        try:
                            ej = estimators(dfj, covs, g, stab, treat, which, positional=pos)
                        except Exception as ex:      # noqa: BLE001
                            chk.d(False, '%s runs when every argument is given positionally in the documented order' % which,
                                  dict(case, impl_error=repr(ex)))
                            continue
                        want_rd = float(cf[(g, 1)] - cf[(g, 0)])
                        want_rr = float(cf[(g, 1)] / cf[(g, 0)])
                        case['impl'] = [float(e.risk_difference), float(e.risk_ratio)]
                        case['want'] = [want_rd, want_rr]
                        chk.d(close(e.risk_difference, want_rd, **TOL) and close(e.risk_ratio, want_rr, **TOL),
                              '%s RD/RR = sample cell means standardized to the %s' %
                              (which, 'whole population' if g else 'non-sampled rows'), case)
                        chk.d(close(ej.risk_difference, e.risk_difference, rtol=1e-12, atol=1e-14) and
                              close(ej.risk_ratio, e.risk_ratio, rtol=1e-12, atol=1e-14),
                              '%s unaffected by outcome values recorded outside the sample%s' %
                              (which, ' (arguments given positionally in the documented order)' if pos else ''),
                              dict(case, impl_junk_Y=[float(ej.risk_difference), float(ej.risk_ratio)]))
                        # treatment and outcome recorded (junk) outside the sample: with a saturated outcome model the
                        # result is still the standardization of the SAMPLE's cell means (IPSW fits its treatment model
                        # on the sample only; AIPSW is outcome-saturated; g-transport sets A itself)
                        ea = estimators(dfa, covs, g, stab, treat, which)
                        chk.d(close(ea.risk_difference, want_rd, **TOL) and close(ea.risk_ratio, want_rr, **TOL),
                              '%s with A and Y recorded outside the sample still standardizes the sample cell means' % which,
                              dict(case, impl_AY=[float(ea.risk_difference), float(ea.risk_ratio)]))
                        # a column of the caller's frame that no model uses, with missing values on sampled and non-sampled
                        # rows (missingness related to the outcome): the analysed rows are those with the USED variables
                        # observed, so nothing changes
                        if treat != 'column':
                            dfz = dfn.copy()
                            zr = np.random.default_rng(seed + 7)
                            dfz['Zx'] = np.where((zr.uniform(size=len(dfz)) < 0.25) | ((dfz['Y'] == 1) & (zr.uniform(size=len(dfz)) < 0.3)),
                                                 np.nan, zr.normal(size=len(dfz)))
                            try:
                                ez = estimators(dfz, covs, g, stab, treat, which, extra=['Zx'])
                                chk.d(close(ez.risk_difference, want_rd, **TOL) and close(ez.risk_ratio, want_rr, **TOL),
                                      '%s: an unused column with missing values in the frame changes nothing' % which,
                                      dict(case, impl_extra_column=[float(ez.risk_difference), float(ez.risk_ratio)],
                                           extra_column_missing=int(dfz['Zx'].isnull().sum())))
                            except Exception as ex:      # noqa: BLE001
                                chk.d(False, '%s runs on a frame with an unused column holding missing values' % which,
                                      dict(case, impl_error=repr(ex)))
                        if treat != 'column':
                            model_k(chk, drv, e, dfn, covs, g, stab, which, case)
        # GTransportFormula with frequency weights (its documented `weights=` option), weights varying inside strata and
        # between sample and target: weighted sample cell means standardized to the weighted target
        from zepid.causal.generalize import GTransportFormula
        dfw = dfn.copy()
        dfw['fw'] = np.random.default_rng(seed + 11).integers(1, 5, size=len(dfw)).astype(float)
        cfw = closed_form_w(dfw, covs, 'fw')
        for g in (True, False):
            case = {'estimator': 'GTransportFormula', 'generalize': g, 'weights': 'integer frequency weights 1..4',
                    'data': rec, 'data_seed': seed}
            chk.case(case, (dsid, 'GTransportFormula/weights', g) if nontriv else None)
            chk.count('GTransportFormula/%s/weights' % ('generalize' if g else 'transport'))
            try:
                ew = GTransportFormula(dfw[covs + ['A', 'Y', 'S', 'fw']], exposure='A', outcome='Y', selection='S',
                                       generalize=g, weights='fw')
                ew.outcome_model(gen.sat_out(covs), print_results=False)
                ew.fit()
                want = [float(cfw[(g, 1)] - cfw[(g, 0)]), float(cfw[(g, 1)] / cfw[(g, 0)])]
                chk.d(close(ew.risk_difference, want[0], **TOL) and close(ew.risk_ratio, want[1], **TOL),
                      'GTransportFormula with frequency weights = weighted sample cell means standardized to the weighted %s'
                      % ('population' if g else 'non-sampled rows'),
                      dict(case, impl=[float(ew.risk_difference), float(ew.risk_ratio)], want=want))
                gtransfit_k(chk, drv, ew, dfw, covs, g, 'fw', case)
            except Exception as ex:      # noqa: BLE001
                chk.d(False, 'GTransportFormula runs with a frequency-weight column', dict(case, impl_error=repr(ex)))
        # ---- round 4: sampled rows in neither arm (third arm / unrecorded exposure), and non-binary outcome types
        for g in (True, False):
            for stab in (True, False):
                arms_cell(chk, drv, seed, index_kind, 'IPSW', g, stab, 'column', draw_after(rng))
            arms_cell(chk, drv, seed, index_kind, 'GTransportFormula', g, None, None, draw_after(rng))
            arms_cell(chk, drv, seed, index_kind, 'AIPSW', g, bool(rng.integers(0, 2)), bool(rng.integers(0, 2)),
                      draw_after(rng))
        kind = ['normal', 'count'][di % 2]
        sign = -1 if (kind == 'normal' and di % 4 == 2) else 1
        for g in (True, False):
            ytype_cell(chk, drv, seed, index_kind, kind, sign, 'GTransportFormula', g, None, None, draw_after(rng))
            ytype_cell(chk, drv, seed, index_kind, kind, sign, 'AIPSW', g, bool(rng.integers(0, 2)),
                       bool(rng.integers(0, 2)), draw_after(rng))
            ytype_cell(chk, drv, seed, index_kind, kind, sign, 'IPSW', g, bool(rng.integers(0, 2)), True, draw_after(rng))


def replay(rec):
    import common
    n = 0
    for f in rec.get('failures', []):
        c = f['case']
        if isinstance(c.get('cell'), dict):      # round-4 cells: re-run the stored cell through the same function
            chk = common.Check('C16', 'replay', 0)
            with common.quiet():
                globals()[c['cell']['fn']](chk, None, **c['cell']['args'])
            key = repr(c['cell'])
            print(c['cell']['fn'], c['cell']['args'])
            for gf in chk.d_fail:
                gc = gf['case'] if isinstance(gf['case'], dict) else {}
                print('   FAILS:', gf['what'], '| impl', gc.get('impl', gc.get('after_reporting')), '| want',
                      gc.get('want', gc.get('at_fit')), gc.get('impl_error', ''))
            if not chk.d_fail:
                print('   all predicates hold now')
            n += bool(chk.d_fail)
            continue
        seed = c['data']['data_seed']
        dfj, dfn, _, covs = make_frames(seed, c['data'].get('index', 'default'))
        cf = closed_form(dfn, covs)
        if 'weights' in c:                       # GTransportFormula with frequency weights
            from zepid.causal.generalize import GTransportFormula
            dfw = dfn.copy()
            dfw['fw'] = np.random.default_rng(seed + 11).integers(1, 5, size=len(dfw)).astype(float)
            cfw = closed_form_w(dfw, covs, 'fw')
            g = c['generalize']
            with common.quiet():
                ew = GTransportFormula(dfw[covs + ['A', 'Y', 'S', 'fw']], exposure='A', outcome='Y', selection='S',
                                       generalize=g, weights='fw')
                ew.outcome_model(gen.sat_out(covs), print_results=False)
                ew.fit()
            want = float(cfw[(g, 1)] - cfw[(g, 0)])
            print(f['what'], '| impl RD', float(ew.risk_difference), '| weighted closed form', want)
            n += not close(ew.risk_difference, want, **TOL)
            continue
        if 'impl_extra_column' in c or 'unused column' in f['what']:
            dfz = dfn.copy()
            zr = np.random.default_rng(seed + 7)
            dfz['Zx'] = np.where((zr.uniform(size=len(dfz)) < 0.25) | ((dfz['Y'] == 1) & (zr.uniform(size=len(dfz)) < 0.3)),
                                 np.nan, zr.normal(size=len(dfz)))
            g = c['generalize']
            with common.quiet():
                ez = estimators(dfz, covs, g, c['stabilized'], c['treatment_model'], c['estimator'], extra=['Zx'])
            want = float(cf[(g, 1)] - cf[(g, 0)])
            print(f['what'], '| impl RD', float(ez.risk_difference), '| closed form', want)
            n += not close(ez.risk_difference, want, **TOL)
            continue
        with common.quiet():
            grepr = {'bool': bool, 'bool_': np.bool_, 'int': int}.get(c.get('generalize_passed_as', 'bool'), bool)
            e = estimators(dfn, covs, c['generalize'], c['stabilized'], c['treatment_model'], c['estimator'], grepr)
            at_fit = (float(e.risk_difference), float(e.risk_ratio))
            apply_after(e, c.get('after'))      # the reporting calls of the stored case, then the results are read
            try:
                ej = estimators(dfj, covs, c['generalize'], c['stabilized'], c['treatment_model'], c['estimator'],
                                positional=bool(c.get('positional_calls')))
            except Exception as ex:      # noqa: BLE001
                ej = ex
        if isinstance(ej, Exception):
            print(f['what'], '| with every argument positional in the documented order the estimator raises', repr(ej))
            n += 1
            continue
        g = c['generalize']
        print(f['what'], '| impl RD/RR', float(e.risk_difference), float(e.risk_ratio), '| junk-Y variant',
              float(ej.risk_difference), float(ej.risk_ratio), '| closed form', float(cf[(g, 1)] - cf[(g, 0)]),
              float(cf[(g, 1)] / cf[(g, 0)]))
        if c.get('after'):
            print('   reporting calls', c['after'], '| RD/RR stored by fit()', at_fit)
        bad = not (close(e.risk_difference, float(cf[(g, 1)] - cf[(g, 0)]), **TOL) and
                   close(ej.risk_difference, e.risk_difference, rtol=1e-12, atol=1e-14) and
                   (float(e.risk_difference), float(e.risk_ratio)) == at_fit)
        n += bad
    print('failures reproduced:', n)
    return 1 if n else 0
