"""C03 -- TMLE targeting solves the efficient score equations and the targeted predictions / estimates stay in range.

Observation points: the guarded probe of /repo (`TMLE._verif_probe_`, `crossfit._VERIF_PROBE_`, on with ZEPID_VERIF=1),
the estimator's public attributes (QA1W, QA0W, g1W, g0W, m1W, m0W, g1W_total, g0W_total, df, the reported estimates)
and, for the cross-fit estimators, the arguments / return values of the module-level `targeting_step` and
`tmle_calculator` (recorded by a wrapper installed by this harness for the duration of one call; /repo is not edited).

Gates
  H  a reference fluctuation GLM fitted by the harness itself with the documented arguments
     (`sm.GLM(Y, [A/g1, -(1-A)/g0], offset=logit(QAW), Binomial, missing='drop')`, g = total probabilities recomputed from
     g1W, g0W, m1W, m0W) satisfies its own score equations to 1e-7*n.  If not: discard (non-convergence).
  K  (nuisance layer) zEpid's fluctuation coefficients = the reference coefficients; (model layer) the Lean model run by
     the driver at Float on (A, Delta, Y, Q, g, m, eps) reproduces the probe's Qstar/Qstar1/Qstar0, g totals, the reported
     estimates, influence-curve SEs and CIs (z as the code chooses it: 1.96 iff alpha == 0.05, that is C06's finding F12);
     (nuisance layer, outcome model) QA1W / QA0W / QAW = the model's truncation (`Tmle.truncate`: [b, 1-b] of a float,
     entries 0 and 1 of a collection of any kind and length, [cb, 1-cb] by default; offset from the truncated pair)
     applied to the predictions of a reference outcome GLM fitted by the harness with the documented arguments.
  D  on the real arrays: both efficient-score sums (with Q*A and with Q*1/Q*0; g recomputed independently) <= 1e-7*n;
     Q*A is the arm's counterfactual prediction; reported RD/RR/OR/ATE = plug-ins of the probe arrays; all Q* in [0,1];
     back-transformed values within the observed outcome range; estimates inside the parameter space; unit-interval
     round trip of the outcome.
"""
import math
import sys

import numpy as np
import pandas as pd
from scipy.stats import norm

from common import fx, unfx, rq, enc_list, dec_list, close

REQUIRED = ['qstar_consistent', 'score_rowwise', 'score_identity', 'score_equations', 'score_transfer',
            'score_equations_crossfit', 'plugin_def', 'plugin_targets', 'ate_def', 'targets_range', 'plugin_range',
            'range_binary', 'range_binary_closed', 'unbound_range', 'range_continuous', 'range_crossfit',
            'unit_bounds_range', 'unit_roundtrip', 'unit_roundtrip_clip', 'expit_real_range',
            'expit_real_strictMono', 'expit_logit_real', 'range_binary_real', 'score_equations_real', 'tmle_fit_generated_binary', 'tmle_fit_generated_continuous', 'tmle_fit_generated_useMiss',
            'xfit_targeting_generated', 'init_clip_range', 'init_offset', 'truncate_collection', 'truncate_range',
            'null_fluctuation_real', 'observers_noop', 'report_after_observers', 'plugin_after_observers']
RULE = ('TMLE.fit: (1) every cell of outcome {binary, continuous} x outcome missingness {none, missing without model, '
        'missing with missing_model} x g truncation {none, symmetric, asymmetric} x covariates {categorical only, '
        'categorical + continuous}, with alpha, continuous_bound, outcome-model bound, missing-model bound, GLM family '
        'of the continuous outcome model, sample size drawn at random inside the cell; every second repetition also '
        'varies the exposure / covariate dtype (int8..int64, uint8, float), the row index (range, shifted permutation, '
        'strings, repeated labels), formula term order, the order in which the three nuisance models are specified and '
        'which of them use the custom_model (sklearn-style, optionally warm_start) path; (2) call histories on one '
        'object: fit twice with summary() in between, re-specify the outcome / exposure / missing model (other formula, '
        'bound, family, custom learner) after a fit and fit again, re-specify everything, two estimators built from one '
        'caller frame with interleaved calls -- the state after the LAST fit is judged by the property predicates and '
        'against a fresh object given the last specification; (3) the custom_model path of each nuisance model alone '
        'and together; (4) extreme but valid data: near-positivity violations without g truncation (g down to 1e-7, '
        'eps/g beyond the overflow threshold of exp), outcome risks of a few per cent; (5) rows the estimator must '
        'discard; (6) every reporting / diagnostic method (summary with 1/3/5 decimals, run_diagnostics, positivity, '
        'standardized_mean_differences, plot_kde exposure / outcome, plot_love) called between two model '
        'specifications, between the last specification and fit(), and between fit() and reading the results -- one '
        'cell per method x position x outcome type, inside every kind of history, and at random off the plain path; '
        'whether such a call succeeds is not judged, the estimator afterwards is (property predicates + fresh object, '
        'including the nuisance predictions a caller can read back); (7) how a truncation bound is handed over: float, '
        'list, tuple, a collection with a third entry, limits of exactly 0 or 1 (g and missing model), symmetric and '
        'asymmetric bounds on the initial outcome predictions, for each nuisance model alone and for all three; '
        'right-skewed continuous outcomes, for which the Gaussian outcome model predicts outside the unit interval so '
        'that the truncation of the initial predictions is what keeps their logit defined. All predicates use the A and Y '
        'of the frame the caller passed in (snapshot taken before the estimator sees it). Data sets are simulated '
        '(logistic treatment / outcome / missingness mechanisms with random coefficients). '
        'Cross-fit: direct calls of targeting_step / tmle_calculator on generated nuisance predictions with 2-4 '
        'splits, and SingleCrossfitTMLE / DoubleCrossfitTMLE end to end with GLM / logistic learners. '
        'Any exception raised by zEpid on such input, and any output the harness cannot process, is a D failure. '
        'distinct = distinct (cell, history, data seed); non-trivial = both fluctuation coefficients differ from 0 by '
        'more than 1e-6 (the targeting step really moves the initial fit) and at least one g value was truncated when '
        'a bound was requested')
ASSUMPTIONS = ['statsmodels GLM (Binomial, logit link, offset, missing="drop") returns coefficients solving its own score '
               'equations for the two design columns (H1W, H0W): measured on a reference fit by the harness (gate H)',
               'scipy.stats.logistic.cdf is the inverse logit 1/(1+exp(-x)) and np.log(p/(1-p)) its inverse (the model '
               'runs both at Float through exp/log; agreement to 1e-9 is part of gate K)',
               'scipy.stats.norm.ppf supplies the normal quantile (table entry at 1-alpha/2)',
               '"vanish to numerical precision" is read as |sum| <= 1e-7 * n (IRLS convergence + IEEE rounding); the '
               'theorems give the exact identity between the efficient-score sums and the GLM score sums']

SCORE_TOL = 1e-7        # per row; the sums are compared with SCORE_TOL * n (DESIGN section 6, C03)
RT = 1e-9               # same formula on the same inputs: float rounding only


def expit(x):
    return 1.0 / (1.0 + np.exp(-x))


# ------------------------------------------------------------------------------------------------ data
def gen_data(dseed, cfg):
    """simulated cohort; everything derives from (dseed, cfg) so a failing case replays exactly.
    cfg keys used: outcome, missing, xcont, nlo, nhi and the optional `extreme` (near-positivity: a strong continuous
    confounder drives g to 1e-5 .. 1e-8 on some rows), `rare` (risk of a few per cent), `adtype`, `index`"""
    extreme = bool(cfg.get('extreme'))
    rare = bool(cfg.get('rare'))
    for attempt in range(200):
        r = np.random.default_rng([dseed, attempt])
        n = int(r.integers(cfg['nlo'], cfg['nhi']))
        w1 = r.integers(0, 2, n)
        w2 = r.integers(0, 3, n)
        x = np.round(r.normal(size=n), 3)
        ba = r.normal(0, 0.8, 4)
        if extreme:
            lin = r.normal(0, 0.3) + 0.3 * ba[0] * w1 + float(r.choice([-1, 1])) * r.uniform(3.0, 4.5) * x
        else:
            lin = (r.normal(0, 0.4) + ba[0] * w1 + ba[1] * (w2 == 1) + ba[2] * (w2 == 2) +
                   (ba[3] * x if cfg['xcont'] else 0))
        a = (r.uniform(size=n) < expit(lin)).astype(int)
        by = r.normal(0, 0.7, 6)
        liny = (r.normal(0, 0.4) + by[0] * a + by[1] * w1 + by[2] * (w2 == 1) + by[3] * (w2 == 2) + by[5] * a * w1 +
                (by[4] * x if cfg['xcont'] else 0))
        if rare:
            liny = liny - 2.8
        if cfg['outcome'] == 'binary':
            y = (r.uniform(size=n) < expit(liny)).astype(float)
        else:
            base, scale, raw = float(r.choice([0.0, 20.0, -7.5])), float(r.choice([1.0, 5.0, 0.25])), \
                liny + r.normal(0, 1, n)
            if cfg.get('skew'):
                # right-skewed outcome: a Gaussian outcome model then predicts below the observed minimum (below 0 on
                # the unit scale) for some rows, so the truncation of the initial predictions really has work to do
                raw = np.exp(float(cfg['skew']) * raw)
            y = np.round(base + scale * raw, 3)
        if cfg['missing'] != 'none':
            bm = r.normal(0, 0.6, 3)
            pobs = expit(1.4 + bm[0] * a + bm[1] * w1 + (bm[2] * x if cfg['xcont'] else 0))
            y = np.where(r.uniform(size=n) < pobs, y, np.nan)
        ok = 10 <= a.sum() <= n - 10 and np.isnan(y).sum() <= n // 2
        yo = y[~np.isnan(y)]
        if cfg['outcome'] == 'binary':
            need = 3 if rare else 5
            for arm in (0, 1):
                ya = y[(a == arm) & ~np.isnan(y)]
                ok = ok and need <= ya.sum() <= len(ya) - need
        else:
            ok = ok and len(np.unique(yo)) > 10
        if cfg['missing'] != 'none':
            ok = ok and np.isnan(y).sum() >= 5
        if not ok:
            continue
        cols = {'A': a, 'Y': y, 'W1': w1, 'W2': w2, 'X': x * float(cfg.get('xscale') or 1.0)}
        nd = int(cfg.get('dropped') or 0)
        if nd:
            # nd further rows that every estimator must discard (exposure, a covariate or an unused column missing).
            # Their outcomes are unremarkable or lie far outside the range of the analysed rows: rows that are not
            # analysed must not influence anything.
            span = float(yo.max() - yo.min()) if cfg['outcome'] == 'continuous' else 1.0
            if cfg['outcome'] == 'binary':
                ey = r.integers(0, 2, nd).astype(float)
            else:
                ey = r.choice(yo, nd).astype(float)
                far = r.uniform(size=nd) < 0.7
                far[0] = True
                up = r.uniform(size=nd) < 0.5
                ey = np.where(far, np.where(up, yo.max() + r.uniform(0.3, 3.0, nd) * span,
                                            yo.min() - r.uniform(0.3, 3.0, nd) * span), ey)
                ey = np.round(ey, 3)
            if cfg['missing'] != 'none':
                ey = np.where(r.uniform(size=nd) < 0.2, np.nan, ey)
            extra = {'A': r.integers(0, 2, nd).astype(float), 'Y': ey, 'W1': r.integers(0, 2, nd).astype(float),
                     'W2': r.integers(0, 3, nd), 'X': np.round(r.normal(size=nd), 3) * float(cfg.get('xscale') or 1.0),
                     'U': np.round(r.normal(size=nd), 2)}
            which = r.integers(0, 4, nd)
            for j, col in enumerate(('A', 'W1', 'X', 'U')):
                extra[col] = np.where(which == j, np.nan, extra[col])
            cols['U'] = np.round(r.normal(size=n), 2)
            perm = r.permutation(n + nd)
            cols = {k: np.concatenate([np.asarray(cols[k], dtype=float if k != 'W2' else int), extra[k]])[perm]
                    for k in ('A', 'Y', 'W1', 'W2', 'X', 'U')}
        nt = n + nd
        kind = cfg.get('index') or ('range', 'shifted', 'even')[int(r.integers(0, 3))]
        if kind == 'range':
            idx = np.arange(nt)
        elif kind == 'shifted':
            idx = r.permutation(nt) + int(r.integers(1, 1000))
        elif kind == 'even':
            idx = np.arange(nt) * 2 + 5
        elif kind == 'string':
            idx = np.array(['id%05d' % v for v in r.permutation(nt)], dtype=object)
        elif kind == 'repeated':
            idx = r.integers(0, max(2, nt // 3), nt)
        else:
            raise KeyError(kind)
        df = pd.DataFrame(cols, index=idx)
        adt = cfg.get('adtype')
        if adt and not df['A'].isna().any():
            df['A'] = df['A'].astype(adt)
        if cfg.get('wdtype') and (not df['W1'].isna().any() or str(cfg['wdtype']).startswith('float')):
            df['W1'] = df['W1'].astype(cfg['wdtype'])
        return df
    raise RuntimeError('generator could not produce an admissible data set for %r' % (cfg,))


def formulas(cfg):
    g = 'W1 + C(W2)' + (' + X' if cfg['xcont'] else '')
    q = 'A + W1 + C(W2)' + (' + X' if cfg['xcont'] else '') + (' + A:W1' if cfg.get('inter') else '')
    m = 'A + W1' + (' + X' if cfg['xcont'] else '')
    if cfg.get('extreme'):
        g = 'W1 + X'
    if cfg.get('termorder'):                            # formula term order is immaterial
        g = ' + '.join(reversed(g.split(' + ')))
        m = ' + '.join(reversed(m.split(' + ')))
        q = ' + '.join(q.split(' + ')[1:] + q.split(' + ')[:1]) if not cfg.get('inter') else q
    return g, m, q


def learner(which, cfg):
    """sklearn-style learner for the custom_model path of nuisance model `which` ('g', 'm', 'q')"""
    from sklearn.linear_model import LogisticRegression, LinearRegression
    if which == 'q' and cfg['outcome'] == 'continuous':
        return LinearRegression()
    return LogisticRegression(C=float(cfg.get('C', 1e4)), solver='lbfgs', max_iter=2000,
                              warm_start=bool(cfg.get('warm')))


def new_tmle(df, cfg):
    from zepid.causal.doublyrobust import TMLE
    if cfg.get('positional'):                           # documented signature: TMLE(df, exposure, outcome, alpha, cb)
        if cfg['outcome'] == 'continuous':
            return TMLE(df, 'A', 'Y', cfg['alpha'], cfg['cb'])
        return TMLE(df, 'A', 'Y', cfg['alpha'])
    if cfg['outcome'] == 'continuous':
        return TMLE(df, exposure='A', outcome='Y', alpha=cfg['alpha'], continuous_bound=cfg['cb'])
    return TMLE(df, exposure='A', outcome='Y', alpha=cfg['alpha'])


BOUND_KINDS = ('list', 'tuple', 'list3', 'tuple3')


def bound_arg(v, kind=None):
    """the `bound=` argument as the caller writes it.  `v` is None (no truncation requested), a float (symmetric) or
    the pair [lo, hi] that is to be applied; `kind` says how a pair is handed over: a list or a tuple ("a collection
    of floats"), optionally with a third entry, which is documented to be ignored (with a warning).  cfg stores the
    pair as a list and the kind as a string, so that a replay file (JSON) reproduces the container exactly."""
    if v is None:
        return False
    if isinstance(v, float):
        return v
    seq = [float(x) for x in v]
    kind = kind or 'list'
    if kind.endswith('3'):
        seq = seq + [0.5 * (seq[1] + 1.0)]
    return tuple(seq) if kind.startswith('tuple') else seq


def bound_interval(v, default):
    """the interval [lo, hi] a requested truncation confines the values to (`default` when none was requested)"""
    if v is None:
        return default
    if isinstance(v, float):
        return v, 1 - v
    return float(v[0]), float(v[1])


# reporting / diagnostic methods of TMLE.  The documentation presents them as read-only ("prints", "returns axes"), and
# the work flows of the docstrings call them between the model specifications and fit(), and between fit() and reading
# the estimates.  name -> call
OBSERVERS = {
    'summary': lambda t: t.summary(),
    'summary:1': lambda t: t.summary(decimal=1),
    'summary:5': lambda t: t.summary(decimal=5),
    'run_diagnostics': lambda t: t.run_diagnostics(),
    'run_diagnostics:1': lambda t: t.run_diagnostics(decimal=1),
    'positivity': lambda t: t.positivity(),
    'smd': lambda t: t.standardized_mean_differences(),
    'kde_exposure': lambda t: t.plot_kde(to_plot='exposure'),
    'kde_outcome': lambda t: t.plot_kde(to_plot='outcome'),
    'kde_outcome:silverman': lambda t: t.plot_kde('outcome', bw_method='silverman', fill=False),
    'love': lambda t: t.plot_love(),
}
CHEAP_OBSERVERS = ('summary', 'summary:1', 'summary:5', 'positivity', 'smd')


def observe(t, names):
    """call the named reporting / diagnostic methods.  Whether such a call succeeds is not C03's business (a method
    that is not available yet raises; some raise in this environment for reasons of their own, see C11): an exception
    is swallowed.  What C03 judges is the estimator afterwards."""
    if not names:
        return
    import common
    import matplotlib.pyplot as plt
    for name in names:
        try:
            with common.quiet():
                OBSERVERS[name](t)
        except Exception:                               # noqa: BLE001
            pass
        finally:
            plt.close('all')


def spec_model(t, cfg, which):
    gf, mf, qf = formulas(cfg)
    custom = cfg.get('custom') or ''
    cm = learner(which, cfg) if which in custom else None
    if which == 'g':
        t.exposure_model(gf, custom_model=cm, bound=bound_arg(cfg['gbound'], cfg.get('gbk')), print_results=False)
    elif which == 'm':
        if cfg['missing'] == 'model':
            t.missing_model(mf, custom_model=cm, bound=bound_arg(cfg['mbound'], cfg.get('mbk')), print_results=False)
    elif cfg['outcome'] == 'continuous':
        t.outcome_model(qf, custom_model=cm, print_results=False, bound=bound_arg(cfg['qbound'], cfg.get('qbk')),
                        continuous_distribution=cfg['dist'])
    else:
        t.outcome_model(qf, custom_model=cm, print_results=False)


def spec_all(t, cfg, observers=False):
    for which in (cfg.get('order') or 'gmq'):
        spec_model(t, cfg, which)
        if observers:
            observe(t, cfg.get('mid'))                  # between two model specifications


def fit_tmle(df, cfg, observers=False):
    """specify and fit; with `observers` the reporting / diagnostic calls of cfg['mid' / 'pre' / 'post'] are made
    between the specifications, before fit() and after it (the reference object is always built without them)"""
    t = new_tmle(df, cfg)
    spec_all(t, cfg, observers)
    last_fit(t, cfg, observers)
    return t


def last_fit(t, cfg, observers=True):
    if observers:
        observe(t, cfg.get('pre'))
    t.fit()
    if observers:
        observe(t, cfg.get('post'))


HISTORIES = ('single', 'refit', 'respec_q', 'respec_g', 'respec_m', 'respec_all', 'shared_frame')


def run_history(df, cfg, cfg0, hist):
    """drive one object through a call history whose LAST specification is `cfg` (`cfg0` = the earlier one).
    Returns the object whose final fit is judged."""
    import common
    if hist == 'single':
        return fit_tmle(df, cfg, observers=True)
    if hist == 'refit':
        t = fit_tmle(df, cfg, observers=True)
        with common.quiet():
            t.summary()
        last_fit(t, cfg)
        return t
    if hist == 'shared_frame':
        # two estimators built from the caller's one frame object; the first is specified and fitted in between
        t = new_tmle(df, cfg)
        other = fit_tmle(df, cfg0, observers=True)
        spec_all(t, cfg, observers=True)
        other.fit()
        observe(other, cfg.get('post'))                 # reporting on the other object
        last_fit(t, cfg)
        return t
    t = fit_tmle(df, cfg0, observers=True)
    if hist == 'respec_all':
        with common.quiet():
            t.summary()
        spec_all(t, cfg, observers=True)
    else:
        # only one nuisance model is specified again; the others keep cfg0's specification, so the judged
        # specification is cfg0 with that model's options taken from cfg (see merged_cfg)
        spec_model(t, merged_cfg(cfg, cfg0, hist), {'respec_q': 'q', 'respec_g': 'g', 'respec_m': 'm'}[hist])
    last_fit(t, cfg)
    return t


MODEL_KEYS = {'q': ('inter', 'qbound', 'qbk', 'dist'), 'g': ('gbound', 'gbk'), 'm': ('mbound', 'mbk')}


def merged_cfg(cfg, cfg0, hist):
    """the specification in force at the last fit of history `hist`"""
    if hist in ('single', 'refit', 'respec_all', 'shared_frame'):
        return cfg
    which = {'respec_q': 'q', 'respec_g': 'g', 'respec_m': 'm'}[hist]
    out = dict(cfg0)
    for k in MODEL_KEYS[which]:
        out[k] = cfg.get(k)
    out['custom'] = ''.join(sorted((set(cfg0.get('custom') or '') - {which}) |
                                   (set(cfg.get('custom') or '') & {which})))
    return out


# ------------------------------------------------------------------------------------------------ reference GLM (H)
def reference_fluctuation(y, a, qa, g1, g0):
    """the fluctuation model as documented, fitted by the harness; returns (eps, score sums, n_obs) or None"""
    import statsmodels.api as sm
    h1 = a / g1
    h0 = -(1 - a) / g0
    X = np.column_stack((h1, h0))
    off = np.log(qa / (1 - qa))
    try:
        ref = sm.GLM(y, X, offset=off, family=sm.families.family.Binomial(), missing='drop').fit()
        mu = np.asarray(ref.predict(X, offset=off), dtype=float)
    except Exception:                                   # noqa: BLE001  (reference call failed: discard)
        return None
    obs = ~np.isnan(y)
    s1 = float(np.sum((h1 * (y - mu))[obs]))
    s0 = float(np.sum((h0 * (y - mu))[obs]))
    return np.asarray(ref.params, dtype=float), (s1, s0), int(obs.sum())


def reference_outcome(snap, y, cfg):
    """the outcome model as documented, fitted by the harness itself: GLM of the outcome (unit scale for continuous
    outcomes) on the formula over the analysed rows with an observed outcome, family by outcome type / the requested
    distribution; returns its predictions for every analysed row with the exposure set to 1 and to 0 (before any
    truncation), or None when the reference call fails"""
    import statsmodels.api as sm
    import statsmodels.formula.api as smf
    if cfg['outcome'] == 'binary':
        fam = sm.families.family.Binomial()
    else:
        fam = sm.families.family.Poisson() if cfg['dist'] == 'poisson' else sm.families.family.Gaussian()
    ref = snap.copy()
    ref['A'] = np.asarray(ref['A'], dtype=float)
    ref['Y'] = y
    try:
        import common
        with common.quiet():
            fit = smf.glm('Y ~ ' + formulas(cfg)[2], ref[ref['Y'].notna()], family=fam).fit()
            out = []
            for level in (1, 0):
                d = ref.copy()
                d['A'] = level
                out.append(np.asarray(fit.predict(d), dtype=float))
    except Exception:                                   # noqa: BLE001  (reference call failed: not compared)
        return None
    return out if all(np.all(np.isfinite(v)) for v in out) else None


def fl_list(v):
    return enc_list(np.asarray(v, dtype=float).tolist(), fx)


def allclose(model_list, arr, rtol=RT, atol=1e-12):
    arr = np.asarray(arr, dtype=float)
    return len(model_list) == len(arr) and all(close(m, v, rtol=rtol, atol=atol) for m, v in zip(model_list, arr))


def cell_name(cfg):
    return 'cell %s/%s/%s/%s' % (cfg['outcome'], cfg['missing'],
                                 'none' if cfg['gbound'] is None else
                                 ('sym' if isinstance(cfg['gbound'], float) else 'asym'),
                                 'cont' if cfg['xcont'] else 'cat')


# ------------------------------------------------------------------------------------------------ one TMLE.fit case
def check_tmle_case(chk, drv, cfg, dseed, hist='single', cfg0=None):
    """one data set, one call history on one TMLE object; the state after the last fit() is judged
    (a) by the property's own predicates, evaluated with the A and Y *the caller passed in*, and
    (b) against a fresh object given the last specification on a pristine copy of the caller's frame"""
    case = {'kind': 'TMLE.fit', 'cfg': cfg, 'dseed': dseed, 'hist': hist, 'cfg0': cfg0}
    chk.count(cell_name(cfg))
    chk.count('history ' + hist)
    for k in ('extreme', 'rare', 'custom', 'adtype', 'index', 'warm', 'termorder', 'order', 'dropped', 'positional',
              'xscale', 'skew'):
        if cfg.get(k):
            chk.count('%s=%s' % (k, cfg[k]))
    for k in ('mid', 'pre', 'post'):
        for name in cfg.get(k) or ():
            chk.count('observer %s-fit: %s' % (k, name))
    for k, kk in (('gbound', 'gbk'), ('qbound', 'qbk'), ('mbound', 'mbk')):
        if isinstance(cfg.get(k), list):
            chk.count('%s given as %s' % (k, cfg.get(kk) or 'list'))
            if cfg[k][0] == 0.0 or cfg[k][1] == 1.0:
                chk.count('%s with a limit of exactly 0 or 1' % k)
    try:
        df = gen_data(dseed, cfg)
        snap = df.copy(deep=True)                        # what the caller passed in
        case['n'] = len(df)
    except Exception as e:                              # noqa: BLE001
        chk.case(case)
        chk.d(False, 'harness could not generate the case: %s: %s' % (type(e).__name__, e), case)
        return
    eff = merged_cfg(cfg, cfg0, hist) if cfg0 is not None else cfg
    try:
        t = run_history(df, cfg, cfg0, hist)
        err = None
    except Exception as e:                              # noqa: BLE001
        t, err = None, '%s: %s' % (type(e).__name__, e)
    if t is None:
        # "every model specification that converges": if the documented parametric nuisance GLMs cannot be fitted
        # by the harness either, the case is outside the quantifier; anything else raised on a valid input fails D
        import statsmodels.api as sm
        import statsmodels.formula.api as smf
        gf, mf, qf = formulas(eff)
        try:
            smf.glm('A ~ ' + gf, snap.astype({'A': float}), family=sm.families.family.Binomial()).fit()
            fam = sm.families.family.Binomial() if cfg['outcome'] == 'binary' else sm.families.family.Gaussian()
            smf.glm('Y ~ ' + qf, snap.astype({'A': float}).dropna(), family=fam).fit()
            ref_ok = True
        except Exception:                               # noqa: BLE001
            ref_ok = False
        chk.case(case)
        if not ref_ok:
            chk.discard('reference nuisance GLM failed')
            return
        chk.d(False, 'TMLE raised on an admissible data set / call history: ' + err, case)
        return
    try:
        evaluate_tmle(chk, drv, t, snap, eff, case)
        if hist != 'single' or any(cfg.get(k) for k in ('mid', 'pre', 'post')) or \
                any(eff.get(k) not in (None, 'list') for k in ('gbk', 'qbk', 'mbk')):
            compare_fresh(chk, t, snap, eff, case)
    except Exception as e:                              # noqa: BLE001
        import traceback
        chk.d(False, 'the outputs of TMLE could not be processed (%s: %s)' % (type(e).__name__, e),
              dict(case, traceback=traceback.format_exc()[-1500:]))


def estimates_of(t, cont):
    names = (('average_treatment_effect', 'average_treatment_effect_se') if cont else
             ('risk_difference', 'risk_ratio', 'odds_ratio', 'risk_difference_se', 'risk_ratio_se', 'odds_ratio_se'))
    return {k: float(getattr(t, k)) for k in names}


def compare_fresh(chk, t, snap, eff, case):
    """history independence of the targeting step: same numbers as a fresh object with the last specification"""
    # the reference invocation: canonical order of the specifications, no reporting calls, and every asymmetric
    # bound written the way the docstrings show it (a two-entry list) -- a tuple, or a third entry that is documented
    # to be ignored, denotes the same bound
    fresh_cfg = dict(eff, order='gmq', gbk='list', qbk='list', mbk='list')
    try:
        f = fit_tmle(snap.copy(deep=True), fresh_cfg)
    except Exception as e:                              # noqa: BLE001
        chk.discard('fresh reference object raised (%s)' % type(e).__name__)
        return
    cont = eff['outcome'] == 'continuous'
    a, b = estimates_of(t, cont), estimates_of(f, cont)
    # 1e-7: custom learners (lbfgs) and IRLS stop at their own tolerances; identical inputs give identical bits in
    # practice, the slack only admits solver noise
    bad = [k for k in a if not close(a[k], b[k], rtol=1e-7, atol=1e-9)]
    pa, pb = t._verif_probe_, f._verif_probe_
    for k in ('Qstar', 'Qstar1', 'Qstar0'):
        if not allclose(np.asarray(pa[k], dtype=float).tolist(), pb[k], rtol=1e-7, atol=1e-9):
            bad.append(k)
    # the nuisance predictions the caller can read back are the ones the last specification produces (a reporting or
    # diagnostic call must not have touched them, before or after fit)
    for k in ('QA1W', 'QA0W', 'QAW', 'g1W', 'g0W'):
        if not allclose(np.asarray(getattr(t, k), dtype=float).tolist(), getattr(f, k), rtol=1e-7, atol=1e-9):
            bad.append(k)
    chk.d(not bad, 'after the call history the estimates and targeted predictions equal those of a fresh object with '
          'the last specification (bounds written as two-entry lists)', dict(case, differs=bad, history=a, fresh=b))


def analysed_rows(snap, outcome='Y', drop_outcome=False):
    """rows of the caller's frame the estimator is documented to analyse: every column other than the outcome
    observed (the cross-fit estimators also drop rows with a missing outcome)"""
    keep = snap.drop(columns=[outcome]).notna().all(axis=1)
    if drop_outcome:
        keep = keep & snap[outcome].notna()
    return snap[keep.to_numpy()]


def evaluate_tmle(chk, drv, t, snap, cfg, case):
    n_in = len(snap)
    snap = analysed_rows(snap)
    n = len(snap)
    chk.count('rows discarded by TMLE > 0' if n < n_in else 'no row discarded')
    p = t._verif_probe_
    cont = cfg['outcome'] == 'continuous'
    # ---- what the caller passed in (row order is preserved; no covariate is missing, so no row is dropped)
    a = np.asarray(snap['A'], dtype=float)
    y_in = np.asarray(snap['Y'], dtype=float)
    obs = ~np.isnan(y_in)
    lo, hi = (float(np.nanmin(y_in)), float(np.nanmax(y_in))) if cont else (0.0, 1.0)
    if cont:                                            # the documented unit-interval map, computed by the harness
        cb = cfg['cb']
        y = np.clip((y_in - lo) / (hi - lo), cb, 1 - cb)
    else:
        cb = 0.0
        y = y_in.copy()
    a_lib = np.asarray(t.df['A'], dtype=float)
    y_lib = np.asarray(t.df['Y'], dtype=float)
    q1 = np.asarray(t.QA1W, dtype=float)
    q0 = np.asarray(t.QA0W, dtype=float)
    g1 = np.asarray(t.g1W, dtype=float)
    g0 = np.asarray(t.g0W, dtype=float)
    usemiss = cfg['missing'] == 'model'
    m1 = np.asarray(t.m1W, dtype=float) if usemiss else np.ones(n)
    m0 = np.asarray(t.m0W, dtype=float) if usemiss else np.ones(n)
    gt1 = g1 * m1 if usemiss else g1                    # independent recomputation of the total probabilities
    gt0 = g0 * m0 if usemiss else g0
    eps = np.asarray(p['epsilon'], dtype=float)
    qs, qs1, qs0 = (np.asarray(p[k], dtype=float) for k in ('Qstar', 'Qstar1', 'Qstar0'))
    if cfg['gbound'] is None:
        truncated = False
    else:
        ends = list(bound_interval(cfg['gbound'], None))
        truncated = bool(np.any(np.isin(g1, ends)) or np.any(np.isin(g0, ends)))
    moved = bool(abs(eps[0]) > 1e-6 and abs(eps[1]) > 1e-6)
    nontriv = moved and (cfg['gbound'] is None or truncated)
    chk.case(case, (repr(sorted(cfg.items(), key=str)), case['dseed'], case.get('hist')) if nontriv else None,
             sample={'cfg': cfg, 'dseed': case['dseed'], 'hist': case.get('hist'), 'n': n,
                     'n_missing': int((~obs).sum()), 'epsilon': eps.tolist(),
                     'estimate': float(t.average_treatment_effect if cont else t.risk_difference)}
             if chk.evals % 7 == 0 else None)
    chk.count('n_missing_outcome>0' if (~obs).any() else 'complete_outcome')
    chk.count('g_truncated' if truncated else 'g_not_truncated')
    if cfg.get('extreme'):
        big = max(float(np.max(eps[0] / gt1)), float(np.max(-eps[1] / gt0)))
        chk.count('extreme: eps/g > 709 on some row' if big > 709 else 'extreme: eps/g <= 709')
        chk.extra['min_g_seen'] = min(chk.extra.get('min_g_seen', 1.0), float(gt1.min()), float(gt0.min()))

    # ---- D, independent of whether the fluctuation GLM converged: shapes, the estimator's copy of the data,
    #      finiteness, range, plug-ins
    shapes = all(len(v) == n for v in (a_lib, y_lib, q1, q0, g1, g0, qs, qs1, qs0, p['H1W'], p['H0W']))
    chk.d(shapes, 'one nuisance / targeted prediction per row of the data', case)
    if not shapes:
        return
    chk.d(allclose(a_lib.tolist(), a, rtol=0, atol=0), 'the exposure column TMLE works with is the caller\'s', case)
    chk.d(bool(np.array_equal(np.isnan(y_lib), ~obs)) and allclose(y_lib[obs].tolist(), y[obs], rtol=1e-12, atol=1e-15),
          'the outcome column TMLE works with is the caller\'s outcome (unit-interval map for continuous outcomes)',
          case)
    nuis_ok = all(bool(np.all(np.isfinite(v))) for v in (q1, q0, gt1, gt0)) and \
        bool(np.all((q1 >= 0) & (q1 <= 1) & (q0 >= 0) & (q0 <= 1) & (gt1 > 0) & (gt1 <= 1) & (gt0 > 0) & (gt0 <= 1)))
    chk.d(nuis_ok, 'nuisance predictions handed to the targeting step are finite probabilities', case)
    if not nuis_ok:
        return
    w1 = a / gt1
    w0 = (1 - a) / gt0
    # ---- H: reference fluctuation fit (documented arguments, caller's A and Y, the object's current nuisance output)
    qa = q1 * a + q0 * (1 - a)
    tol = SCORE_TOL * n
    ref = reference_fluctuation(y, a, qa, gt1, gt0)
    if ref is None or not all(math.isfinite(s) and abs(s) <= tol for s in ref[1]):
        chk.discard('reference fluctuation GLM did not converge')
        return
    chk.h_checked += 1
    chk.extra['max_ref_score'] = max(chk.extra.get('max_ref_score', 0.0), abs(ref[1][0]), abs(ref[1][1]))

    fin = all(np.all(np.isfinite(v)) for v in (qs, qs1, qs0))
    chk.d(fin, 'targeted predictions are finite', case)
    est = estimates_of(t, cont)
    chk.d(all(math.isfinite(v) for v in est.values()), 'reported estimates and standard errors are finite',
          dict(case, est=est))
    if not fin:
        return
    inunit = all(bool(np.all((v >= 0) & (v <= 1))) for v in (qs, qs1, qs0))
    chk.d(inunit, 'every targeted prediction lies in [0,1]', case)
    mn1, mn0 = np.float64(np.mean(qs1)), np.float64(np.mean(qs0))
    if cont:
        plug = {'average_treatment_effect': (hi - lo) * (mn1 - mn0)}
    else:
        plug = {'risk_difference': mn1 - mn0, 'risk_ratio': mn1 / mn0,
                'odds_ratio': (mn1 / (1 - mn1)) / (mn0 / (1 - mn0))}
    for name, want in plug.items():
        got = float(getattr(t, name))
        # 1e-10 relative (+1e-12 abs): mean of differences vs difference of means, and unbound-then-average vs
        # average-then-unbound, differ by rounding only
        chk.d(close(got, want, rtol=1e-10, atol=1e-12 * max(1.0, hi - lo)),
              'reported %s is the plug-in of the means of the targeted predictions' % name,
              dict(case, reported=got, plugin=want))
    others = ('risk_difference', 'risk_ratio', 'odds_ratio') if cont else ('average_treatment_effect',)
    chk.d(all(getattr(t, o) is None for o in others), 'only the measures of the outcome type are reported', case)
    # initial predictions were clipped into [bound, 1-bound] / [lower, upper] (else logit is undefined)
    qlo, qhi = bound_interval(cfg.get('qbound') if cont else None, (cfg['cb'], 1 - cfg['cb']) if cont else (0.0, 1.0))
    chk.d(bool(np.all((q1 >= qlo) & (q1 <= qhi) & (q0 >= qlo) & (q0 <= qhi))),
          'initial predictions lie in [bound, 1-bound]', case)
    if cont:
        chk.count('initial prediction truncated' if bool(np.any(np.isin(q1, (qlo, qhi))) or np.any(np.isin(q0, (qlo, qhi))))
                  else 'no initial prediction truncated')
    if cont:
        slack = 1e-12 * max(1.0, abs(lo), abs(hi))
        for v in (qs, qs1, qs0):
            back = v * (hi - lo) + lo
            chk.d(bool(np.all((back >= lo - slack) & (back <= hi + slack))),
                  'back-transformed targeted predictions lie within the observed outcome range', case)
        ate = float(t.average_treatment_effect)
        chk.d(abs(ate) <= (hi - lo) + slack, 'ATE within +-(max - min)', dict(case, ate=ate))
        # unit-interval round trip of the outcome column the estimator holds
        back = y_lib[obs] * (hi - lo) + lo
        inner = (y_in[obs] - lo) / (hi - lo)
        inside = (inner >= cb) & (inner <= 1 - cb)
        chk.d(bool(np.all(np.abs(back - y_in[obs])[inside] <= 1e-12 * max(1.0, abs(lo), abs(hi)))) and
              bool(np.all(np.abs(back - y_in[obs]) <= cb * (hi - lo) + slack)),
              'unit-interval map and back-map: identity inside the clip region, moved by <= cb*(max-min) at the ends',
              case)
        chk.d(bool(np.all((y_lib[obs] >= cb) & (y_lib[obs] <= 1 - cb))), 'scaled outcome lies in [cb, 1-cb]', case)
    else:
        rd, rr, orr = float(t.risk_difference), float(t.risk_ratio), float(t.odds_ratio)
        chk.d(-1 <= rd <= 1 and rr >= 0 and orr >= 0 and 0 <= mn1 <= 1 and 0 <= mn0 <= 1,
              'risks in [0,1], RD in [-1,1], RR and OR non-negative', dict(case, rd=rd, rr=rr, odds_ratio=orr))
    # the clever covariates the code used are A/g_total and -(1-A)/g_total with the caller's A and the *total* g
    chk.d(allclose(np.asarray(p['H1W'], dtype=float).tolist(), w1, rtol=1e-12) and
          allclose(np.asarray(p['H0W'], dtype=float).tolist(), -w0, rtol=1e-12),
          'clever covariates are A/g1 and -(1-A)/g0 with g the total (treatment x observation) probabilities', case)
    chk.d(allclose(qs.tolist(), np.where(a == 1, qs1, qs0), rtol=RT),
          'Q* under the observed treatment equals the counterfactual prediction of that arm', case)

    # ---- D: both efficient-score equations, on the caller's A and Y with independently recomputed g
    sums = {'A/g1*(Y-Q*)': float(np.sum((w1 * (y - qs))[obs])), '(1-A)/g0*(Y-Q*)': float(np.sum((w0 * (y - qs))[obs])),
            'A/g1*(Y-Q*1)': float(np.sum((w1 * (y - qs1))[obs])),
            '(1-A)/g0*(Y-Q*0)': float(np.sum((w0 * (y - qs0))[obs]))}
    chk.extra['max_eff_score'] = max([chk.extra.get('max_eff_score', 0.0)] + [abs(v) for v in sums.values()])
    for name, v in sums.items():
        chk.d(abs(v) <= tol, 'efficient score equation: sum over observed rows of %s vanishes (<= 1e-7 n)' % name,
              dict(case, sum=v, tol=tol))

    # ---- K (nuisance layer): zEpid's coefficients are those of the documented fluctuation model.
    # 1e-6: both are IRLS solutions of the same strictly concave problem; they differ by convergence error only
    # (near-positivity data: the likelihood is flat in the direction of the huge clever covariates, not compared)
    if not cfg.get('extreme'):
        chk.k(all(close(e, r, rtol=1e-6, atol=1e-8) for e, r in zip(eps, ref[0])),
              'fluctuation coefficients = reference GLM(Y ~ -1 + H1W + H0W, offset logit QAW) coefficients',
              {'case': case, 'eps': eps.tolist(), 'ref': ref[0].tolist()})

    # ---- K (model layer)
    if drv is not None:
        alpha = cfg['alpha']
        kw = dict(kind=cfg['outcome'], usemiss=int(usemiss), a=enc_list(a.astype(int).tolist(), str),
                  obs=enc_list(obs.astype(int).tolist(), str), y=fl_list(np.where(obs, y, 0.0)),
                  q1=fl_list(q1), q0=fl_list(q0), g1=fl_list(g1), g0=fl_list(g0), m1=fl_list(m1), m0=fl_list(m0),
                  e1=fx(eps[0]), e2=fx(eps[1]), alpha=fx(alpha), px=fx(1 - alpha / 2),
                  pz=fx(norm.ppf(1 - alpha / 2, loc=0, scale=1)))
        if cont:
            kw.update(mini=fx(lo), maxi=fx(hi))
        rep, line = drv.ask('tmle', **kw)
        ok = rep['status'] == 'ok'
        detail = {}
        pairs = []
        if ok:
            cmp = [('gt1', t.g1W_total), ('gt0', t.g0W_total), ('sA', qs), ('s1', qs1), ('s0', qs0)]
            for key, arr in cmp:
                good = allclose(dec_list(rep[key], unfx), arr)
                detail[key] = good
                ok = ok and good
            if cont:
                pairs = [('ate', t.average_treatment_effect), ('atese', t.average_treatment_effect_se),
                         ('atel', t.average_treatment_effect_ci[0]), ('ateu', t.average_treatment_effect_ci[1])]
            else:
                pairs = [('rd', t.risk_difference), ('rdse', t.risk_difference_se),
                         ('rdl', t.risk_difference_ci[0]), ('rdu', t.risk_difference_ci[1]),
                         ('rr', t.risk_ratio), ('rrse', t.risk_ratio_se),
                         ('rrl', t.risk_ratio_ci[0]), ('rru', t.risk_ratio_ci[1]),
                         ('or', t.odds_ratio), ('orse', t.odds_ratio_se),
                         ('orl', t.odds_ratio_ci[0]), ('oru', t.odds_ratio_ci[1])]
            for key, v in pairs:
                # SEs pass through a variance of n influence-curve values: 1e-9 relative covers the different
                # summation order (pairwise in numpy, sequential in the model); absolute floor 1e-12
                good = close(unfx(rep[key]), float(v), rtol=RT, atol=1e-12)
                detail[key] = good
                ok = ok and good
        chk.k(ok, 'tmle model vs TMLE.fit (%s)' % cfg['outcome'],
              {'case': case, 'mismatch': [k for k, v in detail.items() if not v], 'status': rep.get('status'),
               'err': rep.get('err')})
        if rep['status'] == 'ok':
            # the definition generated from the text of TMLE.fit (Gen.tmle_fit_*), run on the same inputs
            bad = [key for key, v in pairs if not close(unfx(rep['g' + key]), float(v), rtol=RT, atol=1e-12)]
            chk.k(not bad, 'TMLE.fit = definition generated from its source (%s)' % cfg['outcome'],
                  {'case': case, 'mismatch': bad})
        # ---- K (nuisance layer, outcome model): what fit() finds in QA1W / QA0W / QAW is the documented outcome
        # model's prediction (reference invocation by the harness) truncated as the model of `outcome_model` says --
        # interval = the float's [b, 1-b], entries 0 and 1 of a collection of any kind and length, [cb, 1-cb] when no
        # bound was requested -- and the offset is formed from the truncated pair.  1e-8: two IRLS runs on the same data
        if 'q' not in (cfg.get('custom') or ''):
            refq = reference_outcome(snap, y, cfg)
            if refq is None:
                chk.count('reference outcome model not available')
            else:
                qbv = cfg.get('qbound') if cont else None
                if isinstance(qbv, list):
                    spec = dict(spec='coll', items=fl_list(bound_arg(qbv, cfg.get('qbk'))))
                else:
                    spec = dict(spec='sym', b=fx(float(qbv) if qbv is not None else float(cb)))
                rep, _ = drv.ask('qinit', a=enc_list(a.astype(int).tolist(), str), q1=fl_list(refq[0]),
                                 q0=fl_list(refq[1]), **spec)
                bad = [k for k, v in (('q1', q1), ('q0', q0), ('qa', np.asarray(t.QAW, dtype=float)))
                       if rep['status'] != 'ok' or not allclose(dec_list(rep[k], unfx), v, rtol=1e-8, atol=1e-10)]
                chk.k(not bad, 'QA1W / QA0W / QAW = model of outcome_model\'s truncation applied to the reference '
                      'outcome model\'s predictions', {'case': case, 'mismatch': bad, 'status': rep.get('status')})
        if cont:
            rep, _ = drv.ask('unit', y=fl_list(np.where(np.isnan(y_in), 0.0, y_in)), mini=fx(lo), maxi=fx(hi),
                             cb=fx(cfg['cb']))
            okb = rep['status'] == 'ok' and allclose([v for v, o in zip(dec_list(rep['bounded'], unfx), obs) if o],
                                                     y_lib[obs], rtol=1e-12, atol=1e-15)
            chk.k(okb, 'generated tmle_unit_bounds vs the outcome column TMLE works with', {'case': case})


# ------------------------------------------------------------------------------------------------ cross-fit
def crossfit_module():
    import zepid.causal.doublyrobust  # noqa: F401
    return sys.modules['zepid.causal.doublyrobust.crossfit']


def gen_cf(dseed, cfg):
    r = np.random.default_rng([dseed, 77])
    k = cfg['k']
    sizes = [int(r.integers(cfg['nlo'], cfg['nhi'])) for _ in range(k)]
    splits = np.repeat(np.arange(k), sizes)
    n = len(splits)
    x = r.normal(size=n)
    pa1 = expit(r.normal(0, 0.3) + r.normal(0, 0.8) * x)
    a = (r.uniform(size=n) < pa1).astype(float)
    if cfg['gclip'] is not None:
        pa1 = np.clip(pa1, cfg['gclip'][0], cfg['gclip'][1])
    py_a = np.clip(expit(0.4 + 0.6 * x + r.normal(0, 0.3, n)), 0.02, 0.98)
    py_n = np.clip(expit(-0.2 + 0.5 * x + r.normal(0, 0.3, n)), 0.02, 0.98)
    truth = expit(r.normal(0, 0.3) + 0.8 * a + 0.7 * x)
    if cfg['outcome'] == 'binary':
        y = (r.uniform(size=n) < truth).astype(float)
    else:
        y = np.clip(truth + r.normal(0, 0.15, n), 0.0005, 0.9995)
    if cfg.get('adtype'):
        a = a.astype(cfg['adtype'])
    return dict(y=y, a=a, py_a=py_a, py_n=py_n, pa1=pa1, pa0=1 - pa1, splits=splits)


def eval_targeting(chk, drv, case, kw, out, probes, cont_range=None):
    """H/K/D for one call of crossfit.targeting_step(kw) -> out, probes = that call's probe entries"""
    mod = crossfit_module()
    y, a, py_a, py_n, pa1, pa0, splits = (np.asarray(kw[k], dtype=float) for k in
                                          ('y', 'a', 'py_a', 'py_n', 'pa1', 'pa0', 'splits'))
    splits = splits.astype(int)
    ystar1, ystar0, ystara, h1w, h0w, haw = (np.asarray(v, dtype=float) for v in out)
    n = len(y)
    ids = sorted(set(splits.tolist()))
    if not bool(np.all(np.diff(splits) >= 0)):
        chk.discard('targeting_step called with unsorted split labels (never done by the estimators)')
        return
    chk.d(len(ystar1) == n and len(ystar0) == n and len(ystara) == n and len(probes) == len(ids),
          'targeting_step returns one targeted prediction per row and fits one fluctuation per split', case)
    if len(ystar1) != n or len(probes) != len(ids):
        return
    fin = all(np.all(np.isfinite(v)) for v in (ystar1, ystar0, ystara))
    chk.d(fin, 'cross-fit targeted predictions are finite', case)
    if not fin:
        return
    py_o = a * py_a + (1 - a) * py_n
    pr = {int(q['split']): q for q in probes}
    e1s, e2s = [], []
    for s in ids:
        ix = splits == s
        ns = int(ix.sum())
        ref = reference_fluctuation(y[ix], a[ix], py_o[ix], pa1[ix], pa0[ix])
        if ref is None or not all(math.isfinite(v) and abs(v) <= SCORE_TOL * ns for v in ref[1]):
            chk.discard('reference fluctuation GLM did not converge (cross-fit split)')
            return
        chk.h_checked += 1
        eps = np.asarray(pr[s]['epsilon'], dtype=float)
        e1s.append(eps[0])
        e2s.append(eps[1])
        chk.k(all(close(e, r_, rtol=1e-6, atol=1e-8) for e, r_ in zip(eps, ref[0])),
              'cross-fit split fluctuation coefficients = reference GLM coefficients',
              {'case': case, 'split': s, 'eps': eps.tolist(), 'ref': ref[0].tolist()})
        tol = SCORE_TOL * ns
        w1, w0 = a[ix] / pa1[ix], (1 - a[ix]) / pa0[ix]
        sums = {'A/g1*(Y-Q*)': float(np.sum(w1 * (y[ix] - ystara[ix]))),
                '(1-A)/g0*(Y-Q*)': float(np.sum(w0 * (y[ix] - ystara[ix]))),
                'A/g1*(Y-Q*1)': float(np.sum(w1 * (y[ix] - ystar1[ix]))),
                '(1-A)/g0*(Y-Q*0)': float(np.sum(w0 * (y[ix] - ystar0[ix])))}
        chk.extra['max_eff_score_cf'] = max([chk.extra.get('max_eff_score_cf', 0.0)] + [abs(v) for v in sums.values()])
        for name, v in sums.items():
            chk.d(abs(v) <= tol, 'cross-fit split: sum of %s vanishes (<= 1e-7 n_split)' % name,
                  dict(case, split=s, sum=v, tol=tol))
        chk.d(allclose(ystara[ix].tolist(), np.where(a[ix] == 1, ystar1[ix], ystar0[ix]), rtol=RT),
              'cross-fit split: Q* under the observed treatment equals the arm\'s counterfactual prediction',
              dict(case, split=s))
    chk.d(allclose(h1w.tolist(), a / pa1, rtol=1e-12) and allclose(h0w.tolist(), -(1 - a) / pa0, rtol=1e-12),
          'cross-fit clever covariates are A/g1 and -(1-A)/g0', case)
    chk.d(all(bool(np.all((v >= 0) & (v <= 1))) for v in (ystar1, ystar0, ystara)),
          'every cross-fit targeted prediction lies in [0,1]', case)
    # plug-ins through tmle_calculator (point estimates only; the variance belongs to C06)
    mn1, mn0 = float(np.mean(ystar1)), float(np.mean(ystar0))
    est = {}
    if cont_range is None:
        for m in ('risk_difference', 'risk_ratio', 'odds_ratio'):
            est[m] = float(mod.tmle_calculator(y=y, ystar1=ystar1, ystar0=ystar0, ystara=ystara, h1w=h1w, h0w=h0w,
                                               haw=haw, splits=splits, measure=m)[0])
        plug = {'risk_difference': mn1 - mn0, 'risk_ratio': mn1 / mn0,
                'odds_ratio': (mn1 / (1 - mn1)) / (mn0 / (1 - mn0))}
        chk.d(-1 <= est['risk_difference'] <= 1 and est['risk_ratio'] >= 0 and est['odds_ratio'] >= 0,
              'cross-fit RD in [-1,1], RR and OR non-negative', dict(case, est=est))
        scale = 1.0
    else:
        lo, hi = cont_range
        est['ate'] = float(mod.tmle_calculator(y=y, ystar1=ystar1, ystar0=ystar0, ystara=ystara, h1w=h1w, h0w=h0w,
                                               haw=haw, splits=splits, measure='ate', lower_bound=lo,
                                               upper_bound=hi)[0])
        plug = {'ate': (hi - lo) * (mn1 - mn0)}
        scale = max(1.0, hi - lo)
        chk.d(abs(est['ate']) <= (hi - lo) * (1 + 1e-12), 'cross-fit ATE within +-(max - min)', dict(case, est=est))
    for m, want in plug.items():
        chk.d(close(est[m], want, rtol=1e-10, atol=1e-12 * scale),
              'tmle_calculator %s is the plug-in of the means of the targeted predictions' % m,
              dict(case, reported=est[m], plugin=want))
    if drv is not None:
        kwd = dict(splits=enc_list(splits.tolist(), str), a=enc_list(a.astype(int).tolist(), str), y=fl_list(y),
                   q1=fl_list(py_a), q0=fl_list(py_n), g1=fl_list(pa1), g0=fl_list(pa0), e1=fl_list(e1s),
                   e2=fl_list(e2s))
        if cont_range is not None:
            kwd.update(mini=fx(cont_range[0]), maxi=fx(cont_range[1]))
        rep, _ = drv.ask('tmlecf', **kwd)
        ok = rep['status'] == 'ok'
        bad = []
        if ok:
            for key, arr in (('s1', ystar1), ('s0', ystar0), ('sA', ystara)):
                if not allclose(dec_list(rep[key], unfx), arr):
                    bad.append(key)
            names = {'risk_difference': 'rd', 'risk_ratio': 'rr', 'odds_ratio': 'or', 'ate': 'ate'}
            for m, v in est.items():
                if not close(unfx(rep[names[m]]), v, rtol=RT, atol=1e-12 * scale):
                    bad.append(m)
        chk.k(ok and not bad, 'tmlecf model vs targeting_step / tmle_calculator',
              {'case': case, 'mismatch': bad, 'status': rep.get('status'), 'err': rep.get('err')})
    return est


def check_cf_direct(chk, drv, cfg, dseed):
    mod = crossfit_module()
    kw = gen_cf(dseed, cfg)
    case = {'kind': 'targeting_step', 'cfg': cfg, 'dseed': dseed, 'n': int(len(kw['y']))}
    del mod._VERIF_PROBE_[:]
    try:
        out = mod.targeting_step(**kw)
    except Exception as e:                              # noqa: BLE001
        chk.case(case)
        chk.d(False, 'targeting_step raised on admissible nuisance predictions: %s: %s' % (type(e).__name__, e), case)
        return
    probes = list(mod._VERIF_PROBE_)
    del mod._VERIF_PROBE_[:]
    moved = all(abs(q['epsilon'][0]) > 1e-6 and abs(q['epsilon'][1]) > 1e-6 for q in probes)
    chk.case(case, ('cf', repr(sorted(cfg.items(), key=str)), dseed) if moved else None)
    chk.count('crossfit_direct_%s_k%d' % (cfg['outcome'], cfg['k']))
    chk.count('crossfit adtype=%s' % cfg.get('adtype'))
    eval_targeting(chk, drv, case, kw, out, probes,
                   cont_range=(cfg['lo'], cfg['hi']) if cfg['outcome'] == 'continuous' else None)


def check_cf_estimator(chk, drv, cfg, dseed):
    """SingleCrossfitTMLE / DoubleCrossfitTMLE end to end; targeting_step is observed through a recording wrapper"""
    import statsmodels.api as sm
    from sklearn.linear_model import LogisticRegression
    from zepid.causal.doublyrobust import SingleCrossfitTMLE, DoubleCrossfitTMLE
    from zepid.superlearner import GLMSL
    mod = crossfit_module()
    dcfg = dict(outcome=cfg['outcome'], missing='none', xcont=True, nlo=cfg['nlo'], nhi=cfg['nhi'],
                adtype=cfg.get('adtype'), index=cfg.get('index') or 'range', dropped=cfg.get('dropped') or 0)
    df = gen_data(dseed, dcfg)
    snap = analysed_rows(df.copy(deep=True), drop_outcome=True)      # the rows the estimator is documented to analyse
    case = {'kind': cfg['estimator'], 'cfg': cfg, 'dseed': dseed, 'n': len(df)}
    binom = sm.families.family.Binomial()
    learner = GLMSL(binom) if cfg['learner'] == 'glm' else LogisticRegression(C=1e6, solver='lbfgs', max_iter=500)
    cont = cfg['outcome'] == 'continuous'
    calls = []
    orig = mod.targeting_step

    def recording(*args, **kw):
        names = ('y', 'a', 'py_a', 'py_n', 'pa1', 'pa0', 'splits')
        full = dict(zip(names, args))
        full.update(kw)
        del mod._VERIF_PROBE_[:]
        out = orig(**full)
        calls.append((full, out, list(mod._VERIF_PROBE_)))
        return out

    cls = SingleCrossfitTMLE if cfg['estimator'] == 'SingleCrossfitTMLE' else DoubleCrossfitTMLE
    mod.targeting_step = recording
    try:
        est = cls(df, exposure='A', outcome='Y', alpha=0.05)
        est.exposure_model('W1 + X', learner, bound=bound_arg(cfg['gbound'], cfg.get('gbk')))
        # a fractional-logit GLM keeps the initial predictions of a unit-scaled continuous outcome inside (0,1), which
        # is the precondition of the targeting step (the cross-fit estimators do not clip outcome predictions)
        est.outcome_model('A + W1 + X', GLMSL(binom) if cont else learner)
        est.fit(n_splits=cfg['k'], n_partitions=1, random_state=0 if cfg.get('rs0') else int(dseed % 100000))
        err = None
        for name in cfg.get('post') or ():              # the class's reporting method, before the results are read
            try:
                import common
                with common.quiet():
                    OBSERVERS[name](est)
            except Exception:                           # noqa: BLE001  (not judged, see observe)
                pass
    except Exception as e:                              # noqa: BLE001
        err = '%s: %s' % (type(e).__name__, e)
    finally:
        mod.targeting_step = orig
        del mod._VERIF_PROBE_[:]
    chk.case(case, ('cfe', repr(sorted(cfg.items(), key=str)), dseed) if not err else None)
    chk.count('crossfit_%s_%s' % (cfg['estimator'], cfg['outcome']))
    chk.count('crossfit adtype=%s' % cfg.get('adtype'))
    chk.count('crossfit gbound given as %s, reporting call before reading: %s' % (cfg.get('gbk'), bool(cfg.get('post'))))
    if err is not None:
        chk.d(False, '%s raised on an admissible data set: %s' % (cfg['estimator'], err), case)
        return
    chk.d(len(calls) == 1, 'one targeting_step call per partition', case)
    for full, out, probes in calls:
        # correspondence of the call itself: g0 is passed as 1 - g1 (after the requested truncation of g1)
        chk.k(allclose(np.asarray(full['pa0'], dtype=float).tolist(), 1 - np.asarray(full['pa1'], dtype=float),
                       rtol=1e-12),
              '%s passes pa0 = 1 - pa1 to targeting_step' % cfg['estimator'], {'case': case})
        pre = all(bool(np.all((np.asarray(full[k]) > 0) & (np.asarray(full[k]) < 1))) for k in ('py_a', 'py_n', 'pa1'))
        if not pre:
            chk.discard('learner predictions outside (0,1): precondition of the targeting step not met')
            return
        lo, hi = (float(snap['Y'].min()), float(snap['Y'].max())) if cont else (None, None)
        # the targeting step works on the caller's analysed rows (each exactly once; the split order is the
        # estimator's business) with the outcome on the documented unit scale of *their* observed range
        ya = np.asarray(snap['Y'], dtype=float)
        if cont:
            ya = np.clip((ya - lo) / (hi - lo), 0.0005, 1 - 0.0005)
        want = sorted(zip(np.asarray(snap['A'], dtype=float).tolist(), ya.tolist()))
        gotp = sorted(zip(np.asarray(full['a'], dtype=float).tolist(), np.asarray(full['y'], dtype=float).tolist()))
        chk.d(len(want) == len(gotp) and all(u[0] == v[0] and close(u[1], v[1], rtol=1e-12, atol=1e-15)
                                              for u, v in zip(want, gotp)),
              '%s targets exactly the caller\'s analysed rows (exposure, outcome on the unit scale of their observed '
              'range)' % cfg['estimator'], case)
        got = eval_targeting(chk, drv, case, full, out, probes, cont_range=(lo, hi) if cont else None)
        if got is None:
            return
        # with one partition the reported estimate is that partition's plug-in
        if cont:
            chk.d(close(float(est.ace), got['ate'], rtol=1e-10, atol=1e-12 * max(1.0, hi - lo)),
                  '%s.ace is the plug-in of the targeted predictions' % cfg['estimator'], case)
        else:
            chk.d(close(float(est.risk_difference), got['risk_difference'], rtol=1e-10, atol=1e-12) and
                  close(float(est.risk_ratio), got['risk_ratio'], rtol=1e-10) and
                  close(float(est.odds_ratio), got['odds_ratio'], rtol=1e-10),
                  '%s reported RD/RR/OR are the plug-ins of the targeted predictions' % cfg['estimator'], case)


# ------------------------------------------------------------------------------------------------ unit maps (exact)
def check_unit_exact(chk, drv, rng, reps):
    """generated tmle_unit_bounds/unbound at Rat vs the Python functions on dyadic inputs, and the round-trip identity"""
    from zepid.causal.doublyrobust.utils import tmle_unit_bounds, tmle_unit_unbound
    from fractions import Fraction
    for _ in range(reps):
        n = int(rng.integers(3, 12))
        y = np.round(rng.normal(0, 10, n), 2)
        lo, hi = float(y.min()), float(y.max())
        cb = float(rng.choice([0.0005, 0.01, 0.125, 0.0]))
        b = np.asarray(tmle_unit_bounds(y, lo, hi, cb), dtype=float)
        u = np.asarray(tmle_unit_unbound(b, lo, hi), dtype=float)
        case = {'kind': 'unit', 'y': y.tolist(), 'cb': cb}
        chk.case(case, ('unit', tuple(y.tolist()), cb))
        if drv is not None:
            rep, _ = drv.ask('unitq', y=enc_list(y.tolist(), rq), mini=rq(lo), maxi=rq(hi), cb=rq(cb))
            ok = rep['status'] == 'ok'
            if ok:
                mb = [float(Fraction(s)) for s in dec_list(rep['bounded'], str)]
                mu = [Fraction(s) for s in dec_list(rep['back'], str)]
                ok = allclose(mb, b, rtol=1e-12, atol=1e-15) and allclose([float(v) for v in mu], u, rtol=1e-12,
                                                                          atol=1e-12)
                # exact round trip (theorem unit_roundtrip) on the executed Rat instance
                for yi, ui in zip(y.tolist(), mu):
                    inner = (Fraction(yi) - Fraction(lo)) / (Fraction(hi) - Fraction(lo))
                    if Fraction(cb) <= inner <= 1 - Fraction(cb):
                        ok = ok and ui == Fraction(yi)
                    ok = ok and abs(ui - Fraction(yi)) <= Fraction(cb) * (Fraction(hi) - Fraction(lo))
            chk.k(ok, 'generated unit maps (Rat) vs tmle_unit_bounds/unbound', {'case': case})
        chk.d(bool(np.all(np.abs(u - y) <= cb * (hi - lo) + 1e-12 * max(1.0, abs(lo), abs(hi)))),
              'unbound(bounds(y)) moves y by at most cb*(max-min)', case)


# ------------------------------------------------------------------------------------------------ driver
def spec_options(rng, outcome, missing, gkind, plain=False):
    """options of the three nuisance-model specifications (everything that can be re-specified on a live object)"""
    def pair(lo, hi, ends=True):
        # an asymmetric bound [lower, upper]; off the plain path a limit is now and then exactly 0 or exactly 1
        # (documented as admissible: "between (0, 1)" is checked as 0 <= lower, upper <= 1), which leaves that side
        # untruncated
        v = [float(np.round(rng.uniform(*lo), 3)), float(np.round(rng.uniform(*hi), 3))]
        u = rng.uniform()
        if ends and not plain and u < 0.3:
            v[0 if u < 0.15 else 1] = 0.0 if u < 0.15 else 1.0
        return v

    if gkind == 'none':
        gb = None
    elif gkind == 'sym':
        gb = float(np.round(rng.uniform(0.1, 0.42), 3))
    else:
        gb = pair((0.05, 0.42), (0.55, 0.9))
    cont = outcome == 'continuous'
    u = rng.uniform()
    # truncation of the initial outcome predictions: none / symmetric / asymmetric (no limit of exactly 0 or 1 here:
    # logit of the truncated prediction must exist)
    qb = (None if u < 0.55 else float(rng.choice([0.05, 0.1])) if u < 0.8 else
          pair((0.02, 0.3), (0.6, 0.97), ends=False)) if cont else None
    u = rng.uniform()
    mb = (None if u < 0.5 else float(rng.choice([0.15, 0.2])) if u < 0.75 else
          pair((0.1, 0.4), (0.8, 0.95))) if missing == 'model' else None
    opts = dict(gbound=gb, inter=bool(rng.integers(0, 2)), qbound=qb,
                dist=(str(rng.choice(['gaussian', 'gaussian', 'poisson'])) if cont else None), mbound=mb)
    # how a pair is handed over (list / tuple, two entries / a third one that is documented to be ignored)
    for k, kk in (('gbound', 'gbk'), ('qbound', 'qbk'), ('mbound', 'mbk')):
        opts[kk] = (('list' if plain else str(rng.choice(BOUND_KINDS))) if isinstance(opts[k], list) else None)
    if plain:
        opts.update(custom='', order='gmq')
    else:
        pool = 'gmq' if missing == 'model' else 'gq'
        custom = ''.join(w for w in pool if rng.uniform() < 0.25)
        if custom and 'q' in custom and cont:
            opts['dist'] = 'gaussian'
        order = ''.join(rng.permutation(list('gmq')).tolist())
        opts.update(custom=custom, order=order, warm=bool(custom and rng.uniform() < 0.3),
                    termorder=bool(rng.uniform() < 0.3))
        opts.update(draw_observers(rng, 0.3))
    return opts


def draw_observers(rng, p):
    """reporting / diagnostic calls around the last fit: between two specifications (`mid`, text reports only), between
    the last specification and fit() (`pre`), between fit() and reading the results (`post`)"""
    names = sorted(OBSERVERS)
    out = {}
    for pos, pool in (('mid', CHEAP_OBSERVERS), ('pre', names), ('post', names)):
        if rng.uniform() < p:
            k = 1 + int(rng.uniform() < 0.3)
            out[pos] = [str(v) for v in rng.choice(list(pool), size=k, replace=False)]
    return out


def data_options(rng, outcome, missing, xcont, tier, plain=False):
    d = dict(outcome=outcome, missing=missing, xcont=xcont, alpha=float(rng.choice([0.05, 0.1, 0.01])),
             nlo=150, nhi=400 if tier == 'quick' else 900,
             cb=float(rng.choice([0.0005, 0.02])) if outcome == 'continuous' else None)
    if not plain:
        d.update(adtype=str(rng.choice(['int64', 'int64', 'int8', 'uint8', 'uint16', 'float64', 'int32'])),
                 wdtype=str(rng.choice(['int64', 'int16', 'float32'])),
                 index=str(rng.choice(['range', 'shifted', 'even', 'string', 'repeated'])),
                 dropped=int(rng.choice([0, 0, 1, 3, 6])), positional=bool(rng.integers(0, 2)),
                 xscale=float(rng.choice([1.0, 1.0, 250.0, 0.004])))
    return d


def tmle_cells(rng, tier):
    """yields (cfg, dseed, history, cfg0)"""
    def seed():
        return int(rng.integers(0, 2 ** 31 - 1))
    # (1) the configuration grid, single fit; odd repetitions vary containers / dtypes / call order / custom learners
    reps = 2 if tier == 'quick' else 16
    for outcome in ('binary', 'continuous'):
        for missing in ('none', 'nomodel', 'model'):
            for gkind in ('none', 'sym', 'asym'):
                for xcont in (False, True):
                    for rep in range(reps):
                        plain = rep % 2 == 0
                        cfg = data_options(rng, outcome, missing, xcont, tier, plain)
                        cfg.update(spec_options(rng, outcome, missing, gkind, plain))
                        yield cfg, seed(), 'single', None
    # (2) call histories on one object / across objects sharing the caller's frame
    reps = 1 if tier == 'quick' else 8
    for hist in HISTORIES[1:]:
        for outcome in ('binary', 'continuous'):
            for missing in ('none', 'nomodel', 'model'):
                if hist == 'respec_m' and missing != 'model':
                    continue
                for rep in range(reps):
                    gk = str(rng.choice(['none', 'sym', 'asym']))
                    base = data_options(rng, outcome, missing, bool(rng.integers(0, 2)), tier, plain=rep % 2 == 1)
                    cfg = dict(base, **spec_options(rng, outcome, missing, gk))
                    cfg0 = dict(base, **spec_options(rng, outcome, missing, str(rng.choice(['none', 'sym', 'asym']))))
                    if hist == 'respec_q':                 # make sure the outcome model really changes
                        cfg0['inter'] = not cfg['inter']
                    yield cfg, seed(), hist, cfg0
    # (3) the custom_model path of every nuisance model, alone and together
    reps = 1 if tier == 'quick' else 6
    for outcome in ('binary', 'continuous'):
        for custom, missing in (('g', 'none'), ('q', 'nomodel'), ('m', 'model'), ('gmq', 'model'), ('gq', 'model')):
            for rep in range(reps):
                cfg = data_options(rng, outcome, missing, True, tier)
                cfg.update(spec_options(rng, outcome, missing, str(rng.choice(['none', 'sym']))))
                cfg.update(custom=custom, warm=bool(rep % 2))
                if outcome == 'continuous':
                    cfg['dist'] = 'gaussian'
                yield cfg, seed(), 'single', None
    # (4) extreme but valid data: near-positivity violations without truncation of g; rare outcomes
    reps = 3 if tier == 'quick' else 15
    for outcome in ('binary', 'continuous'):
        for missing in ('none', 'model'):
            for rep in range(reps):
                cfg = data_options(rng, outcome, missing, True, tier, plain=True)
                cfg.update(spec_options(rng, outcome, missing, 'none', plain=True))
                cfg.update(extreme=True, nlo=700, nhi=1200, inter=False)
                yield cfg, seed(), 'single', None
    # (5) rows the estimator must discard, with outcomes outside the analysed range
    for outcome in ('continuous', 'binary'):
        for missing in ('none', 'nomodel', 'model'):
            for rep in range((2 if tier == 'quick' else 8) if outcome == 'continuous' else (1 if tier == 'quick' else 3)):
                cfg = data_options(rng, outcome, missing, bool(rep % 2), tier, plain=True)
                cfg.update(spec_options(rng, outcome, missing, str(rng.choice(['none', 'sym', 'asym'])), plain=True))
                cfg.update(dropped=int(rng.choice([1, 2, 5])), index=str(rng.choice(['range', 'shifted'])))
                yield cfg, seed(), 'single', None
    for missing in ('none', 'nomodel', 'model'):
        for rep in range(2 if tier == 'quick' else 10):
            cfg = data_options(rng, 'binary', missing, bool(rep % 2), tier, plain=True)
            cfg.update(spec_options(rng, 'binary', missing, str(rng.choice(['none', 'sym'])), plain=True))
            cfg.update(rare=True, nlo=500, nhi=1000, inter=False)
            yield cfg, seed(), 'single', None
    # (6) every reporting / diagnostic method, in every position around the fit that is judged: between the last
    #     specification and fit() and between fit() and reading the results (single fit), and inside a history
    reps = 1 if tier == 'quick' else 4
    for outcome in ('binary', 'continuous'):
        for pos in ('pre', 'post'):
            for name in sorted(OBSERVERS):
                for rep in range(reps):
                    missing = str(rng.choice(['none', 'nomodel', 'model']))
                    cfg = data_options(rng, outcome, missing, bool(rng.integers(0, 2)), tier, plain=True)
                    cfg.update(spec_options(rng, outcome, missing, str(rng.choice(['none', 'sym', 'asym'])), plain=True))
                    cfg[pos] = [name]
                    if rng.uniform() < 0.3:                # a second call of some (other or the same) method
                        cfg[pos] = cfg[pos] + [str(rng.choice(sorted(OBSERVERS)))]
                    yield cfg, seed(), 'single', None
        for name in CHEAP_OBSERVERS:
            missing = str(rng.choice(['none', 'model']))
            cfg = data_options(rng, outcome, missing, True, tier, plain=True)
            cfg.update(spec_options(rng, outcome, missing, 'sym', plain=True))
            cfg.update(mid=[name], order=''.join(rng.permutation(list('gmq')).tolist()))
            yield cfg, seed(), 'single', None
    for hist in HISTORIES[1:]:
        for rep in range(2 if tier == 'quick' else 8):
            outcome = ('binary', 'continuous')[rep % 2]
            missing = 'model' if hist == 'respec_m' else str(rng.choice(['none', 'nomodel', 'model']))
            base = data_options(rng, outcome, missing, bool(rng.integers(0, 2)), tier, plain=True)
            cfg = dict(base, **spec_options(rng, outcome, missing, str(rng.choice(['none', 'sym', 'asym'])), plain=True))
            cfg0 = dict(base, **spec_options(rng, outcome, missing, str(rng.choice(['none', 'sym'])), plain=True))
            if hist == 'respec_q':
                cfg0['inter'] = not cfg['inter']
            obs = draw_observers(rng, 0.7)
            cfg.update(obs or {'post': ['summary']})
            cfg0.update(draw_observers(rng, 0.5))
            yield cfg, seed(), hist, cfg0
    # (7) how a truncation bound is handed over: float / list / tuple / a collection with a third entry, for each of
    #     the three nuisance models; continuous outcomes that are right-skewed, so that the Gaussian outcome model
    #     predicts outside the unit interval and the truncation of the initial predictions is what keeps logit defined
    reps = 1 if tier == 'quick' else 4
    for kind in BOUND_KINDS:
        for which in ('g', 'q', 'm', 'gqm'):
            for rep in range(reps):
                outcome = 'continuous' if 'q' in which else ('binary', 'continuous')[int(rng.integers(0, 2))]
                missing = 'model' if 'm' in which else str(rng.choice(['none', 'nomodel']))
                cfg = data_options(rng, outcome, missing, bool(rng.integers(0, 2)), tier, plain=True)
                for _ in range(50):                        # draw until the wanted bounds are pairs
                    so = spec_options(rng, outcome, missing, 'asym' if 'g' in which else str(rng.choice(['none', 'sym'])))
                    if all(isinstance(so[k + 'bound'], list) for k in which):
                        break
                cfg.update(so)
                cfg.update(custom='', warm=False, mid=None, pre=None, post=None)
                for k in which:
                    cfg[k + 'bk'] = kind
                if outcome == 'continuous':
                    cfg.update(skew=float(rng.choice([1.0, 1.3])), dist='gaussian')
                yield cfg, seed(), 'single', None
    for rep in range(4 if tier == 'quick' else 16):       # skewed outcome, every way of (not) asking for a q bound
        missing = ('none', 'nomodel', 'model')[rep % 3]
        cfg = data_options(rng, 'continuous', missing, bool(rep % 2), tier, plain=rep % 2 == 0)
        cfg.update(spec_options(rng, 'continuous', missing, str(rng.choice(['none', 'sym', 'asym'])), plain=rep % 2 == 0))
        cfg.update(skew=float(rng.choice([1.0, 1.3])), dist='gaussian' if rep % 4 else 'poisson')
        yield cfg, seed(), 'single', None


def run(chk, drv, rng, tier):
    for cfg, dseed, hist, cfg0 in tmle_cells(rng, tier):
        check_tmle_case(chk, drv, cfg, dseed, hist, cfg0)
    # cross-fit targeting step, direct
    reps = 5 if tier == 'quick' else 60
    for outcome in ('binary', 'continuous'):
        for k in (2, 3, 4):
            for gclip in (None, (0.1, 0.9), (0.3, 0.6)):
                for _ in range(reps):
                    cfg = dict(outcome=outcome, k=k, gclip=gclip, nlo=60, nhi=200 if tier == 'quick' else 500,
                               lo=-3.5, hi=41.25,
                               adtype=str(rng.choice(['float64', 'int64', 'uint8', 'uint16', 'int8'])))
                    check_cf_direct(chk, drv, cfg, int(rng.integers(0, 2 ** 31 - 1)))
    # cross-fit estimators end to end
    reps = 2 if tier == 'quick' else 12
    for estimator, ks in (('SingleCrossfitTMLE', (2, 3)), ('DoubleCrossfitTMLE', (3,))):
        for outcome in ('binary', 'continuous'):
            for learner in ('glm', 'logistic'):
                for k in ks:
                    for _ in range(reps):
                        gb = None if rng.uniform() < 0.5 else [0.2, 0.7]
                        post = [str(rng.choice(['summary', 'summary:1', 'summary:5']))] if rng.uniform() < 0.5 else None
                        cfg = dict(estimator=estimator, outcome=outcome, learner=learner, k=k, gbound=gb, nlo=300,
                                   gbk=str(rng.choice(BOUND_KINDS)) if gb else None, post=post,
                                   nhi=600, adtype=str(rng.choice(['int64', 'uint8', 'uint16', 'int8', 'float64'])),
                                   dropped=int(rng.choice([0, 2, 5])), rs0=bool(rng.integers(0, 2)),
                                   index=str(rng.choice(['range', 'shifted', 'string'])))
                        check_cf_estimator(chk, drv, cfg, int(rng.integers(0, 2 ** 31 - 1)))
    check_unit_exact(chk, drv, rng, 40 if tier == 'quick' else 400)
    chk.extra['exhaustive'] = False
    nd = sum(chk.discards.values())
    if nd > 0.1 * max(1, chk.evals):
        # too few surviving cases: inconclusive (exit 2 through check.py's handler), never a silent pass
        raise RuntimeError('C03 inconclusive: %d of %d cases discarded (%r)' % (nd, chk.evals, chk.discards))
    chk.extra['config_cells'] = ('TMLE.fit: 2 outcome types x 3 missingness modes x 3 g-bound kinds x 2 covariate sets = '
                                 '36 cells; histories: 6 kinds x 2 outcome types x 3 missingness modes; custom_model: 5 '
                                 'learner placements x 2 outcome types; extreme: near-positivity 2 x 2, rare outcome x 3; '
                                 'targeting_step: 2 x 3 split counts x 3 clip settings = 18 cells; estimators: '
                                 '2 classes x 2 outcome types x 2 learners')


def replay(rec):
    """re-run the stored failing cases (cfg + data seed regenerate the inputs exactly) and print what happens"""
    import os
    import common
    os.environ.setdefault('ZEPID_VERIF', '1')
    chk = common.Check('C03', 'replay', rec.get('seed', 0))
    drv = common.Driver() if os.path.exists(common.DRIVER) else None
    seen = set()
    with common.quiet():
        for f in rec.get('failures', []) + rec.get('k_failures', []):
            case = f.get('case') or {}
            case = case.get('case', case)
            key = (case.get('kind'), repr(case.get('cfg')), case.get('dseed'), case.get('hist'), repr(case.get('cfg0')))
            if case.get('kind') is None or key in seen:
                continue
            seen.add(key)
            if case['kind'] == 'TMLE.fit':
                check_tmle_case(chk, drv, case['cfg'], case['dseed'], case.get('hist', 'single'), case.get('cfg0'))
            elif case['kind'] == 'targeting_step':
                cfg = dict(case['cfg'])
                if cfg.get('gclip') is not None:
                    cfg['gclip'] = tuple(cfg['gclip'])
                check_cf_direct(chk, drv, cfg, case['dseed'])
            elif case['kind'] in ('SingleCrossfitTMLE', 'DoubleCrossfitTMLE'):
                check_cf_estimator(chk, drv, case['cfg'], case['dseed'])
    if drv is not None:
        drv.close()
    for f in chk.d_fail:
        print('D FAIL: %s | %s' % (f['what'], {k: v for k, v in f['case'].items() if k != 'cfg'}))
    for f in chk.k_fail:
        print('K FAIL: %s' % f['what'])
    print('replayed %d case(s): %d D failures, %d K failures' % (len(seen), len(chk.d_fail), len(chk.k_fail)))
    return 1 if (chk.d_fail or chk.k_fail) else 0
