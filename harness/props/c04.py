"""C04 -- cross-fit estimators never predict a row with a model trained on that row.

Observation point: the calls received by the user-supplied learner objects.  Spy learners (deepcopy- and
clone-safe, sklearn calling convention) carry a row-identifier column in X and log every fit / predict /
predict_proba with the identifiers they saw.  Gate K: the Lean model (`ZV.Crossfit.crossfit`, run by the
driver), given the draws observed on the implementation as its chooser table, must reproduce every part and
the exact call sequence (which fitted copy predicts which rows, in which order).  Gate D evaluates the
property's own predicate on the observed calls only (no model involved).  Determinism for a fixed
random_state is a *test on the implementation* (two runs), not a theorem.
"""
import copy
import itertools
import json
import warnings

import numpy as np
import pandas as pd
from numpy.random import RandomState
from sklearn.base import BaseEstimator

from common import enc_list

REQUIRED = ['split_partition', 'pairing_ne', 'pairing_double', 'trainOf_schedule', 'no_leak', 'schedule_leakFree',
            'predicted_once', 'double_models_differ', 'crossfit_sound',
            # Props/C04_Gen.lean: ties of the regenerated split / pairing code (Gen/XfitSplit.lean) to the model
            'sample_split_generated', 'nuisance_generated', 'min_splits_generated', 'single_crossfit_generated_single',
            'single_crossfit_generated_double', 'split_partition_generated', 'crossfit_sound_generated_single',
            'crossfit_sound_generated_double', 'crossfit_generated', 'crossfit_sound_generated',
            # round 4: the hypothesis rows.Nodup (pairwise distinct labels) cannot be dropped
            'split_labels_must_be_distinct']
RULE = ('configuration cells enumerated: 4 estimator classes x n_splits 2..6 (3..6 double) x n_partitions 1..4; per '
        'cell random sample size (incl. sizes not divisible by n_splits and tiny parts), random learner kind '
        '(predict_proba spy / predict-only spy / spy wrapping a real sklearn learner), binary or continuous outcome, '
        'rows with missing values crossed with the kind of index labels (default, shuffled, offset, string, and '
        'REPEATED labels: stacked extracts, household / site identifiers, one constant label) and with exact '
        'duplicates of records (stacked overlapping extracts, expanded frequency tables, re-labelled copies; the '
        'analysed rows are then a multiset of identifiers), optional bound, median/mean; cases are run twice with the same '
        'random_state (incl. the falsy seed 0 for every class); warm-start learners (a fit continues from what the '
        'object has seen); histories of 3 respecify+fit steps with varying n_splits / n_partitions / method / learners '
        'on one object, each judged like a single fit and the last compared with a fresh object; pairs of analyses in '
        'one process on different data of equal length with the same n_splits and seed; functional-style learners (fit '
        'returns a new object) and learners the user pre-fitted on the full data; the splitting function itself on '
        'frames whose records repeat under distinct labels.  distinct = distinct (class, n_splits, n_partitions, n, data seed); non-trivial = n not '
        'divisible by n_splits or n_partitions > 1')
ASSUMPTIONS = ['DataFrame.sample(n=m, random_state=RandomState(seed)) returns m distinct rows of its argument '
               '(measured on a reference invocation per observed draw)',
               'copy.deepcopy of a learner yields an independent object (observed through the spies: every fitted '
               'copy has its own identity)',
               'determinism for a fixed random_state is tested on the implementation (two runs), not proved: it '
               'rests on the reproducibility of the numpy / pandas RNG streams']

CLASSES = {'SingleCrossfitAIPTW': False, 'DoubleCrossfitAIPTW': True, 'SingleCrossfitTMLE': False,
           'DoubleCrossfitTMLE': True}

LOG = []
_COUNTER = itertools.count()
SPLIT_OBS = []      # per call of crossfit._sample_split_ made by an estimator: (labels pairwise distinct?, rows)


class _State:
    """fitted state of a spy; for the composite spies it is a *nested* object created once and mutated in place by
    fit, so a shallow copy of the learner shares it (like the steps of a Pipeline or the candidate list of a
    SuperLearner), while a deep copy does not"""

    def __init__(self):
        self.fit_id = None
        self.train_ids = []
        self.salt = 0
        self.inner = None


class _SpyBase(BaseEstimator):
    """Learner that records the row identifiers (column 0 of X) of every call.  `role` 't' = treatment model,
    'y' = outcome model (then column 1 of X is the exposure).  Optionally wraps a real learner.  With
    `nested=True` the fitted state lives in a nested object (composite learner).  What a copy's current fit saw
    is always read from that state object at prediction time."""

    def __init__(self, role='t', inner=None, nested=False, warm=False, functional=False):
        self.role = role
        self.inner = inner
        self.nested = nested
        self.functional = functional   # functional style: fit() returns a NEW fitted object, the receiver is unchanged
        self.warm = warm      # warm start: fit() continues from what the object has already seen (sklearn warm_start)
        if nested:
            self.state = _State()

    def get_params(self, deep=True):
        return {'role': self.role, 'inner': self.inner, 'nested': self.nested, 'warm': self.warm,
                'functional': self.functional}

    def set_params(self, **p):
        for k, v in p.items():
            setattr(self, k, v)
        return self

    def __sklearn_is_fitted__(self):      # consulted by sklearn.pipeline.Pipeline before predicting
        st = getattr(self, 'state', None)
        return st is not None and st.fit_id is not None

    def fit(self, X, y):
        X = np.asarray(X)
        prev = getattr(self, 'state', None)
        carried = list(prev.train_ids) if (self.warm and prev is not None) else []
        st = self.state if (self.nested and not self.functional) else _State()
        st.fit_id = next(_COUNTER)
        ids = [int(v) for v in X[:, 0]]
        # `train_ids` = everything the fitted state has seen: for a warm-start learner a fit on an object that was
        # fitted before (or on a copy of one) continues from it; a pristine copy has seen its own part only
        st.train_ids = carried + ids
        st.salt = (sum(st.train_ids) * 31 + len(st.train_ids)) % 997
        if self.inner is not None:
            st.inner = copy.deepcopy(self.inner).fit(X, np.asarray(y))
        LOG.append({'ev': 'fit', 'role': self.role, 'fit_id': st.fit_id, 'ids': ids})
        if self.functional:
            new = copy.copy(self)
            new.state = st
            return new
        self.state = st
        return self

    def _values(self, X, how):
        X = np.asarray(X)
        ids = [int(v) for v in X[:, 0]]
        arm = 0
        if self.role == 'y':
            acol = X[:, 1]
            arm = 1 if np.all(acol == 1) else (2 if np.all(acol == 0) else -1)
        st = getattr(self, 'state', None) or _State()
        LOG.append({'ev': 'pred', 'role': self.role, 'fit_id': st.fit_id,
                    'train': list(st.train_ids), 'ids': ids, 'arm': arm, 'how': how})
        if self.inner is not None:
            if how == 'proba':
                return np.clip(st.inner.predict_proba(X)[:, 1], 0.05, 0.95)
            return np.clip(st.inner.predict(X), 0.05, 0.95)
        v = np.array([((i * 7919 + st.salt * 104729) % 1009) / 1009.0 for i in ids])
        return 0.25 + 0.5 * v + (0.02 if arm == 1 else 0.0)


class SpyProba(_SpyBase):
    def predict_proba(self, X):
        p = self._values(X, 'proba')
        return np.column_stack([1 - p, p])

    def predict(self, X):      # must never be preferred over predict_proba by the implementation
        return self._values(X, 'predict')


class SpyReg(_SpyBase):
    def predict(self, X):
        return self._values(X, 'predict')


def _pipeline(spy):
    """a real sklearn Pipeline around a spy: the fitted final step lives in the nested `steps` list"""
    from sklearn.pipeline import Pipeline
    from sklearn.preprocessing import FunctionTransformer
    return Pipeline([('pass', FunctionTransformer(validate=False)), ('spy', spy)])


def _design(df):
    """complete rows of the caller's frame as the arrays the estimators build (row id first)"""
    d = df.dropna()
    return (np.asarray(d[['rid', 'L1', 'L2']]), np.asarray(d['A']),
            np.asarray(d[['rid', 'A', 'L1', 'L2']]), np.asarray(d['Y']))


def make_learners(kind, continuous, df=None):
    ycls = SpyReg if continuous else SpyProba
    if kind.endswith('_prefit'):
        # the user hands in learners already fitted on the FULL data (cross-fitting must refit a copy per part)
        a_l, y_l = make_learners(kind[:-len('_prefit')], continuous)
        Xa, ya, Xy, yy = _design(df)
        return a_l.fit(Xa, ya), y_l.fit(Xy, yy)
    if kind == 'functional':      # functional-style learners: fit returns a new fitted object
        return SpyProba('t', functional=True), ycls('y', functional=True)
    if kind == 'proba':
        return SpyProba('t'), ycls('y')
    if kind == 'reg':
        return SpyProba('t'), SpyReg('y')
    if kind == 'nested':          # composite spies: fitted state in a nested object (treatment and outcome)
        return SpyProba('t', nested=True), ycls('y', nested=True)
    if kind == 'nested_reg':
        return SpyProba('t', nested=True), SpyReg('y', nested=True)
    if kind == 'warm':            # warm-start learners (flat)
        return SpyProba('t', warm=True), ycls('y', warm=True)
    if kind == 'warm_nested':     # warm-start composite learners
        return SpyProba('t', nested=True, warm=True), ycls('y', nested=True, warm=True)
    if kind == 'warm_pipeline':
        return _pipeline(SpyProba('t', warm=True)), _pipeline(ycls('y', warm=True))
    if kind == 'pipeline':        # real sklearn Pipeline around a spy (treatment and outcome)
        return _pipeline(SpyProba('t')), _pipeline(ycls('y'))
    from sklearn.linear_model import LogisticRegression, LinearRegression
    inner_a = LogisticRegression(C=0.5, max_iter=200)
    if kind == 'nested_real':     # composite spy wrapping a real learner: the fitted sklearn model is nested too
        return (SpyProba('t', inner_a, nested=True),
                SpyReg('y', LinearRegression(), nested=True) if continuous else
                SpyProba('y', LogisticRegression(C=0.5, max_iter=200), nested=True))
    if continuous:
        return SpyProba('t', inner_a), SpyReg('y', LinearRegression())
    return SpyProba('t', inner_a), SpyProba('y', LogisticRegression(C=0.5, max_iter=200))


KINDS = ['proba', 'nested', 'warm', 'functional_prefit', 'reg', 'pipeline', 'real', 'warm_nested', 'proba_prefit',
         'nested_reg', 'functional', 'nested_real', 'warm_pipeline', 'nested_prefit', 'pipeline_prefit']
KINDS_TINY = ['proba', 'nested', 'warm', 'functional_prefit', 'reg', 'pipeline', 'nested_reg', 'warm_nested',
              'nested_prefit']


def gen_data(case):
    r = np.random.default_rng(case['data_seed'])
    n = case['n_total']
    L1 = r.integers(0, 2, size=n).astype(float)
    L2 = np.round(r.normal(size=n), 3)
    A = (r.uniform(size=n) < 0.35 + 0.3 * L1).astype(float)
    if case['continuous']:
        Y = np.round(1.0 + A + 0.5 * L2 + r.normal(size=n), 3)
    else:
        Y = (r.uniform(size=n) < 0.3 + 0.2 * A + 0.2 * L1).astype(float)
    miss = np.zeros(n, dtype=bool)
    if case['n_missing']:
        miss[r.choice(n, size=case['n_missing'], replace=False)] = True
    half = miss & (r.uniform(size=n) < 0.5)
    L2 = np.where(half, np.nan, L2)
    Y = np.where(miss & ~half, np.nan, Y)
    idx = np.arange(n)
    if case['index'] == 'shuffled':
        idx = r.permutation(n) + 7
    elif case['index'] == 'offset':
        idx = idx + 100
    # row identifiers are specific to the data set (two data sets of the same length share no identifier), so rows
    # of another analysis in the same process are recognised as foreign
    base = (case['data_seed'] % 89) * 1000
    df = pd.DataFrame({'rid': base + np.arange(n, dtype=float), 'A': A, 'L1': L1, 'L2': L2, 'Y': Y}, index=idx)
    # index labels that are not unique / not integers (round 4): two extracts stacked with pd.concat (labels restart),
    # household / site identifiers used as the index (each label on two or three rows), string labels, one constant
    # label, a named index, two-level (site, visit) labels, dates.  The rows are all different; only their labels repeat.
    kind = case['index']
    if kind == 'stacked':
        h = int(r.integers(1, n)) if n > 1 else 0
        df.index = np.concatenate([np.arange(h), np.arange(n - h)])
    elif kind == 'household':
        df.index = (np.arange(n) // int(r.integers(2, 4))) * 10
    elif kind == 'string':
        df.index = ['p%03d' % v for v in r.permutation(n)]
    elif kind == 'string_repeated':
        df.index = ['site%d' % (v % 3) for v in range(n)]
    elif kind == 'constant':
        df.index = np.zeros(n, dtype=int)
    elif kind == 'named_household':     # a NAMED index (reset_index then adds a column of that name)
        df.index = pd.Index(np.arange(n) // int(r.integers(2, 4)), name='household')
    elif kind == 'multi':               # two-level labels (site, visit), each pair on several rows; named or not
        names = ['site', 'visit'] if r.uniform() < 0.5 else None
        df.index = pd.MultiIndex.from_arrays([np.arange(n) % 3, np.arange(n) // 3 % 4], names=names)
    elif kind == 'datetime':            # visit dates, two rows a day
        df.index = pd.to_datetime('2020-01-01') + pd.to_timedelta(np.arange(n) // 2, unit='D')
    # exact duplicates of records (round 4): overlapping extracts stacked with pd.concat ('stack': the copy keeps
    # the label of the original and comes at the end), a frequency table expanded row by row ('expand': the copies
    # follow the original), or the copies re-labelled by ignore_index=True ('relabel').  A duplicated record is the
    # same in every column, row identifier included: the spies cannot tell the copies apart, so the analysed rows
    # are a MULTISET of identifiers and every predicate below counts occurrences.
    if case.get('n_dup'):
        # (copies of complete records only, or of any record -- a copy of an incomplete record is dropped with it)
        pool = np.flatnonzero(~miss) if case.get('dup_complete', True) else np.arange(n)
        take = pool[r.integers(0, len(pool), size=case['n_dup'])]
        if case['dup_mode'] == 'expand':
            cnt = np.ones(n, dtype=int)
            np.add.at(cnt, take, 1)
            df = df.iloc[np.repeat(np.arange(n), cnt)]
        else:
            df = pd.concat([df, df.iloc[take]], ignore_index=(case['dup_mode'] == 'relabel'))
    rows = [int(v) for v in df.dropna()['rid']]
    return df, rows


def _results(est, continuous):
    if continuous:
        return [list(map(float, est.ace_vector)), list(map(float, est.ace_var_vector)), float(est.ace)]
    return [list(map(float, est.risk_difference_vector)), list(map(float, est.risk_difference_var_vector)),
            float(est.risk_difference), list(map(float, est.risk_ratio_vector))]


def _learner_side(tb):
    """did the exception come out of the user's learner (e.g. a real classifier given a one-class part)?"""
    return any(fr.name in ('fit', '_values') and fr.filename.endswith('c04.py') for fr in tb)


def run_steps(case, steps):
    """specify + fit, once per step, on ONE estimator object -> per step (log, results, error, learner_side)"""
    import traceback
    import zepid.causal.doublyrobust as dr
    from zepid.causal.doublyrobust import crossfit as xf
    df, rows = gen_data(case)
    out = []
    warnings.simplefilter('ignore')     # statsmodels re-enables its own categories at import time
    est = None
    # the splitting function is wrapped in this process only (never in the repository) to MEASURE the hypothesis
    # of `split_partition` at the call site: the frame it is handed carries pairwise distinct labels
    real_split = xf._sample_split_

    def spy_split(data, *a, **kw):
        SPLIT_OBS.append((bool(data.index.is_unique), int(data.shape[0])))
        return real_split(data, *a, **kw)
    xf._sample_split_ = spy_split
    try:
        _run_steps(case, steps, dr, df, out, est, traceback)
    finally:
        xf._sample_split_ = real_split
    return out, rows


def _run_steps(case, steps, dr, df, out, est, traceback):
    for st in steps:
        a_l, y_l = make_learners(st['kind'], case['continuous'], df)
        del LOG[:]
        res, err, lside = None, None, False
        try:
            if est is None:
                est = getattr(dr, case['cls'])(df, exposure='A', outcome='Y')
            est.exposure_model('rid + L1 + L2', a_l, bound=st['bound'])
            est.outcome_model('rid + A + L1 + L2', y_l)
            est.fit(n_splits=st['k'], n_partitions=st['npart'], method=st['method'], random_state=st['random_state'])
            res = _results(est, case['continuous'])
        except Exception as e:       # recorded; judged by the caller (exception on a valid input = D failure)
            err = '%s: %s' % (type(e).__name__, str(e)[:120])
            lside = _learner_side(traceback.extract_tb(e.__traceback__))
        out.append(([dict(e) for e in LOG], res, err, lside))


def step_of(case):
    return {k_: case[k_] for k_ in ('k', 'npart', 'method', 'random_state', 'kind', 'bound')}


def run_impl(case):
    """one fit of the real estimator; returns (log, results, error, rows)"""
    out, rows = run_steps(case, [step_of(case)])
    log, res, err, lside = out[0]
    case['_learner_side'] = lside
    return log, res, err, rows


def partitions(log):
    """cut the call log into partitions: a fit that follows a predict starts a new partition"""
    parts, cur, seen_pred = [], [], False
    for e in log:
        if e['ev'] == 'fit' and seen_pred:
            parts.append(cur)
            cur, seen_pred = [], False
        if e['ev'] == 'pred':
            seen_pred = True
        cur.append(e)
    if cur:
        parts.append(cur)
    return parts


def canon(part):
    """canonical call sequence of a partition in the model's notation; a copy is named by the position of its
    fit among the fits of the same role"""
    pos, count, out = {}, {'t': 0, 'y': 0}, []
    for e in part:
        if e['ev'] == 'fit':
            pos[e['fit_id']] = count[e['role']]
            count[e['role']] += 1
            out.append('F:%s:%d:%s' % (e['role'], pos[e['fit_id']], enc_list(e['ids'], str)))
        else:
            j = pos.get(e['fit_id'], 'stale')
            out.append('P:%s:%s:%d:%s' % (e['role'], j, e['arm'], enc_list(e['ids'], str)))
    return '|'.join(out)


def observed_uses(part):
    """what each pass of the prediction loop handed to _generate_predictions_, in the notation of the driver's `uses`
    field: predicted rows > rows the treatment copy was fitted on > rows the outcome copy was fitted on"""
    fitted = {e['fit_id']: e['ids'] for e in part if e['ev'] == 'fit'}
    preds = [e for e in part if e['ev'] == 'pred']
    out = []
    for i in range(0, len(preds) - 2, 3):
        t, y1, y2 = preds[i:i + 3]
        if not (t['role'] == 't' and y1['role'] == 'y' and y2['role'] == 'y' and y1['fit_id'] == y2['fit_id']
                and t['ids'] == y1['ids'] == y2['ids']):
            return 'unexpected call pattern'
        out.append('>'.join(enc_list(fitted.get(e['fit_id'], ['stale']) if j else e['ids'], str)
                            for j, e in enumerate((t, t, y1))))
    return '|'.join(out)


def nan_equal(a, b):
    return json.dumps(a) == json.dumps(b)      # NaN serialises as NaN: pattern compared exactly


def judge_partition(part, rows, k, double):
    """the property's predicate on the observed calls of one complete partition -> list of (ok, what).
    `rows` is the multiset of identifiers of the analysed rows (an exact duplicate of a record carries the
    identifier of its original, see gen_data): membership is judged by counting occurrences; which copy of a
    duplicated record went where cannot be observed, so the leak and the different-parts predicates are judged on
    the rows whose identifier is unique."""
    from collections import Counter
    out = []
    tfits = [e for e in part if e['ev'] == 'fit' and e['role'] == 't']
    yfits = [e for e in part if e['ev'] == 'fit' and e['role'] == 'y']
    preds = [e for e in part if e['ev'] == 'pred']
    parts_t = [e['ids'] for e in tfits]
    flat = [i for p in parts_t for i in p]
    mult = Counter(rows)
    twins = {i for i, c in mult.items() if c > 1}
    out.append((len(parts_t) == k, 'n_splits parts are fitted'))
    out.append((all(c <= max(1, mult.get(i, 0)) for i, c in Counter(flat).items()), 'parts are pairwise disjoint'))
    out.append((sorted(flat) == sorted(rows), 'parts are exhaustive (union = analysed rows)'))
    sizes = [len(p) for p in parts_t]
    out.append((bool(sizes) and max(sizes) - min(sizes) < k, 'parts are near-equal (sizes differ by < n_splits)'))
    out.append((sorted(map(sorted, parts_t)) == sorted(sorted(e['ids']) for e in yfits),
                'outcome learners are fitted on the same parts'))
    leak = [e for e in preds if e['fit_id'] is None or (set(e['ids']) & set(e['train'])) - twins]
    out.append((not leak, 'no learner predicts a row it was trained on (and none predicts unfitted)'))
    for role, arm in (('t', 0), ('y', 1), ('y', 2)):
        got = sorted(i for e in preds if e['role'] == role and e['arm'] == arm for i in e['ids'])
        out.append((got == sorted(rows), 'every row predicted exactly once for (%s, arm %d)' % (role, arm)))
    if double:
        tr_t, tr_y = {}, {}
        for e in preds:
            for i in e['ids']:
                (tr_t if e['role'] == 't' else tr_y)[i] = frozenset(e['train'])
        # (two parts are recognised as the same by the identifiers they hold; parts made of copies of duplicated
        #  records only -- possible with one-row parts -- cannot be told apart and are not judged)
        bad = [i for i in rows if i not in twins and i in tr_t and i in tr_y and tr_t[i] and tr_t[i] == tr_y[i]
               and not tr_t[i] <= twins]
        out.append((not bad, 'double cross-fit: treatment and outcome learners of a row trained on different parts'))
    return out


def strip_ids(log):
    return [{k_: v for k_, v in e.items() if k_ != 'fit_id'} for e in log]


def k_split_hypothesis(chk, case):
    """gate K / H: hypothesis `rows.Nodup` of split_partition(_generated), measured on the calls just made"""
    obs = list(SPLIT_OBS)
    del SPLIT_OBS[:]
    if obs:
        chk.k(all(u for u, _ in obs), 'labels handed to _sample_split_ are pairwise distinct (hypothesis of '
              'split_partition)', {'case': case, 'calls_with_repeated_labels': sum(1 for u, _ in obs if not u),
                                   'calls': len(obs)})
        chk.h_checked += 1


def count_data_shape(chk, case, rows):
    chk.count('index_' + case['index'])
    repeated = case['index'] in REPEATED_LABELS
    if case['n_missing'] and repeated:
        chk.count('missing_rows x repeated_index_labels')
    if len(set(rows)) != len(rows):
        chk.count('duplicated_records_' + case['dup_mode'])
        if repeated or case['dup_mode'] != 'relabel':
            chk.count('duplicated_records_sharing_a_label')


def check_case(chk, drv, case):
    double = CLASSES[case['cls']]
    del SPLIT_OBS[:]
    log1, res1, err1, rows = run_impl(case)
    lside = case.pop('_learner_side', False)
    k_split_hypothesis(chk, case)
    n, k = len(rows), case['k']
    chk.case(case, (case['cls'], k, case['npart'], n, case['data_seed']) if (n % k or case['npart'] > 1) else None,
             sample=case if chk.evals % 23 == 0 else None)
    chk.count('cls_' + case['cls'])
    chk.count('n_mod_k_nonzero' if n % k else 'n_mod_k_zero')
    chk.count('kind_' + case['kind'])
    count_data_shape(chk, case, rows)
    if case['random_state'] == 0:
        chk.count('random_state_0')
    if n // k <= 1:
        chk.count('tiny_parts(<=1 row)')
    # ---- D: determinism (a test on the implementation; every case in the thorough tier, every second in quick:
    #      each fit spends 0.5 s drawing its seeds from range(5000000))
    if case.get('twice', True):
        log2, res2, err2, _ = run_impl(case)
        case.pop('_learner_side', None)
        chk.d(strip_ids(log1) == strip_ids(log2) and nan_equal(res1, res2) and (err1 is None) == (err2 is None),
              'same random_state reproduces partitions and estimates (two runs)',
              {'case': case, 'res1': res1, 'res2': res2})
        chk.count('determinism_tested')
    analyse(chk, drv, case, step_of(case), log1, err1, lside, rows, double)


def analyse(chk, drv, case, st, log1, err1, lside, rows, double):
    """judge the calls of ONE fit (configuration `st`) -- gates D, H, K"""
    n, k = len(rows), st['k']
    rejected = k < (3 if double else 2)
    if err1 is not None:
        chk.count('impl_exception:' + err1.split(':')[0])
    parts = partitions(log1)
    if rejected:
        chk.k(err1 is not None and err1.startswith('ValueError') and not log1,
              'n_splits below the minimum is rejected before any learner call', {'case': case, 'err': err1})
        if drv is not None:
            rep, line = drv.ask('crossfit', cls=case['cls'], k=k, rows=enc_list(rows, str), picks='-')
            chk.k(rep['status'] == 'err' and rep.get('model') == '1',
                  'regenerated n_splits guard (and the model) reject n_splits below the minimum',
                  {'case': case, 'model': rep})
        return
    if err1 is not None:
        if lside:
            chk.discard('the user-supplied (real) learner itself raised on a part')
        elif n // k >= 4:
            chk.d(False, 'fit raised on a valid configuration', {'case': case, 'step': st, 'err': err1})
        else:
            chk.count('tiny_parts_numerical_exception')
    complete = parts if err1 is None else parts[:-1]
    if err1 is None:
        chk.d(len(parts) == st['npart'], 'one split/fit/predict round per partition',
              {'case': case, 'step': st, 'rounds': len(parts)})
    # reference seeds (documented procedure: RandomState(random_state).choice(range(5000000), n_partitions))
    # (choice(5000000, ...) consumes the stream exactly like choice(range(5000000), ...) without building the range)
    seeds = RandomState(st['random_state']).choice(5000000, size=st['npart'], replace=False)
    for pi, part in enumerate(complete):
        ctx = {'case': case, 'step': st, 'partition': pi}
        # ---- D: the property's predicate on the observed calls
        for ok, what in judge_partition(part, rows, k, double):
            chk.d(ok, what, dict(ctx, calls=part if not ok else None))
        obs_splits = [e['ids'] for e in part if e['ev'] == 'fit' and e['role'] == 't']
        if len(obs_splits) != k:
            continue
        # ---- H: behaviour assumed of DataFrame.sample, on a reference invocation; K: documented seed procedure
        # (rows are drawn and removed by POSITION in the frame of remaining rows: copies of a duplicated record are
        #  separate rows)
        m, rem, ref_ok, seed_ok = n // k, pd.DataFrame({'rid': list(rows)}), True, True
        for t in range(k - 1):
            smp = rem.sample(n=m, random_state=RandomState(seeds[pi]))
            ref = [int(v) for v in smp['rid']]
            ref_ok = ref_ok and len(ref) == m and len(set(smp.index)) == m and set(smp.index) <= set(rem.index)
            seed_ok = seed_ok and ref == obs_splits[t]
            rem = rem.drop(smp.index)
            chk.h_checked += 1
        seed_ok = seed_ok and [int(v) for v in rem['rid']] == obs_splits[k - 1]
        if not ref_ok:
            chk.discard('reference DataFrame.sample violated its assumed behaviour')
            continue
        chk.k(seed_ok, 'parts equal the documented seeded sampling procedure', dict(ctx, observed=obs_splits))
        # ---- K: the model, given the observed draws, reproduces all parts and the exact call sequence
        if len(set(rows)) != len(rows):
            # the model names a row by its identifier; copies of a duplicated record share one, so the call sequence
            # cannot be matched row for row (the parts were compared with the documented procedure just above)
            chk.count('model_trace_not_compared(duplicated records)')
        elif drv is not None:
            # (executed: the partition assembled from the code regenerated from crossfit.py, Model/CrossfitGen.lean;
            #  `model` = the hand-written model of Props/C04.lean returns the same, as `crossfit_generated` proves)
            rep, line = drv.ask('crossfit', cls=case['cls'], k=k, rows=enc_list(rows, str),
                                picks=';'.join(enc_list(s, str) for s in obs_splits[:-1]))
            want = ';'.join(enc_list(s, str) for s in obs_splits)
            ok = rep['status'] == 'ok' and rep.get('splits') == want and rep.get('trace') == canon(part) \
                and rep.get('leakfree') == '1' and rep.get('uses') == observed_uses(part) and rep.get('model') == '1'
            # documented preference of _ml_predictor: predict_proba when the learner has it (not part of the property)
            ok = ok and all(e['how'] == 'proba' for e in part if e['ev'] == 'pred' and e['role'] == 't')
            chk.k(ok, 'model reproduces parts and call sequence',
                  dict(ctx, model=rep if not ok else None, observed=canon(part) if not ok else None))


def check_history(chk, drv, case):
    """a history of (respecify learners / bound, fit with other n_splits / n_partitions / method / seed) on ONE
    estimator object: every fit of the history is judged like a single fit, and the last one must reproduce,
    call for call and number for number, a FRESH object given only the last specification"""
    double = CLASSES[case['cls']]
    steps = case['history']
    del SPLIT_OBS[:]
    outs, rows = run_steps(case, steps)
    fresh, _ = run_steps(case, steps[-1:])
    k_split_hypothesis(chk, case)
    chk.case(case, ('history', case['cls'], tuple(s_['k'] for s_ in steps), case['data_seed']),
             sample=case if chk.evals % 7 == 0 else None)
    chk.count('history_' + case['cls'])
    for st, (log, res, err, lside) in zip(steps, outs):
        analyse(chk, drv, case, st, log, err, lside, rows, double)
    (logh, resh, errh, _), (logf, resf, errf, _) = outs[-1], fresh[0]
    chk.d(strip_ids(logh) == strip_ids(logf) and nan_equal(resh, resf) and (errh is None) == (errf is None),
          'a fit after earlier fits on the same object equals the fit of a fresh object (calls and estimates)',
          {'case': case, 'history_result': resh, 'fresh_result': resf, 'history_err': errh, 'fresh_err': errf})


def check_pair(chk, drv, case):
    """two analyses in ONE process on DIFFERENT data sets with the same number of analysed rows, the same n_splits
    and the same random_state (a simulation loop with a fixed seed): each must split, fit and predict its own rows"""
    double = CLASSES[case['cls']]
    chk.case(case, ('pair', case['cls'], case['data_seed']))
    chk.count('pair_' + case['cls'])
    del SPLIT_OBS[:]
    for ds in (case['data_seed'], case['data_seed2']):
        c = dict(case, data_seed=ds)
        log, res, err, rows = run_impl(c)
        lside = c.pop('_learner_side', False)
        analyse(chk, drv, dict(case, data_seed=ds), step_of(case), log, err, lside, rows, double)
    k_split_hypothesis(chk, case)


def make_history(rng, cls, tier):
    double = CLASSES[cls]
    lo = 3 if double else 2
    case = make_case(rng, cls, 6, 1, tier)
    case['n_total'] = int(rng.integers(40, 80)) + case['n_missing']
    ks = [int(v) for v in rng.permutation(np.arange(lo, 7))[:3]]
    if ks[-1] < max(ks[:-1]):            # make most histories end on a LARGER n_splits than seen before
        ks = sorted(ks) if rng.uniform() < 0.7 else ks
    if ks[0] == max(ks):                 # every history contains at least one increase of n_splits
        ks[0], ks[1] = ks[1], ks[0]
    kinds = [str(v) for v in rng.choice(['proba', 'nested', 'warm', 'reg', 'warm_nested', 'functional_prefit',
                                         'nested_prefit'], size=3)]
    case['history'] = [{'k': k_, 'npart': int(rng.integers(1, 4)), 'method': str(rng.choice(['median', 'mean'])),
                        'random_state': int(rng.integers(0, 2 ** 31)), 'kind': kd,
                        'bound': (False if rng.uniform() < 0.6 else 0.05)} for k_, kd in zip(ks, kinds)]
    for k_ in ('k', 'npart', 'method', 'random_state', 'kind', 'bound', 'twice'):
        case.pop(k_, None)
    return case


INDEX_KINDS = ['default', 'stacked', 'shuffled', 'household', 'offset', 'string', 'constant', 'string_repeated',
               'named_household', 'multi', 'datetime']
REPEATED_LABELS = ('stacked', 'household', 'constant', 'string_repeated', 'named_household', 'multi', 'datetime')
DUP_MODES = ['stack', 'expand', 'relabel']
_ROT = itertools.count()


def make_case(rng, cls, k, npart, tier, tiny=False, kind=None):
    n = int(rng.integers(k, 3 * k + 1)) if tiny else int(rng.integers(4 * k, (12 if tier == 'quick' else 30) * k))
    if kind in ('real', 'nested_real') and not tiny:      # a real classifier needs both classes in every part
        n = int(rng.integers(14 * k, 24 * k))
    # the data conditions are crossed, not drawn one at a time: the kind of index labels is rotated over the cases,
    # and rows with missing values / exact duplicates of records are drawn independently of it, so that every kind
    # of labels meets (no / some) missing rows and (no / some) duplicated records within a run
    rot = next(_ROT)
    n_missing = int(rng.integers(1, 4)) if rng.uniform() < 0.45 else 0
    n_dup = int(rng.integers(1, 5)) if rng.uniform() < 0.35 else 0
    continuous = bool(rng.uniform() < 0.3)
    return {'cls': cls, 'k': int(k), 'npart': int(npart), 'n_total': n + n_missing, 'n_missing': n_missing,
            'continuous': continuous,
            # learner kinds are rotated by the caller (`kind`); a real learner cannot be fitted on a one-class part,
            # so tiny parts use the synthetic / composite / pipeline spies only
            'kind': kind or 'proba',
            'index': INDEX_KINDS[(rot + int(rng.integers(0, 2))) % len(INDEX_KINDS)],
            'n_dup': n_dup, 'dup_mode': DUP_MODES[int(rng.integers(0, 3))], 'dup_complete': bool(rng.uniform() < 0.7),
            'bound': (False if rng.uniform() < 0.7 else 0.05), 'method': str(rng.choice(['median', 'mean'])),
            'data_seed': int(rng.integers(0, 2 ** 31)), 'random_state': int(rng.integers(0, 2 ** 31))}


def guarded(chk, fn, *args):
    """anything a check cannot digest is a D failure with a replay for that case, never a tool failure (exit 2)"""
    try:
        fn(*args)
    except Exception as e:
        import traceback
        chk.d(False, 'case could not be completed: %s: %s' % (type(e).__name__, str(e)[:120]),
              {'case': args[-1], 'traceback': traceback.format_exc()[-1500:]})


def run(chk, drv, rng, tier):
    reps = 1 if tier == 'quick' else 4
    cells = set()
    count = tcount = 0
    for rep in range(reps):
        for ci, (cls, double) in enumerate(CLASSES.items()):
            for k in range(3 if double else 2, 7):
                # quick: two n_partitions values per (class, n_splits), rotated so that every (n_splits,
                # n_partitions) pair occurs for a single and for a double estimator; thorough: the full product
                nparts = range(1, 5) if tier == 'thorough' else sorted({1 + (k + ci) % 4, 1 + (k + ci + 2) % 4})
                for npart in nparts:
                    case = make_case(rng, cls, k, npart, tier, kind=KINDS[count % len(KINDS)])
                    count += 1
                    case['twice'] = tier == 'thorough' or count % 2 == 0
                    guarded(chk, check_case, chk, drv, case)
                    cells.add((cls, k, npart))
            # tiny parts (n between k and 3k): AIPTW only -- the TMLE targeting GLM needs data in every part
            if 'AIPTW' in cls:
                for k in range(3 if double else 2, 7):
                    case = make_case(rng, cls, k, 1 + (k + rep) % 2, tier, tiny=True,
                                     kind=KINDS_TINY[tcount % len(KINDS_TINY)])
                    tcount += 1
                    case['twice'] = tier == 'thorough'
                    guarded(chk, check_case, chk, drv, case)
            # rejected configurations
            case = make_case(rng, cls, 2 if double else 1, 1, tier)
            case['twice'] = False
            check_case(chk, drv, case)
            # the falsy but valid seed 0 (and, thorough, other unusual valid seeds): determinism for every class
            for seed in ([0] if tier == 'quick' else [0, 1, 2 ** 32 - 1]):
                case = make_case(rng, cls, 3 if double else 2, 2, tier, kind=KINDS[(count + seed) % len(KINDS)])
                case['random_state'] = int(seed)
                case['twice'] = True
                check_case(chk, drv, case)
            # same length, same n_splits, same seed, different data -- in one process
            for seed in ((0, 17) if tier == 'thorough' else (int(rng.integers(0, 3)),)):
                case = make_case(rng, cls, int(rng.integers(3 if double else 2, 6)), 1 if tier == 'quick' else 2, tier,
                                 kind=KINDS[(count + 3) % len(KINDS)])
                case['random_state'] = int(seed)
                case['data_seed2'] = case['data_seed'] + 1 + int(rng.integers(0, 80))
                case['dup_complete'] = True      # both data sets keep the same number of analysed rows
                case['twice'] = False
                guarded(chk, check_pair, chk, drv, case)
            # histories of fits on one object vs a fresh object
            for _ in range(1 if tier == 'quick' else 2):
                guarded(chk, check_history, chk, drv, make_history(rng, cls, tier))
    chk.extra['config_cells'] = len(cells)
    if drv is not None:
        direct_ties(chk, drv, rng, tier)


def direct_ties(chk, drv, rng, tier):
    """gate K on the regenerated definitions and on the Python primitives they are written in, without an estimator"""
    from zepid.causal.doublyrobust import crossfit as xf
    # pairing lists against Python's own negative indexing, all k up to 40: the model's pairIdx and the regenerated
    # prediction loop (run on k one-row parts) must both give the positions Python's subscript selects
    for k in range(2, 41):
        for d in (1, 2):
            if d > k:
                continue
            rep, _ = drv.ask('pairidx', k=k, d=d)
            want = [list(range(k))[i - d] for i in range(k)]
            chk.k(rep['status'] == 'ok' and rep['idx'] == enc_list(want, str) and rep.get('gen') == enc_list(want, str),
                  'pairIdx and the regenerated prediction loop = Python negative indexing', {'k': k, 'd': d, 'model': rep})
    # Python's subscript rule as written in Model/PyList.lean (Py.get), including IndexError
    for n in range(0, 6):
        lst = [10 + j for j in range(n)]
        for i in range(-n - 3, n + 3):
            rep, _ = drv.ask('pyget', l=enc_list(lst, str), i=i)
            try:
                want = ('ok', str(lst[i]))
            except IndexError:
                want = ('err', None)
            chk.k((rep['status'], rep.get('v')) == want, 'Py.get = Python subscripting', {'l': lst, 'i': i, 'model': rep})
    # _sample_split_ itself on frames of every small size, including more parts than rows and n_splits = 1: the
    # regenerated definition, given the draws observed (all parts but the last), returns every part
    sizes = range(0, 26) if tier == 'quick' else range(0, 61)
    for n in sizes:
        for k in range(1, 8):
            seed = int(rng.integers(0, 2 ** 31))
            base = int(rng.integers(0, 50))
            df = pd.DataFrame({'rid': np.arange(base, base + n)})
            try:
                parts = [[int(v) for v in p['rid']] for p in xf._sample_split_(df, n_splits=k, random_state=seed)]
            except Exception as e:
                chk.d(False, '_sample_split_ raised on a frame', {'n': n, 'k': k, 'seed': seed, 'err': repr(e)[:200]})
                continue
            rows = list(range(base, base + n))
            rep, _ = drv.ask('samplesplit', k=k, rows=enc_list(rows, str),
                             picks=';'.join(enc_list(p, str) for p in parts[:-1]) or '-')
            ok = rep['status'] == 'ok' and rep.get('splits') == ';'.join(enc_list(p, str) for p in parts) \
                and rep.get('model') == '1'
            chk.k(ok, 'regenerated _sample_split_ reproduces every part of the real one',
                  {'n': n, 'k': k, 'seed': seed, 'observed': parts, 'model': rep})
            chk.count('sample_split_direct')
            # D on the splitting function itself: a frame whose rows are told apart by their index labels only (the
            # column holds a few repeated values, i.e. exact duplicates of records under distinct labels -- what the
            # estimators hand over after check_input_data when the caller's data hold duplicated records)
            dcase = {'direct_split': True, 'n': n, 'k': k, 'seed': seed, 'base': base,
                     'values': [int(v) for v in rng.integers(0, 3, size=n)]}
            for ok, what in judge_direct_split(dcase):
                chk.d(ok, what, {'case': dcase})


def judge_direct_split(dcase):
    from collections import Counter
    from zepid.causal.doublyrobust import crossfit as xf
    n, k = dcase['n'], dcase['k']
    labels = list(range(dcase['base'], dcase['base'] + n))
    df = pd.DataFrame({'v': np.asarray(dcase['values'], dtype=float)}, index=labels)
    try:
        parts = [[int(v) for v in p.index] for p in xf._sample_split_(df, n_splits=k, random_state=dcase['seed'])]
    except Exception as e:
        return [(False, '_sample_split_ raised on a frame with repeated values: %s' % repr(e)[:120])]
    flat = [i for p in parts for i in p]
    sizes = [len(p) for p in parts]
    return [(len(parts) == k, '_sample_split_ (records with equal values): n_splits parts'),
            (max(Counter(flat).values(), default=0) <= 1, '_sample_split_ (records with equal values): parts disjoint'),
            (sorted(flat) == labels, '_sample_split_ (records with equal values): parts exhaustive'),
            (max(sizes) - min(sizes) < max(k, 1) if sizes else False,
             '_sample_split_ (records with equal values): parts near-equal')]


def replay(rec):
    bad = 0
    for f in rec.get('failures', []):
        case = f['case'].get('case') if isinstance(f.get('case'), dict) else None
        if not case:
            print('no replayable case in', f.get('what'))
            continue
        print('replaying', case)
        if case.get('direct_split'):
            for ok, what in judge_direct_split(case):
                if not ok:
                    bad += 1
                    print(' FAILS:', what)
            continue
        if 'data_seed2' in case or 'history' in case:
            import common
            c2 = common.Check('C04', 'replay', 0)
            (check_history if 'history' in case else check_pair)(c2, None, case)
            for g in c2.d_fail:
                bad += 1
                print(' FAILS:', g['what'])
            continue
        log, res, err, rows = run_impl(case)
        print(' error:', err, ' estimates:', res)
        for pi, part in enumerate(partitions(log) if err is None else partitions(log)[:-1]):
            for ok, what in judge_partition(part, rows, case['k'], CLASSES[case['cls']]):
                if not ok:
                    bad += 1
                    print(' partition %d FAILS: %s' % (pi, what))
                    print('  calls:', canon(part))
        log2, res2, err2, _ = run_impl(case)
        if not nan_equal(res, res2):
            bad += 1
            print(' FAILS: two runs differ', res, res2)
    print('replay: %d failing predicate(s)' % bad)
    return 1 if bad else 0
