"""C19 -- no-assumption (Frechet) bounds of RiskDifference are valid, sharp, of width one and contain the RD."""
import itertools
import math
from fractions import Fraction

import numpy as np
import pandas as pd
from scipy.stats import norm

import gen
from common import fx, unfx, rq, dec_list, close

REQUIRED = ['counts_of_rows', 'counts_of_completion', 'width_one', 'frechet_closed_form', 'bounds_valid',
            'bounds_sharp', 'binary_counts', 'contains_rd', 'contains_reported_rd', 'frechet_relabel',
            'frechet_counts_generated']
RULE = ('binary exposure: every 2x2 table with cells 0..B (B=6 quick, 8 thorough) and both groups non-empty, each with '
        'and without extra rows missing the exposure, the outcome or both (outcomes / exposures of the incomplete rows '
        'varied), rows shuffled; every completion of the unobserved potential outcomes enumerated literally for n <= 10 '
        '(12 thorough) and by (u, v) count classes for all tables; random large tables (cells up to 5000) against the '
        'closed form; frames with 3-4 exposure levels (codes from a pool with negative, fractional and large values) for '
        'the model correspondence.  Options of every frame drawn independently from the rng: (index level, reference) from '
        '20 codings (0/1 and its mirror take half of the tables; reference coded larger, negative codes on either side, both '
        'negative, fractional, far apart, large); the reference handed over as int, float or numpy scalar; 6 index kinds '
        '(default, reversed, repeated labels as after pd.concat, string ids, float, constant label); 12 column-storage kinds: '
        'float, int64, int8/uint8, bool outcome, object (None and NaN mixed) and the pandas nullable / categorical ones '
        '(Int64, Int8/UInt8, Int32 x boolean, Float64, Int64 x float, float x Int64, category) which carry the incomplete '
        'rows as pd.NA (a kind that cannot hold the data falls back to float / Float64); 4 call histories (fit; fit then '
        'summary(3) / summary(1) / summary(3) and summary(0)); one frame in four shared: another RiskDifference is fitted '
        'first on a second exposure column (named <exposure>0, with its own missing values) of the same DataFrame object; '
        'exposure and outcome column names drawn half of the time from a pool of scratch names (a static list + every '
        'identifier, keyword, attribute and short string constant of class RiskDifference in the tree under test) or made '
        'substrings of one another, with 0-3 unused columns named the same way (prefix / suffix / case variants of the used '
        'names; contents with their own missing values), column order shuffled.  Two sweeps: storage kind x coding on small '
        'frames with incomplete rows in both arms; every pool name as the exposure and as the outcome column.  The frame is '
        'snapshotted around all calls; any exception on a table with four positive cells, and a missing result row for a '
        'level present in the data, is a failure.  distinct = distinct (table, missing pattern, coding, options); non-trivial '
        '= the fit reports bounds (all four cells positive) and the table is not symmetric (a != d or b != c) or has '
        'incomplete rows')
ASSUMPTIONS = ['pandas comparison semantics on a float column: NaN == x is False, NaN != x is True, notnull/dropna '
               'identify exactly the NaN rows (measured on every frame by an independent pure-python count)',
               'the sample of the property is the set of rows with exposure and outcome observed (n of the code)',
               'pandas nullable / categorical / object columns: a comparison with a missing entry (pd.NA, None, NaN) selects '
               'nothing in .loc for == and, joined with notnull(), nothing for != ; dropna removes exactly those rows '
               '(measured on every such frame against the pure-python counts)']

TOL = 1e-12   # the code does <= 6 float operations on numbers of magnitude <= 1 (error ~1e-16); attainable causal
#               risk differences are multiples of 1/n with n <= 3e4, so 1e-12 separates rounding from a wrong formula


def nanlist(xs):
    return [float('nan') if x is None else float(x) for x in xs]


INDEX_KINDS = ['default', 'shuffled', 'repeated', 'string', 'float', 'constant']
DTYPE_KINDS = gen.NUMPY_DTYPE_KINDS + gen.NULLABLE_DTYPE_KINDS
HISTORIES = ['fit', 'fit+summary3', 'fit+summary1', 'fit+summary3+summary0']
REF_TYPES = ['py', 'float', 'numpy']
DEFAULT_NAMES = {'exp': 'exp', 'dis': 'dis', 'extras': [], 'order': None}
DEFAULT_OPTS = {'index': 'default', 'dtype': 'float', 'history': 'fit', 'shared': False, 'names': DEFAULT_NAMES,
                'ref_type': 'py'}
CODINGS = gen.BINARY_CODINGS
_POOL = []


def pool():
    """scratch-name pool: static names + the names class RiskDifference uses in the tree under test"""
    if not _POOL:
        _POOL.extend(gen.name_pool('zepid/base.py', 'RiskDifference'))
    return _POOL


def make_index(kind, n):
    if kind == 'default':
        return None
    if kind == 'shuffled':
        return [n - i + 10 for i in range(n)]
    if kind == 'repeated':              # what pd.concat of two parts without ignore_index gives
        h = max(1, n // 2)
        return list(range(h)) + list(range(n - h))
    if kind == 'string':
        return ['id%03d' % (n - i) for i in range(n)]
    if kind == 'float':
        return [0.5 + 1.25 * i for i in range(n)]
    if kind == 'constant':
        return [3] * n
    raise KeyError(kind)


def second_exposure_name(names):
    """name of the other analysis' exposure column in a shared frame: the exposure name with a suffix (a superstring)"""
    taken = {names['exp'], names['dis']} | {x[0] for x in names['extras']}
    nm = names['exp'] + '0'
    while nm in taken:
        nm += '0'
    return nm


def build_df(e, y, opts):
    """the caller's frame: the exposure and outcome columns under the names and in the storage kind asked for
    (gen.typed_columns: a kind that cannot hold the data falls back to float / Float64), unused columns with names of
    their own, a second exposure with its own missing values when the frame is shared between two analyses; columns in
    the order drawn; index kind as asked"""
    names = opts.get('names') or DEFAULT_NAMES
    ce, cy, dt = gen.typed_columns(e, y, opts['dtype'])
    cols = {names['exp']: ce, names['dis']: cy}
    for nm, seed in names['extras']:
        cols[nm] = gen.extra_column(seed, e, y)
    if opts['shared']:
        # another exposure column of the same frame, missing on rows where the first is observed (and vice versa)
        n = len(e)
        cols[second_exposure_name(names)] = [float('nan') if (i % 3 == 1) else float(i % 2) for i in range(n)]
    order = list(cols)
    if names.get('order') is not None:
        order = [order[i] for i in np.random.default_rng(names['order']).permutation(len(order))]
    df = pd.DataFrame({c: cols[c] for c in order})
    idx = make_index(opts['index'], len(df))
    if idx is not None:
        df.index = idx
    return df, dt


def typed_reference(ref, kind):
    if kind == 'float':
        return float(ref)
    if kind == 'numpy':
        return np.int64(ref) if float(ref).is_integer() else np.float64(ref)
    return ref


def frame_snapshot(df):
    return (tuple(df.columns), tuple(map(repr, df.index)), tuple(str(t) for t in df.dtypes), df.shape,
            tuple(repr(df[c].tolist()) for c in df.columns))


def fit_impl(e, y, ref, opts=None):
    """run the real RiskDifference on the frame (e, y); None = missing.  opts: index / dtype kind, the history of
    calls made on the object before `results` is read, and whether the caller's frame was first used by another
    RiskDifference on another exposure column.  Every exception is reported (kind), none escapes."""
    import zepid
    opts = dict(DEFAULT_OPTS, **(opts or {}))
    names = opts.get('names') or DEFAULT_NAMES
    df, dt = build_df(e, y, opts)
    before = frame_snapshot(df)
    first = None
    try:
        if opts['shared']:
            other = zepid.RiskDifference(reference=0)
            try:
                other.fit(df, exposure=second_exposure_name(names), outcome=names['dis'])
                first = 'ok'
            except (ValueError, ZeroDivisionError) as ex:       # a zero cell in the other analysis: irrelevant here
                first = type(ex).__name__
        obj = zepid.RiskDifference(reference=typed_reference(ref, opts.get('ref_type', 'py')))
        obj.fit(df, exposure=names['exp'], outcome=names['dis'])
        for step in opts['history'].split('+')[1:]:
            obj.summary(decimal=int(step[len('summary'):]))
    except Exception as ex:                                      # noqa: BLE001
        return {'status': 'err', 'kind': type(ex).__name__, 'msg': str(ex)[:120], 'dtype': dt,
                'frame_untouched': frame_snapshot(df) == before}
    out, odd = {}, []
    try:
        for k, lab in enumerate(obj.results.index):
            if not str(lab).startswith('Ref:'):
                r = obj.results.iloc[k]
                try:
                    key = float(lab)
                except (TypeError, ValueError):        # a row labelled with something that is not a level of the data
                    odd.append(str(lab))
                    continue
                out[key] = (float(r['RiskDifference']), float(r['LowerBound']), float(r['UpperBound']))
        n_rep = int(obj.n)
    except Exception as ex:                                      # noqa: BLE001
        return {'status': 'err', 'kind': type(ex).__name__, 'msg': 'reading results: ' + str(ex)[:100], 'dtype': dt,
                'frame_untouched': frame_snapshot(df) == before}
    return {'status': 'ok', 'levels': out, 'odd_labels': odd, 'n': n_rep, 'dtype': dt, 'first_analysis': first,
            'frame_untouched': frame_snapshot(df) == before}


def counts(e, y, lvl):
    """independent pure-python counts for index level lvl"""
    a = sum(1 for ei, yi in zip(e, y) if ei == lvl and yi == 1)
    b = sum(1 for ei, yi in zip(e, y) if ei == lvl and yi == 0)
    yo = sum(1 for ei, yi in zip(e, y) if ei is not None and ei != lvl and yi == 1)
    n = sum(1 for ei, yi in zip(e, y) if ei is not None and yi is not None)
    return a, b, yo, n


def enumerate_completions(e, y, lvl):
    """literal enumeration: every assignment of the unobserved potential outcome of every complete row.
    Returns (min, max) of the sample causal risk difference as exact Fractions and the number of completions."""
    rows = [(ei == lvl, int(yi)) for ei, yi in zip(e, y) if ei is not None and yi is not None]
    n = len(rows)
    A = np.array([r[0] for r in rows], dtype=bool)
    Y = np.array([r[1] for r in rows], dtype=np.int64)
    U = ((np.arange(2 ** n)[:, None] >> np.arange(n)[None, :]) & 1).astype(np.int64)   # all 2^n fillings
    Y1 = np.where(A[None, :], Y[None, :], U)      # consistency: exposed rows show Y(1)
    Y0 = np.where(A[None, :], U, Y[None, :])
    diff = Y1.sum(axis=1) - Y0.sum(axis=1)
    return Fraction(int(diff.min()), n), Fraction(int(diff.max()), n), 2 ** n


def enumerate_classes(a, b, yo, n):
    """all attainable values by count classes: u free events among the n-(a+b) rows outside the level, v among a+b"""
    u = np.arange(0, n - (a + b) + 1)[:, None]
    v = np.arange(0, a + b + 1)[None, :]
    diff = (a + u) - (yo + v)
    return Fraction(int(diff.min()), n), Fraction(int(diff.max()), n)


def enc_opt(xs, f):
    return ','.join('_' if x is None else f(x) for x in xs) or '[]'


def nat_codes(e, lvl, ref):
    """the exposure column as the model sees it: levels are labels (Nat) compared for equality only.  Codes that are
    all non-negative integers go to the driver as they are; otherwise the distinct codes (with lvl and ref) are
    numbered in increasing order (an injective relabelling; `frechet_relabel` in Props/C19.lean: the model's bounds
    do not depend on it)."""
    vals = sorted({v for v in e if v is not None} | {lvl, ref})
    if all(float(v).is_integer() and v >= 0 for v in vals):
        m = {v: int(v) for v in vals}
    else:
        m = {v: k for k, v in enumerate(vals)}
    return [None if v is None else m[v] for v in e], m[lvl], m[ref], m


def pandas_counts(df, names, lvl):
    """gate H on the frame actually handed to zEpid: the pandas idioms (==, != with notnull, dropna) counted on its
    columns; None when pandas itself refuses one of them"""
    try:
        ex, di = df[names['exp']], df[names['dis']]
        return (int(df.loc[(ex == lvl) & (di == 1)].shape[0]), int(df.loc[(ex == lvl) & (di == 0)].shape[0]),
                int(df.loc[(ex != lvl) & ex.notnull() & (di == 1)].shape[0]),
                int(df.dropna(subset=[names['exp'], names['dis']]).shape[0]))
    except Exception:                                            # noqa: BLE001
        return None


def evaluate(chk, drv, rng, e, y, lvl, ref, tag, enum_limit, judge_binary=True, opts=None):
    """one frame, one (index level, reference): gates H, D, K.  Returns the list of failed predicates (for replay)."""
    failed = []

    def D(ok, what):
        chk.d(ok, what, case)
        if not ok:
            failed.append(what)

    def K(ok, what, extra=None):
        chk.k(ok, what, {'case': case, 'model': extra})
        if not ok:
            failed.append('K:' + what)

    opts = dict(DEFAULT_OPTS, **(opts or {}))
    names = opts.get('names') or DEFAULT_NAMES
    res = fit_impl(e, y, ref, opts)
    a, b, yo, n = counts(e, y, lvl)
    c, d, _, _ = counts(e, y, ref)
    nmiss = sum(1 for ei, yi in zip(e, y) if ei is None or yi is None)
    case = {'tag': tag, 'e': list(e), 'y': list(y), 'lvl': lvl, 'ref': ref, 'opts': opts, 'impl': res,
            'counts': {'a': a, 'b': b, 'y_other': yo, 'n': n, 'c': c, 'd': d}}
    reported = res['status'] == 'ok' and float(lvl) in res['levels']
    nontriv = reported and (a != d or b != c or nmiss > 0)
    chk.case(None, (tag, a, b, c, d, yo, n, nmiss, lvl, ref, repr(sorted(opts.items()))) if nontriv else None,
             sample={k: v for k, v in case.items() if k not in ('e', 'y')} if (nontriv and chk.evals % 211 == 0) else None)
    # ---- H: pandas NaN semantics measured against the pure-python counts
    col = pd.Series(nanlist(e))
    yy = pd.Series(nanlist(y))
    h_ok = (int(((col != lvl) & col.notnull() & (yy == 1)).sum()) == yo and
            int(((col == lvl) & (yy == 1)).sum()) == a and
            int(pd.DataFrame({'e': col, 'y': yy}).dropna(subset=['e', 'y']).shape[0]) == n)
    chk.h_checked += 1
    if not h_ok:
        chk.discard('pandas NaN comparison semantics differ from the assumption')
        return failed
    if res.get('dtype') != 'float':
        # the same idioms on the typed columns (nullable: comparisons give pd.NA, which .loc must read as False)
        chk.h_checked += 1
        if pandas_counts(build_df(e, y, opts)[0], names, lvl) != (a, b, yo, n):
            chk.discard('pandas semantics of ==, !=, notnull, dropna on %s columns differ from the assumption' % res.get('dtype'))
            return failed
    for k in ('index', 'dtype', 'history', 'ref_type'):
        chk.count('%s=%s' % (k, res.get('dtype') if k == 'dtype' else opts[k]))
    chk.count('coding=%s' % ('multi' if not judge_binary else '%g/%g' % (lvl, ref)))
    chk.count('names=%s' % ('default' if (names['exp'], names['dis']) == ('exp', 'dis') else 'drawn'))
    chk.count('extra_columns', len(names['extras']))
    if nmiss and res.get('dtype') in gen.NULLABLE_DTYPE_KINDS + ['object']:
        chk.count('incomplete_rows_in_non_float_columns')
    if opts['shared']:
        chk.count('shared_frame')
    # ---- D: the caller's frame is the data the bounds are about -- it must be the same after every call
    chk.d(res['frame_untouched'], "the caller's DataFrame is unchanged by fit / summary (values, index, dtypes, shape)", case)
    if not res['frame_untouched']:
        failed.append('frame changed')
    if not reported:
        zero_cell = min(a, b, c, d) == 0 if judge_binary else True
        if res['status'] == 'err' and not (zero_cell and res.get('kind') in ('ValueError', 'ZeroDivisionError')):
            # every cell positive (or an exception other than the count functions' rejection): valid input refused
            D(False, 'RiskDifference raised %s on a valid frame: %s' % (res.get('kind'), res.get('msg')))
        if res['status'] == 'ok' and a + b > 0:
            # the fit went through and the data hold rows at this level with the outcome observed: the results must
            # have its row (the bounds the property speaks of are the ones reported for it)
            D(False, 'results have a row for every non-reference level present in the data')
        chk.count('not_reported_' + (res.get('kind') or 'level-absent'))
        if drv is not None and res['status'] == 'err' and a + b > 0 and c + d > 0:
            # the model of the fit must refuse the same frames (zero cell -> risk_difference raises)
            ne, nl, nr, _ = nat_codes(e, lvl, ref)
            rep, line = drv.ask('frame', cls='RD', ref=nr, alpha=fx(0.05), px=fx(0.975), pz=fx(norm.ppf(0.975)),
                                e=enc_opt(ne, lambda v: str(int(v))), d=enc_opt(y, lambda v: str(int(v))))
            K(rep['status'] == 'err', 'frame RD: model rejects what the fit rejects', rep)
        return failed
    chk.count('reported')
    rd, lo, hi = res['levels'][float(lvl)]
    # ---- D: width, validity + sharpness by enumeration, containment (binary exposure only)
    D(abs((hi - lo) - 1.0) <= TOL, 'UpperBound - LowerBound = 1')
    D(res['n'] == n, 'n = number of rows with exposure and outcome observed')
    if judge_binary:
        mn, mx = enumerate_classes(a, b, yo, n)
        D(lo <= float(mn) + TOL and float(mx) <= hi + TOL,
          'validity: every completion has LowerBound <= causal RD <= UpperBound (count classes)')
        D(abs(lo - float(mn)) <= TOL and abs(hi - float(mx)) <= TOL,
          'sharpness: min / max causal RD over completions equal LowerBound / UpperBound (count classes)')
        if n <= enum_limit:
            mn2, mx2, ncomp = enumerate_completions(e, y, lvl)
            chk.count('literal_completions', ncomp)
            D(lo <= float(mn2) + TOL and float(mx2) <= hi + TOL,
              'validity: every completion has LowerBound <= causal RD <= UpperBound (literal enumeration)')
            D(abs(lo - float(mn2)) <= TOL and abs(hi - float(mx2)) <= TOL,
              'sharpness: both bounds attained by a completion (literal enumeration)')
            D((mn2, mx2) == (mn, mx), 'harness self-check: literal and count-class enumeration agree')
        D(lo - TOL <= rd <= hi + TOL, 'LowerBound <= RiskDifference <= UpperBound')
        D(close(rd, float(Fraction(a, a + b) - Fraction(c, c + d)), rtol=1e-12, atol=1e-15),
          'RiskDifference = a/(a+b) - c/(c+d)')
    else:
        if not (lo - TOL <= rd <= hi + TOL):
            chk.count('multilevel_rd_outside_interval(outside the property)')
    # ---- K: model (exact Rat, and Float via the frame op) vs implementation
    if drv is not None:
        ne, nl, nr, _ = nat_codes(e, lvl, ref)
        es, ds = enc_opt(ne, lambda v: str(int(v))), enc_opt(y, lambda v: str(int(v)))
        rep, line = drv.ask('frechetq', e=es, d=ds, lvl=nl)
        okq = rep['status'] == 'ok'
        if okq:
            ql, qu = Fraction(rep['lower']), Fraction(rep['upper'])
            okq = abs(float(ql) - lo) <= TOL and abs(float(qu) - hi) <= TOL
            if judge_binary:
                okq = okq and (ql, qu) == (Fraction(-(b + yo), n), Fraction(n - b - yo, n))
        K(okq, 'frechetq: exact model bounds vs LowerBound/UpperBound', rep)
        rank = {v: j for j, v in enumerate(sorted({v for v in ne if v is not None} | {nl, nr}))}
        if rep['status'] == 'ok' and any(v != j for v, j in rank.items()):
            # theorem frechet_relabel, executed: the model's bounds on the codes numbered 0, 1, 2, ... are the same
            rep2, line = drv.ask('frechetq', e=enc_opt([None if v is None else rank[v] for v in ne], str), d=ds, lvl=rank[nl])
            K(rep2['status'] == 'ok' and (rep2.get('lower'), rep2.get('upper')) == (rep['lower'], rep['upper']),
              'frechet_relabel: model bounds unchanged by renumbering the levels', rep2)
        rep, line = drv.ask('frame', cls='RD', ref=nr, alpha=fx(0.05), px=fx(0.975), pz=fx(norm.ppf(0.975)),
                            e=es, d=ds)
        okf = rep['status'] == 'ok'
        if okf:
            lv = dec_list(rep['levels'], int)
            okf = nl in lv and int(rep['n']) == res['n']
            if okf:
                j = lv.index(nl)
                okf = (close(unfx(dec_list(rep['frl'], str)[j]), lo, rtol=1e-13, atol=1e-15) and
                       close(unfx(dec_list(rep['fru'], str)[j]), hi, rtol=1e-13, atol=1e-15) and
                       close(unfx(dec_list(rep['point'], str)[j]), rd, rtol=1e-13, atol=1e-15))
        K(okf, 'frame RD (Float model): frl/fru/point vs implementation', rep)
        if judge_binary and n <= 400:
            # specification side: the Lean causalRD of a random completion equals the python value
            comp = [(ei == lvl, int(yi)) for ei, yi in zip(e, y) if ei is not None and yi is not None]
            u = [int(v) for v in rng.integers(0, 2, size=len(comp))]
            s1 = sum(yi if ai else ui for (ai, yi), ui in zip(comp, u))
            s0 = sum(ui if ai else yi for (ai, yi), ui in zip(comp, u))
            rep, line = drv.ask('crd', e=es, d=ds, lvl=nl, u=','.join(map(str, u)))
            oks = (rep['status'] == 'ok' and rep['completion'] == '1' and int(rep['n']) == n and
                   Fraction(rep['rd']) == Fraction(s1 - s0, n) and
                   Fraction(rep['attainlo']) == Fraction(rep['lower']) and
                   Fraction(rep['attainhi']) == Fraction(rep['upper']) and
                   Fraction(rep['lower']) <= Fraction(rep['rd']) <= Fraction(rep['upper']))
            K(oks, 'crd: Lean causalRD of a random completion = python value; extreme completions attain the model '
                   'bounds', rep)
    return failed


def build_frame(rng, a, b, c, d, lvl, ref, miss):
    """rows of the 2x2 table plus incomplete rows; miss = (missing exposure, missing outcome, missing both)"""
    e = [lvl] * (a + b) + [ref] * (c + d)
    y = [1] * a + [0] * b + [1] * c + [0] * d
    me, md, med = miss
    for k in range(me):
        e.append(None)
        y.append(1 if k % 2 == 0 else 0)        # events among rows with unknown exposure must not be counted
    for k in range(md):
        e.append(lvl if k % 2 == 0 else ref)
        y.append(None)
    for k in range(med):
        e.append(None)
        y.append(None)
    perm = rng.permutation(len(e))
    return [e[i] for i in perm], [y[i] for i in perm]


def gen_multi(rng):
    nlev = int(rng.integers(3, 5))
    # non-negative integer codes half of the time, otherwise any of the pool (negative, fractional, large)
    pool_ = [0, 1, 2, 3, 5, 8, 9, 16, 17, 33] if rng.uniform() < 0.5 else gen.MULTI_LEVEL_POOL
    levels = sorted((int(v) if float(v).is_integer() else float(v)) for v in rng.choice(pool_, size=nlev, replace=False))
    n = int(rng.integers(30, 120))
    e = [levels[int(j)] for j in rng.integers(0, nlev, size=n)]
    risk = {l: float(rng.uniform(0.2, 0.8)) for l in levels}
    y = [int(rng.uniform() < risk[l]) for l in e]
    pm = float(rng.choice([0.0, 0.1, 0.25]))
    e = [None if rng.uniform() < pm else v for v in e]
    y = [None if rng.uniform() < pm else v for v in y]
    return e, y, levels


def random_opts(rng, names=True):
    return {'index': INDEX_KINDS[int(rng.integers(0, len(INDEX_KINDS)))],
            'dtype': DTYPE_KINDS[int(rng.integers(0, len(DTYPE_KINDS)))],
            'history': HISTORIES[int(rng.integers(0, len(HISTORIES)))], 'shared': bool(rng.uniform() < 0.25),
            'ref_type': REF_TYPES[int(rng.integers(0, len(REF_TYPES)))],
            'names': gen.draw_names(rng, pool()) if names else DEFAULT_NAMES}


def sweep_frame(rng):
    """a small table with four positive cells, unequal arms and incomplete rows of every kind in both arms"""
    a, b, c, d = (int(v) for v in rng.integers(1, 5, size=4))
    if a + b == c + d:
        d += 1
    return (a, b, c, d), (int(rng.integers(1, 3)), int(rng.integers(2, 5)), int(rng.integers(1, 3)))


def run(chk, drv, rng, tier):
    B = 6 if tier == 'quick' else 8
    enum_limit = 10 if tier == 'quick' else 12
    patterns = [(0, 0, 0), (2, 1, 1), (1, 2, 0)]
    k = 0
    for a, b, c, d in itertools.product(range(0, B + 1), repeat=4):
        if a + b == 0 or c + d == 0:
            continue
        for miss in (patterns if tier == 'thorough' else [patterns[0], patterns[1 + (a + b + c + d) % 2]]):
            # the first two codings (0/1 and its mirror) take half of the tables, the other 18 share the rest
            lvl, ref = CODINGS[k % 2] if (k // 2) % 2 == 0 else CODINGS[2 + (k // 4) % (len(CODINGS) - 2)]
            k += 1
            e, y = build_frame(rng, a, b, c, d, lvl, ref, miss)
            evaluate(chk, drv, rng, e, y, lvl, ref, 'table', enum_limit, opts=random_opts(rng))
    chk.extra['exhaustive'] = False
    chk.extra['exhaustive_tables_cells_up_to'] = B
    # configuration sweep 1: every storage kind x every coding x reference type, on frames with incomplete rows
    reps = 1 if tier == 'quick' else 4
    for _ in range(reps):
        for dt in DTYPE_KINDS:
            for ci, (lvl, ref) in enumerate(CODINGS):
                (a, b, c, d), miss = sweep_frame(rng)
                e, y = build_frame(rng, a, b, c, d, lvl, ref, miss)
                o = dict(random_opts(rng, names=False), dtype=dt, ref_type=REF_TYPES[(ci + DTYPE_KINDS.index(dt)) % 3],
                         history='fit', shared=False)
                evaluate(chk, drv, rng, e, y, lvl, ref, 'dtype-x-coding', enum_limit, opts=o)
    # configuration sweep 2: every name of the pool as the outcome column and as the exposure column (the other column
    # keeps its default name or is a superstring / substring of it), with unused columns named from the pool
    names_pool = pool()
    chk.extra['name_pool_size'] = len(names_pool)
    for _ in range(reps):
        for nm in names_pool:
            for role in ('dis', 'exp'):
                (a, b, c, d), miss = sweep_frame(rng)
                lvl, ref = CODINGS[int(rng.integers(0, 4))]
                e, y = build_frame(rng, a, b, c, d, lvl, ref, miss)
                nmz = gen.draw_names(rng, names_pool, p_hostile=0.0)
                other = 'dis' if role == 'exp' else 'exp'
                nmz[role] = nm
                if rng.uniform() < 0.3:
                    rel = gen.related_names(nm)
                    nmz[other] = rel[int(rng.integers(0, len(rel)))]
                if nmz['exp'] == nmz['dis']:
                    nmz[other] += '_'
                nmz['extras'] = [x for x in nmz['extras'] if x[0] not in (nmz['exp'], nmz['dis'])]
                o = dict(random_opts(rng, names=False), names=nmz, history='fit')
                evaluate(chk, drv, rng, e, y, lvl, ref, 'names', enum_limit, opts=o)
    # random large tables
    for _ in range(150 if tier == 'quick' else 1500):
        a, b, c, d = (int(v) for v in rng.integers(1, 5000 if rng.uniform() < 0.5 else 60, size=4))
        miss = tuple(int(v) for v in rng.integers(0, 40, size=3)) if rng.uniform() < 0.7 else (0, 0, 0)
        lvl, ref = CODINGS[int(rng.integers(0, len(CODINGS)))]
        e, y = build_frame(rng, a, b, c, d, lvl, ref, miss)
        evaluate(chk, drv, rng, e, y, lvl, ref, 'large', enum_limit, opts=random_opts(rng))
    # exposure with 3-4 levels: correspondence of the model with the code (pooled comparison group) and width only;
    # validity against the reference level is outside the property (binary exposure)
    for _ in range(40 if tier == 'quick' else 300):
        e, y, levels = gen_multi(rng)
        present = sorted({v for v in e if v is not None})
        ref = present[int(rng.integers(0, len(present)))]
        for lvl in present:
            if lvl != ref:
                evaluate(chk, drv, rng, e, y, lvl, ref, 'multi', enum_limit, judge_binary=False, opts=random_opts(rng))


def replay(rec):
    """re-run the stored failing frames on the real code and print what the predicates say now"""
    import common
    drv = common.Driver() if __import__('os').path.exists(common.DRIVER) else None
    bad = 0
    for f in rec.get('failures', []) + rec.get('k_failures', []):
        case = f.get('case') or {}
        case = case.get('case', case)
        if not case or 'e' not in case:
            print('no frame stored for:', f.get('what'))
            continue
        chk = common.Check('C19', 'replay', 0)
        with common.quiet():
            failed = evaluate(chk, drv, np.random.default_rng(0), case['e'], case['y'], case['lvl'], case['ref'],
                              case.get('tag', 'replay'), 12, judge_binary=case.get('tag') != 'multi',
                              opts=case.get('opts'))
        print('counts', case.get('counts'), 'lvl', case['lvl'], 'ref', case['ref'])
        print('  implementation now:', fit_impl(case['e'], case['y'], case['ref'], case.get('opts')))
        print('  failed predicates :', failed or 'none')
        bad += bool(failed)
    if drv is not None:
        drv.close()
    return 1 if bad else 0
