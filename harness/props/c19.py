"""C19 -- no-assumption (Frechet) bounds of RiskDifference are valid, sharp, of width one and contain the RD."""
import itertools
import math
from fractions import Fraction

import numpy as np
import pandas as pd
from scipy.stats import norm

from common import fx, unfx, rq, dec_list, close

REQUIRED = ['counts_of_rows', 'counts_of_completion', 'width_one', 'frechet_closed_form', 'bounds_valid',
            'bounds_sharp', 'binary_counts', 'contains_rd', 'contains_reported_rd',
            'frechet_counts_generated']
RULE = ('binary exposure: every 2x2 table with cells 0..B (B=6 quick, 8 thorough) and both groups non-empty, each with '
        'and without extra rows missing the exposure, the outcome or both (outcomes / exposures of the incomplete rows '
        'varied), rows shuffled, two codings of (index level, reference); every completion of the unobserved potential '
        'outcomes enumerated literally for n <= 10 (12 thorough) and by (u, v) count classes for all tables; random large '
        'tables (cells up to 5000) against the closed form; frames with 3-4 exposure levels for the model '
        'correspondence.  Every frame is built in one of 6 index kinds (default, reversed, repeated labels as after '
        'pd.concat, string ids, float, constant label) x 5 dtype kinds (float, int64, int8/uint8, bool outcome, object) '
        'and read after one of 4 call histories (fit; fit then summary(3) / summary(1) / summary(3) and summary(0)); one '
        'frame in five is shared: another RiskDifference is fitted first on a second exposure column (with its own '
        'missing values) of the same DataFrame object; the frame is snapshotted around all calls; any exception on a '
        'table with four positive cells is a failure.  distinct = distinct (table, missing pattern, coding, options); non-trivial = the fit reports bounds '
        '(all four cells positive) and the table is not symmetric (a != d or b != c) or has incomplete rows')
ASSUMPTIONS = ['pandas comparison semantics on a float column: NaN == x is False, NaN != x is True, notnull/dropna '
               'identify exactly the NaN rows (measured on every frame by an independent pure-python count)',
               'the sample of the property is the set of rows with exposure and outcome observed (n of the code)']

TOL = 1e-12   # the code does <= 6 float operations on numbers of magnitude <= 1 (error ~1e-16); attainable causal
#               risk differences are multiples of 1/n with n <= 3e4, so 1e-12 separates rounding from a wrong formula


def nanlist(xs):
    return [float('nan') if x is None else float(x) for x in xs]


INDEX_KINDS = ['default', 'shuffled', 'repeated', 'string', 'float', 'constant']
DTYPE_KINDS = ['float', 'int64', 'int8', 'bool_outcome', 'object']
HISTORIES = ['fit', 'fit+summary3', 'fit+summary1', 'fit+summary3+summary0']
DEFAULT_OPTS = {'index': 'default', 'dtype': 'float', 'history': 'fit', 'shared': False}


def make_index(kind, n):
    if kind == 'default':
        return None
    if kind == 'shuffled':
        return [n - i + 10 for i in range(n)]
    if kind == 'repeated':              # what pd.concat of two parts without ignore_index gives
        h = max(1, n // 2)
        return list(range(h)) + list(range(n - h))
    if kind == 'string':
        return ['id%03d' % (n - i) for i in range(n)]
    if kind == 'float':
        return [0.5 + 1.25 * i for i in range(n)]
    if kind == 'constant':
        return [3] * n
    raise KeyError(kind)


def build_df(e, y, opts):
    """the caller's frame: columns exp, dis (and exp0, a second exposure with its own missing values, when the
    frame is shared between two analyses); dtype / index kind as asked (dtype kinds other than float need complete data)"""
    complete = all(v is not None for v in e) and all(v is not None for v in y)
    dt = opts['dtype'] if complete else 'float'
    if dt == 'float':
        df = pd.DataFrame({'exp': nanlist(e), 'dis': nanlist(y)})
    elif dt == 'int64':
        df = pd.DataFrame({'exp': [int(v) for v in e], 'dis': [int(v) for v in y]})
    elif dt == 'int8':
        df = pd.DataFrame({'exp': np.array(e, dtype=np.int8), 'dis': np.array(y, dtype=np.uint8)})
    elif dt == 'bool_outcome':
        df = pd.DataFrame({'exp': np.array(e, dtype=np.int32), 'dis': np.array(y, dtype=np.bool_)})
    elif dt == 'object':
        df = pd.DataFrame({'exp': pd.Series([int(v) for v in e], dtype=object),
                           'dis': pd.Series([int(v) for v in y], dtype=object)})
    else:
        raise KeyError(dt)
    if opts['shared']:
        # another exposure column of the same frame, missing on rows where `exp` is observed (and vice versa)
        n = len(e)
        df['exp0'] = [float('nan') if (i % 3 == 1) else float(i % 2) for i in range(n)]
    idx = make_index(opts['index'], len(df))
    if idx is not None:
        df.index = idx
    return df, dt


def frame_snapshot(df):
    return (tuple(df.columns), tuple(map(repr, df.index)), tuple(str(t) for t in df.dtypes), df.shape,
            tuple(repr(df[c].tolist()) for c in df.columns))


def fit_impl(e, y, ref, opts=None):
    """run the real RiskDifference on the frame (e, y); None = missing.  opts: index / dtype kind, the history of
    calls made on the object before `results` is read, and whether the caller's frame was first used by another
    RiskDifference on another exposure column.  Every exception is reported (kind), none escapes."""
    import zepid
    opts = dict(DEFAULT_OPTS, **(opts or {}))
    df, dt = build_df(e, y, opts)
    before = frame_snapshot(df)
    first = None
    try:
        if opts['shared']:
            other = zepid.RiskDifference(reference=0)
            try:
                other.fit(df, exposure='exp0', outcome='dis')
                first = 'ok'
            except (ValueError, ZeroDivisionError) as ex:       # a zero cell in the other analysis: irrelevant here
                first = type(ex).__name__
        obj = zepid.RiskDifference(reference=ref)
        obj.fit(df, exposure='exp', outcome='dis')
        for step in opts['history'].split('+')[1:]:
            obj.summary(decimal=int(step[len('summary'):]))
    except Exception as ex:                                      # noqa: BLE001
        return {'status': 'err', 'kind': type(ex).__name__, 'msg': str(ex)[:120], 'dtype': dt,
                'frame_untouched': frame_snapshot(df) == before}
    out = {}
    for lab in obj.results.index:
        if not lab.startswith('Ref:'):
            r = obj.results.loc[lab]
            out[float(lab)] = (float(r['RiskDifference']), float(r['LowerBound']), float(r['UpperBound']))
    return {'status': 'ok', 'levels': out, 'n': int(obj.n), 'dtype': dt, 'first_analysis': first,
            'frame_untouched': frame_snapshot(df) == before}


def counts(e, y, lvl):
    """independent pure-python counts for index level lvl"""
    a = sum(1 for ei, yi in zip(e, y) if ei == lvl and yi == 1)
    b = sum(1 for ei, yi in zip(e, y) if ei == lvl and yi == 0)
    yo = sum(1 for ei, yi in zip(e, y) if ei is not None and ei != lvl and yi == 1)
    n = sum(1 for ei, yi in zip(e, y) if ei is not None and yi is not None)
    return a, b, yo, n


def enumerate_completions(e, y, lvl):
    """literal enumeration: every assignment of the unobserved potential outcome of every complete row.
    Returns (min, max) of the sample causal risk difference as exact Fractions and the number of completions."""
    rows = [(ei == lvl, int(yi)) for ei, yi in zip(e, y) if ei is not None and yi is not None]
    n = len(rows)
    A = np.array([r[0] for r in rows], dtype=bool)
    Y = np.array([r[1] for r in rows], dtype=np.int64)
    U = ((np.arange(2 ** n)[:, None] >> np.arange(n)[None, :]) & 1).astype(np.int64)   # all 2^n fillings
    Y1 = np.where(A[None, :], Y[None, :], U)      # consistency: exposed rows show Y(1)
    Y0 = np.where(A[None, :], U, Y[None, :])
    diff = Y1.sum(axis=1) - Y0.sum(axis=1)
    return Fraction(int(diff.min()), n), Fraction(int(diff.max()), n), 2 ** n


def enumerate_classes(a, b, yo, n):
    """all attainable values by count classes: u free events among the n-(a+b) rows outside the level, v among a+b"""
    u = np.arange(0, n - (a + b) + 1)[:, None]
    v = np.arange(0, a + b + 1)[None, :]
    diff = (a + u) - (yo + v)
    return Fraction(int(diff.min()), n), Fraction(int(diff.max()), n)


def enc_opt(xs, f):
    return ','.join('_' if x is None else f(x) for x in xs) or '[]'


def evaluate(chk, drv, rng, e, y, lvl, ref, tag, enum_limit, judge_binary=True, opts=None):
    """one frame, one (index level, reference): gates H, D, K.  Returns the list of failed predicates (for replay)."""
    failed = []

    def D(ok, what):
        chk.d(ok, what, case)
        if not ok:
            failed.append(what)

    def K(ok, what, extra=None):
        chk.k(ok, what, {'case': case, 'model': extra})
        if not ok:
            failed.append('K:' + what)

    opts = dict(DEFAULT_OPTS, **(opts or {}))
    res = fit_impl(e, y, ref, opts)
    a, b, yo, n = counts(e, y, lvl)
    c, d, _, _ = counts(e, y, ref)
    nmiss = sum(1 for ei, yi in zip(e, y) if ei is None or yi is None)
    case = {'tag': tag, 'e': list(e), 'y': list(y), 'lvl': lvl, 'ref': ref, 'opts': opts, 'impl': res,
            'counts': {'a': a, 'b': b, 'y_other': yo, 'n': n, 'c': c, 'd': d}}
    reported = res['status'] == 'ok' and float(lvl) in res['levels']
    nontriv = reported and (a != d or b != c or nmiss > 0)
    chk.case(None, (tag, a, b, c, d, yo, n, nmiss, lvl, ref, repr(sorted(opts.items()))) if nontriv else None,
             sample={k: v for k, v in case.items() if k not in ('e', 'y')} if (nontriv and chk.evals % 211 == 0) else None)
    # ---- H: pandas NaN semantics measured against the pure-python counts
    col = pd.Series(nanlist(e))
    yy = pd.Series(nanlist(y))
    h_ok = (int(((col != lvl) & col.notnull() & (yy == 1)).sum()) == yo and
            int(((col == lvl) & (yy == 1)).sum()) == a and
            int(pd.DataFrame({'e': col, 'y': yy}).dropna(subset=['e', 'y']).shape[0]) == n)
    chk.h_checked += 1
    if not h_ok:
        chk.discard('pandas NaN comparison semantics differ from the assumption')
        return failed
    for k in ('index', 'dtype', 'history'):
        chk.count('%s=%s' % (k, res.get('dtype') if k == 'dtype' else opts[k]))
    if opts['shared']:
        chk.count('shared_frame')
    # ---- D: the caller's frame is the data the bounds are about -- it must be the same after every call
    chk.d(res['frame_untouched'], "the caller's DataFrame is unchanged by fit / summary (values, index, dtypes, shape)", case)
    if not res['frame_untouched']:
        failed.append('frame changed')
    if not reported:
        zero_cell = min(a, b, c, d) == 0 if judge_binary else True
        if res['status'] == 'err' and not (zero_cell and res.get('kind') in ('ValueError', 'ZeroDivisionError')):
            # every cell positive (or an exception other than the count functions' rejection): valid input refused
            D(False, 'RiskDifference raised %s on a valid frame: %s' % (res.get('kind'), res.get('msg')))
        chk.count('not_reported_' + (res.get('kind') or 'level-absent'))
        if drv is not None and res['status'] == 'err' and a + b > 0 and c + d > 0:
            # the model of the fit must refuse the same frames (zero cell -> risk_difference raises)
            rep, line = drv.ask('frame', cls='RD', ref=int(ref), alpha=fx(0.05), px=fx(0.975), pz=fx(norm.ppf(0.975)),
                                e=enc_opt(e, lambda v: str(int(v))), d=enc_opt(y, lambda v: str(int(v))))
            K(rep['status'] == 'err', 'frame RD: model rejects what the fit rejects', rep)
        return failed
    chk.count('reported')
    rd, lo, hi = res['levels'][float(lvl)]
    # ---- D: width, validity + sharpness by enumeration, containment (binary exposure only)
    D(abs((hi - lo) - 1.0) <= TOL, 'UpperBound - LowerBound = 1')
    D(res['n'] == n, 'n = number of rows with exposure and outcome observed')
    if judge_binary:
        mn, mx = enumerate_classes(a, b, yo, n)
        D(lo <= float(mn) + TOL and float(mx) <= hi + TOL,
          'validity: every completion has LowerBound <= causal RD <= UpperBound (count classes)')
        D(abs(lo - float(mn)) <= TOL and abs(hi - float(mx)) <= TOL,
          'sharpness: min / max causal RD over completions equal LowerBound / UpperBound (count classes)')
        if n <= enum_limit:
            mn2, mx2, ncomp = enumerate_completions(e, y, lvl)
            chk.count('literal_completions', ncomp)
            D(lo <= float(mn2) + TOL and float(mx2) <= hi + TOL,
              'validity: every completion has LowerBound <= causal RD <= UpperBound (literal enumeration)')
            D(abs(lo - float(mn2)) <= TOL and abs(hi - float(mx2)) <= TOL,
              'sharpness: both bounds attained by a completion (literal enumeration)')
            D((mn2, mx2) == (mn, mx), 'harness self-check: literal and count-class enumeration agree')
        D(lo - TOL <= rd <= hi + TOL, 'LowerBound <= RiskDifference <= UpperBound')
        D(close(rd, float(Fraction(a, a + b) - Fraction(c, c + d)), rtol=1e-12, atol=1e-15),
          'RiskDifference = a/(a+b) - c/(c+d)')
    else:
        if not (lo - TOL <= rd <= hi + TOL):
            chk.count('multilevel_rd_outside_interval(outside the property)')
    # ---- K: model (exact Rat, and Float via the frame op) vs implementation
    if drv is not None:
        es, ds = enc_opt(e, lambda v: str(int(v))), enc_opt(y, lambda v: str(int(v)))
        rep, line = drv.ask('frechetq', e=es, d=ds, lvl=int(lvl))
        okq = rep['status'] == 'ok'
        if okq:
            ql, qu = Fraction(rep['lower']), Fraction(rep['upper'])
            okq = abs(float(ql) - lo) <= TOL and abs(float(qu) - hi) <= TOL
            if judge_binary:
                okq = okq and (ql, qu) == (Fraction(-(b + yo), n), Fraction(n - b - yo, n))
        K(okq, 'frechetq: exact model bounds vs LowerBound/UpperBound', rep)
        rep, line = drv.ask('frame', cls='RD', ref=int(ref), alpha=fx(0.05), px=fx(0.975), pz=fx(norm.ppf(0.975)),
                            e=es, d=ds)
        okf = rep['status'] == 'ok'
        if okf:
            lv = dec_list(rep['levels'], int)
            okf = int(lvl) in lv and int(rep['n']) == res['n']
            if okf:
                j = lv.index(int(lvl))
                okf = (close(unfx(dec_list(rep['frl'], str)[j]), lo, rtol=1e-13, atol=1e-15) and
                       close(unfx(dec_list(rep['fru'], str)[j]), hi, rtol=1e-13, atol=1e-15) and
                       close(unfx(dec_list(rep['point'], str)[j]), rd, rtol=1e-13, atol=1e-15))
        K(okf, 'frame RD (Float model): frl/fru/point vs implementation', rep)
        if judge_binary and n <= 400:
            # specification side: the Lean causalRD of a random completion equals the python value
            comp = [(ei == lvl, int(yi)) for ei, yi in zip(e, y) if ei is not None and yi is not None]
            u = [int(v) for v in rng.integers(0, 2, size=len(comp))]
            s1 = sum(yi if ai else ui for (ai, yi), ui in zip(comp, u))
            s0 = sum(ui if ai else yi for (ai, yi), ui in zip(comp, u))
            rep, line = drv.ask('crd', e=es, d=ds, lvl=int(lvl), u=','.join(map(str, u)))
            oks = (rep['status'] == 'ok' and rep['completion'] == '1' and int(rep['n']) == n and
                   Fraction(rep['rd']) == Fraction(s1 - s0, n) and
                   Fraction(rep['attainlo']) == Fraction(rep['lower']) and
                   Fraction(rep['attainhi']) == Fraction(rep['upper']) and
                   Fraction(rep['lower']) <= Fraction(rep['rd']) <= Fraction(rep['upper']))
            K(oks, 'crd: Lean causalRD of a random completion = python value; extreme completions attain the model '
                   'bounds', rep)
    return failed


def build_frame(rng, a, b, c, d, lvl, ref, miss):
    """rows of the 2x2 table plus incomplete rows; miss = (missing exposure, missing outcome, missing both)"""
    e = [lvl] * (a + b) + [ref] * (c + d)
    y = [1] * a + [0] * b + [1] * c + [0] * d
    me, md, med = miss
    for k in range(me):
        e.append(None)
        y.append(1 if k % 2 == 0 else 0)        # events among rows with unknown exposure must not be counted
    for k in range(md):
        e.append(lvl if k % 2 == 0 else ref)
        y.append(None)
    for k in range(med):
        e.append(None)
        y.append(None)
    perm = rng.permutation(len(e))
    return [e[i] for i in perm], [y[i] for i in perm]


def gen_multi(rng):
    nlev = int(rng.integers(3, 5))
    pool = [0, 1, 2, 3, 5, 8, 9, 16, 17, 33]
    levels = sorted(int(v) for v in rng.choice(pool, size=nlev, replace=False))
    n = int(rng.integers(30, 120))
    e = [int(v) for v in rng.choice(levels, size=n)]
    risk = {l: float(rng.uniform(0.2, 0.8)) for l in levels}
    y = [int(rng.uniform() < risk[l]) for l in e]
    pm = float(rng.choice([0.0, 0.1, 0.25]))
    e = [None if rng.uniform() < pm else v for v in e]
    y = [None if rng.uniform() < pm else v for v in y]
    return e, y, levels


def random_opts(rng):
    return {'index': INDEX_KINDS[int(rng.integers(0, len(INDEX_KINDS)))],
            'dtype': DTYPE_KINDS[int(rng.integers(0, len(DTYPE_KINDS)))],
            'history': HISTORIES[int(rng.integers(0, len(HISTORIES)))], 'shared': bool(rng.uniform() < 0.25)}


def run(chk, drv, rng, tier):
    B = 6 if tier == 'quick' else 8
    enum_limit = 10 if tier == 'quick' else 12
    codings = [(1, 0), (2, 5)]          # (index level, reference); the second has the reference coded larger
    patterns = [(0, 0, 0), (2, 1, 1), (1, 2, 0)]
    k = 0
    for a, b, c, d in itertools.product(range(0, B + 1), repeat=4):
        if a + b == 0 or c + d == 0:
            continue
        for miss in (patterns if tier == 'thorough' else [patterns[0], patterns[1 + (a + b + c + d) % 2]]):
            lvl, ref = codings[k % 2]
            k += 1
            e, y = build_frame(rng, a, b, c, d, lvl, ref, miss)
            opts = {'index': INDEX_KINDS[k % len(INDEX_KINDS)], 'dtype': DTYPE_KINDS[(k // 2) % len(DTYPE_KINDS)],
                    'history': HISTORIES[(k // 3) % len(HISTORIES)], 'shared': k % 5 == 0}
            evaluate(chk, drv, rng, e, y, lvl, ref, 'table', enum_limit, opts=opts)
    chk.extra['exhaustive'] = False
    chk.extra['exhaustive_tables_cells_up_to'] = B
    # random large tables
    for _ in range(150 if tier == 'quick' else 1500):
        a, b, c, d = (int(v) for v in rng.integers(1, 5000 if rng.uniform() < 0.5 else 60, size=4))
        miss = tuple(int(v) for v in rng.integers(0, 40, size=3)) if rng.uniform() < 0.7 else (0, 0, 0)
        lvl, ref = codings[int(rng.integers(0, 2))]
        e, y = build_frame(rng, a, b, c, d, lvl, ref, miss)
        evaluate(chk, drv, rng, e, y, lvl, ref, 'large', enum_limit, opts=random_opts(rng))
    # exposure with 3-4 levels: correspondence of the model with the code (pooled comparison group) and width only;
    # validity against the reference level is outside the property (binary exposure)
    for _ in range(40 if tier == 'quick' else 300):
        e, y, levels = gen_multi(rng)
        present = sorted({v for v in e if v is not None})
        ref = present[int(rng.integers(0, len(present)))]
        for lvl in present:
            if lvl != ref:
                evaluate(chk, drv, rng, e, y, lvl, ref, 'multi', enum_limit, judge_binary=False, opts=random_opts(rng))


def replay(rec):
    """re-run the stored failing frames on the real code and print what the predicates say now"""
    import common
    drv = common.Driver() if __import__('os').path.exists(common.DRIVER) else None
    bad = 0
    for f in rec.get('failures', []) + rec.get('k_failures', []):
        case = f.get('case') or {}
        case = case.get('case', case)
        if not case or 'e' not in case:
            print('no frame stored for:', f.get('what'))
            continue
        chk = common.Check('C19', 'replay', 0)
        with common.quiet():
            failed = evaluate(chk, drv, np.random.default_rng(0), case['e'], case['y'], case['lvl'], case['ref'],
                              case.get('tag', 'replay'), 12, judge_binary=case.get('tag') != 'multi',
                              opts=case.get('opts'))
        print('counts', case.get('counts'), 'lvl', case['lvl'], 'ref', case['ref'])
        print('  implementation now:', fit_impl(case['e'], case['y'], case['ref'], case.get('opts')))
        print('  failed predicates :', failed or 'none')
        bad += bool(failed)
    if drv is not None:
        drv.close()
    return 1 if bad else 0
