"""C15 -- g-estimation of structural nested mean models returns the root of its estimating equations."""
import itertools
import math
import re
from fractions import Fraction

import numpy as np
import pandas as pd

from common import rq, unrq, enc_list, dec_list, close

REQUIRED = ['lhm_linear', 'closed_form_root', 'root_solves', 'cramer_solves', 'closed_form_is_root',
            'closed_form_none_iff', 'root_unique', 'root_unique_general', 'one_param_saturated',
            # Props/C15_Gen.lean: the code regenerated from g_estimation.py is the model, and the property for it
            'snm_closed_lhm_generated', 'snm_closed_rha_generated', 'snm_fit_weight_col_generated',
            'snm_fit_closed_generated', 'snm_fit_closed_cramer', 'snm_fit_closed_root', 'snm_fit_closed_unique',
            'snm_search_hpsi_generated', 'snm_search_objective_zero_iff', 'snm_search_zero_is_closed_form',
            # round 4: the H(psi) terms of the search solver (term rewriting), reporting methods are observers
            'hterm_column', 'hterm_keeps_other_names', 'hterm_position_free', 'snm_reporting_methods_observe']
RULE = ('every cell of outcome type {continuous, binary} x SNM {A, A + A:V, A + A:V + A:W} x weights {none, column} x '
        'missing outcome {none, dropped (no model), missing_model stabilized, missing_model unstabilized} gets fresh '
        'random data sets (n 80-260, binary/3-level/continuous covariates, random exposure model, shuffled or '
        'shifted index, sometimes missing covariates); plus a saturated stream (categorical covariates, saturated '
        'exposure model, one-parameter SNM), a search-solver stream and a singular stream. distinct = distinct '
        '(cell, data hash); non-trivial = both exposure arms present in every level of every effect modifier and '
        '|psi| > 1e-6')
ASSUMPTIONS = ['statsmodels GLM (Binomial, optional freq_weights) returns fitted values satisfying its score equations '
               '(measured on the harness\'s own reference fit, |sum w x (A - pi)| <= 1e-7 * sum w)',
               'np.linalg.solve returns the solution of the linear system (cases with cond(lhm) > 1e6 are discarded)',
               'scipy Nelder-Mead returns an approximate minimiser: the search solver is judged only when the '
               'optimiser reports success with objective sum|alpha| <= 1e-6 (it stalls on the non-smooth objective '
               'for some 3-parameter models; those runs are counted as discards, not excused silently)']

SNMS = {1: 'A', 2: 'A + A:V', 3: 'A + A:V + A:W'}
EXPO = ['V + W + L', 'V + L', 'L + Z', 'V + W + L + Z', 'V + W + Z']
MISS = ['none', 'dropped', 'model_stab', 'model_unstab']
HISTORIES = ['snm_before', 'refit', 'exposure_before', 'search_before']
# How the caller's columns are NAMED (round 4).  The check works with the canonical names A (exposure), Y (outcome),
# V W L Z (covariates), wt (weights); `run_impl` renames the columns and rewrites every model string token by token
# before it calls zEpid, and maps the reported psi labels back.  Families: names that contain one another -- the
# exposure's name inside modifier / outcome / weight names (prefix, suffix, infix), a modifier's name inside the
# exposure's name, two modifiers one inside the other -- which is what any text-level handling of model terms (the
# H(psi) terms of the search solver; /repo 567fd2d) trips over.
NAMESETS = {
    'canonical': {},
    'exposure_inside_modifiers': {'V': 'AV', 'W': 'WA', 'L': 'LAL', 'Z': 'A_Z', 'Y': 'YA', 'wt': 'wA'},
    'art_start': {'A': 'art', 'V': 'start', 'W': 'art2', 'L': 'part', 'Y': 'dead'},
    'modifier_inside_exposure': {'A': 'VW', 'Z': 'VWZ', 'Y': 'Y_VW'},
    'nested_modifiers': {'A': 'trt', 'V': 'W1', 'W': 'W', 'L': 'W12', 'Y': 'out', 'wt': 'W_'},
}
TOKEN = re.compile(r'[A-Za-z_][A-Za-z_0-9]*')
PATSY_WORDS = {'C', 'center', 'standardize', 'I'}
SUMMARY_DECIMALS = [0, 1, 2, 3, 4, 6]


def rename_tokens(text, mapping):
    """rewrite the column names of a patsy model string token by token (function names are left alone)"""
    if text is None or not mapping:
        return text
    return TOKEN.sub(lambda m: m.group(0) if m.group(0) in PATSY_WORDS else mapping.get(m.group(0), m.group(0)), text)


def respell(snm, mode):
    """the same structural nested model with every product written treatment-first / modifier-first"""
    out = []
    for t in snm.split(' + '):
        fs = [f.strip() for f in t.split(':')]
        if len(fs) == 2 and mode in ('treatment_first', 'modifier_first'):
            m = [f for f in fs if f != 'A'][0]
            fs = ['A', m] if mode == 'treatment_first' else [m, 'A']
        out.append(':'.join(fs))
    return ' + '.join(out)


def make_snm(rng, p, variant):
    """how the structural nested model is *written*: variant 0 = product terms first / factors swapped, plain
    modifiers; 1 = canonical order, stateful patsy transforms (center / standardize are memorised on the rows the
    design is built from); 2 = random modifiers, random order.  psi is always judged by label."""
    if p == 1:
        return 'A'
    if variant == 0:
        mods = ['V', 'W'][:p - 1]
    elif variant == 1:
        mods = ['center(V)', 'standardize(W)'][:p - 1]
    else:
        mods = [str(rng.choice(['V', 'center(V)'])), str(rng.choice(['W', 'standardize(W)', 'center(L)']))][:p - 1]
    swap = variant != 1
    terms = ['A'] + [('%s:A' % m) if (swap and rng.uniform() < 0.3) else ('A:%s' % m) for m in mods]
    if variant == 0:
        terms = terms[::-1]
    elif variant == 2:
        terms = [terms[i] for i in rng.permutation(len(terms))]
    return ' + '.join(terms)


def term_key(label):
    return frozenset(f.strip() for f in label.split(':'))


def label_column(cc, label):
    """the effect-modifier column V_j named by a psi label, computed on the analysed rows `cc`"""
    fs = [f.strip() for f in label.split(':') if f.strip() != 'A']
    if not fs:
        return np.ones(len(cc))
    if len(fs) != 1:
        raise ValueError('unexpected psi label %r' % label)
    m = re.fullmatch(r'(center|standardize)\((\w+)\)', fs[0])
    if m:
        x = cc[m.group(2)].values.astype(float)
        x = x - x.mean()
        return x / x.std(ddof=0) if m.group(1) == 'standardize' else x
    return cc[fs[0]].values.astype(float)


def expit(x):
    return 1 / (1 + np.exp(-x))


def gen_data(rng, ytype, missing, saturated=False, force_n=None, degenerate=None):
    n = int(force_n or rng.integers(80, 260))
    V = rng.integers(0, 2, n).astype(float)
    W = rng.integers(0, 3, n).astype(float)
    Z = rng.integers(0, 2, n).astype(float)
    L = np.round(rng.normal(size=n), 3)
    if saturated:
        lin = -0.2 + 0.7 * V - 0.4 * W + 0.5 * Z
    else:
        lin = -0.3 + 0.6 * V - 0.25 * W + 0.5 * L + 0.3 * Z
    A = (rng.uniform(size=n) < expit(lin)).astype(float)
    b = rng.normal(size=4)
    if ytype == 'continuous':
        Y = np.round(1 + b[0] * 2 * A + b[1] * A * V + b[2] * A * W + 0.8 * L + 0.5 * Z + rng.normal(size=n), 4)
    else:
        Y = (rng.uniform(size=n) < expit(-0.5 + b[0] * A + 0.5 * b[1] * A * V + 0.3 * b[2] * A * W + 0.6 * L)
             ).astype(float)
    wt = rng.integers(1, 5, n).astype(float) if rng.uniform() < 0.5 else np.round(rng.uniform(0.5, 3.0, n), 2)
    df = pd.DataFrame({'A': A, 'Y': Y, 'V': V, 'W': W, 'L': L, 'Z': Z, 'wt': wt})
    # ill-scaled modifiers (calendar year, age in days): large uncentred values, tiny relative spread
    df['yr'] = 2005.0 + rng.integers(-4, 5, n)
    df['days'] = np.round(15000 + 2000 * rng.normal(size=n))
    if degenerate:
        # a rare covariate level (W = 3) in which everybody / nobody is treated, with outcomes unlike the rest:
        # its fitted Pr(A=1|L) is 0 or 1, so its rows drop out of the estimating equations
        k = int(rng.integers(1, 5))
        ex = df.iloc[rng.integers(0, n, k)].copy()
        ex['W'] = 3.0
        ex['A'] = 1.0 if degenerate == 'treated' else 0.0
        ex['Y'] = (ex['Y'] + 4.0) if ytype == 'continuous' else 1.0
        df = pd.concat([df, ex], ignore_index=True).iloc[rng.permutation(n + k)].reset_index(drop=True)
        n = n + k
        A = df['A'].values
        L = df['L'].values
        V = df['V'].values
    if rng.uniform() < 0.2:      # an unused column with missing values: those rows are dropped as documented
        df['junk'] = np.where(rng.uniform(size=n) < 0.03, np.nan, 1.0)
    if missing != 'none':
        pm = expit(-1.8 + 0.6 * A + 0.5 * (L if not saturated else V))
        df.loc[rng.uniform(size=n) < pm, 'Y'] = np.nan
        if df['Y'].isna().sum() == 0:
            df.loc[df.index[0], 'Y'] = np.nan
    if rng.uniform() < 0.3:      # missing covariates: those rows are dropped by the estimator
        df.loc[rng.uniform(size=n) < 0.04, 'L' if not saturated else 'Z'] = np.nan
    # container variance: fixed-width integer columns for exposure / modifiers, permuted / shifted / string index
    kind = int(rng.integers(0, 4))
    if kind:
        for c in ('A', 'V', 'W'):
            df[c] = df[c].astype(['int64', 'int32', 'int8'][kind - 1])
    mode = rng.integers(0, 4)
    if mode == 1:
        df.index = rng.permutation(n)
    elif mode == 2:
        df.index = np.arange(n) + int(rng.integers(5, 500))
    elif mode == 3:
        df.index = ['id%04d' % i for i in rng.permutation(n)]
    return df


def glm_fit(formula, data, w=None):
    import statsmodels.api as sm
    import statsmodels.formula.api as smf
    fam = sm.families.family.Binomial()
    if w is None:
        return smf.glm(formula, data, family=fam).fit()
    return smf.glm(formula, data, freq_weights=w, family=fam).fit()


def reference(chk, df, expo, weights, missing, miss_den, ipmw_in_use=None):
    """the documented pipeline re-done by the harness with its own GLM calls.
    `ipmw_in_use`: the missing-outcome weights the estimator reports (public attribute `ipmw`); when given, the
    exposure model and the estimating equations are weighted by *those* (the property is about the root, not about
    the IPMW recipe; the recipe is compared separately in the nuisance layer of K against `ipmw_ref`).
    Returns dict(cc=complete frame, w=weights multiplied into diff, pi=fitted values, ipmw_ref=..., h_ok=bool)"""
    import patsy
    d0 = df.dropna(subset=[c for c in df.columns if c != 'Y']).reset_index(drop=True)
    M = d0['Y'].notna().astype(int)
    ipmw = None
    if missing in ('model_stab', 'model_unstab'):
        dd = d0.copy()
        dd['M_'] = M
        den = glm_fit('M_ ~ ' + miss_den, dd, w=dd['wt'] if weights else None).predict(dd)
        if missing == 'model_stab':
            num = glm_fit('M_ ~ A', dd, w=dd['wt'] if weights else None).predict(dd)
        else:
            num = 1
        ipmw = np.where(M == 1, num / den, np.nan)
    ipmw_ref = ipmw
    if ipmw is not None and ipmw_in_use is not None and np.shape(ipmw_in_use) == np.shape(ipmw) and \
            bool(np.all(np.isfinite(np.asarray(ipmw_in_use, dtype=float)[M.values == 1]))):
        ipmw = np.asarray(ipmw_in_use, dtype=float)
    cc = d0.loc[M == 1].copy()
    if ipmw is not None:
        w = ipmw[M.values == 1] * (cc['wt'].values if weights else 1.0)
    elif weights:
        w = cc['wt'].values.astype(float)
    else:
        w = None
    fm = glm_fit('A ~ ' + expo, cc, w=w)
    pi = np.asarray(fm.predict(cc), dtype=float)
    # gate H: score equations of the reference fit
    X = np.asarray(patsy.dmatrix(expo, cc))
    ww = np.ones(len(cc)) if w is None else w
    score = X.T @ (ww * (cc['A'].values - pi))
    # fitted probabilities numerically 0 / 1 (a stratum with everybody or nobody treated) are legitimate: those rows
    # have A - pi = 0 and drop out; the score equations still hold
    h_ok = bool(fm.converged) and float(np.max(np.abs(score))) <= 1e-7 * float(np.sum(ww))
    chk.h_checked += 1
    return {'cc': cc, 'w': np.ones(len(cc)) if w is None else np.asarray(w, dtype=float), 'pi': pi,
            'ipmw': ipmw_ref, 'h_ok': h_ok, 'weighted': w is not None,
            # the two factors of `w` as GEstimationSNM.fit sees them (the generated fit chooses / multiplies them itself)
            'uw': cc['wt'].values.astype(float) if weights else np.ones(len(cc)),
            'im': np.asarray(ipmw[M.values == 1], dtype=float) if ipmw is not None else np.ones(len(cc)),
            'hasw': bool(weights), 'hasim': ipmw is not None}


def run_impl(df, expo, p, weights, missing, miss_den, solver='closed', snm=None, history='auto', names='auto',
             observe='auto', **kw):
    """history: what happened to the object before the judged fit (a result must depend on the last specification
    only): 'snm_before:<q>' fitted with another structural model, 'refit' fitted twice, 'exposure_before' fitted with
    another exposure model, 'search_before' a (truncated) search fit first, 'fit_then_missing_model' fitted, then the
    missing-outcome model specified, then fitted again; 'auto' draws one of them in about half of the cases.
    names: a key of NAMESETS (how the caller's columns are named; 'auto' draws a non-canonical set in 4 of 10 cases).
    observe: reporting methods called between the judged fit() and reading psi / psi_labels, a list of
    [method, kwargs] ('auto' draws summary(decimal=k) in half of the cases).  The object returned carries
    `_verif_psi`, `_verif_labels` (canonical names) read AFTER the reporting calls, and `_verif_psi_at_fit`,
    `_verif_labels_at_fit` read straight after fit()."""
    import warnings
    warnings.simplefilter('ignore')     # statsmodels re-arms PerfectSeparationWarning inside the search loop
    snm = snm or SNMS[p]
    mm = missing in ('model_stab', 'model_unstab')
    hr = getattr(run_impl, 'rng', None)
    if history == 'auto':
        history = None
        if hr is not None and hr.uniform() < 0.5:
            history = str(hr.choice(HISTORIES + (['fit_then_missing_model'] * 3 if mm else [])))
            if history == 'snm_before':
                history += ':%d' % int(hr.choice([q for q in SNMS if q != p]))
    if names == 'auto':
        names = 'canonical'
        if hr is not None and hr.uniform() < 0.4:
            names = str(hr.choice([k for k in NAMESETS if k != 'canonical']))
    if observe == 'auto':
        observe = None
        if hr is not None and hr.uniform() < 0.5:
            observe = [['summary', {'decimal': int(hr.choice(SUMMARY_DECIMALS))} if hr.uniform() < 0.8 else {}]]
    conv = kw.pop('conv', 'auto')
    if conv == 'auto':
        conv = 'positional' if (hr is not None and hr.uniform() < 0.3) else 'keyword'
    drawn = {'history': history, 'names': names or 'canonical', 'observe': observe, 'conv': conv or 'keyword'}
    try:
        return _run_impl(df, expo, p, weights, missing, miss_den, solver, snm, mm, drawn, kw)
    except Exception as e:       # noqa: BLE001  -- the drawn history / names / reporting calls go with it
        e._verif_drawn = drawn
        raise


def _run_impl(df, expo, p, weights, missing, miss_den, solver, snm, mm, drawn, kw):      # noqa: C901
    from zepid.causal.snm import GEstimationSNM
    import contextlib
    import io
    history, names, observe = drawn['history'], drawn['names'], drawn['observe']
    pos = drawn.get('conv') == 'positional'
    nm = NAMESETS[names or 'canonical']
    back = {v: k for k, v in nm.items()}

    def r(text):
        return rename_tokens(text, nm)
    # call convention (round 4): by keyword, or every argument POSITIONALLY in the documented order
    #   GEstimationSNM(df, exposure, outcome, weights=None); exposure_model(model, print_results=True);
    #   missing_model(model_denominator, model_numerator=None, stabilized=True, bound=False, print_results=True);
    #   fit(solver='closed', starting_value=None, alpha_value=0, tolerance=1e-7, verbose_solver=False, maxiter=500)
    if pos:
        g = GEstimationSNM(df.rename(columns=nm), r('A'), r('Y'), r('wt') if weights else None)
        g.exposure_model(r(expo), False)
    else:
        g = GEstimationSNM(df.rename(columns=nm), exposure=r('A'), outcome=r('Y'), weights=r('wt') if weights else None)
        g.exposure_model(r(expo), print_results=False)
    g.structural_nested_model(r(snm))

    def miss():
        if pos:
            g.missing_model(r(miss_den), None, missing == 'model_stab', False, False)
        else:
            g.missing_model(r(miss_den), stabilized=(missing == 'model_stab'), print_results=False)

    def final_fit():
        if pos:
            g.fit(solver, kw.get('starting_value'), 0, 1e-7, False, kw.get('maxiter', 500))
        else:
            g.fit(solver=solver, **kw)
    if history == 'fit_then_missing_model':
        g.fit(solver='closed')
        miss()
    else:
        if mm:
            miss()
        if history and history.startswith('snm_before'):
            g.structural_nested_model(r(SNMS[int(history.split(':')[1])]))
            g.fit(solver='closed')
            g.structural_nested_model(r(snm))
        elif history == 'refit':
            g.fit(solver='closed')
        elif history == 'exposure_before':
            g.exposure_model(r('W'), print_results=False)
            g.fit(solver='closed')
            g.exposure_model(r(expo), print_results=False)
        elif history == 'search_before':
            g.fit(solver='search', maxiter=2)
    g._verif_history = history
    g._verif_names = names or 'canonical'
    g._verif_observe = observe
    g._verif_conv = drawn.get('conv', 'keyword')
    final_fit()
    g._verif_psi_at_fit = np.array(g.psi, dtype=float, copy=True)
    g._verif_labels_at_fit = [rename_tokens(str(x), back) for x in g.psi_labels]
    g._verif_observe_raised = []
    for meth, kwargs in (observe or []):
        with contextlib.redirect_stdout(io.StringIO()):
            try:
                getattr(g, meth)(**kwargs)
            except Exception as e:       # noqa: BLE001
                # a report that cannot be printed says nothing about psi (the property's subject): recorded and counted
                # (`reporting_call_raised` in the evidence), and the results are read after the failed call all the same
                g._verif_observe_raised.append('%s() after fit(solver=%r): %s: %s'
                                               % (meth, solver, type(e).__name__, str(e).split('\n')[0]))
    g._verif_psi = np.array(g.psi, dtype=float, copy=True)
    g._verif_labels = [rename_tokens(str(x), back) for x in g.psi_labels]
    return g


def observer_d(chk, g, case):
    """D: a reporting method called between fit() and reading the results leaves the reported psi and psi_labels
    exactly as fit() reported them (bit for bit: a report has nothing to compute on them)"""
    if not g._verif_observe:
        return
    ok = g._verif_labels == g._verif_labels_at_fit and g._verif_psi.shape == g._verif_psi_at_fit.shape and \
        bool(np.array_equal(g._verif_psi, g._verif_psi_at_fit, equal_nan=True))
    for msg in g._verif_observe_raised:
        chk.count('reporting_call_raised')
        chk.extra.setdefault('reporting_call_raised', [])
        if msg not in chk.extra['reporting_call_raised']:
            chk.extra['reporting_call_raised'].append(msg)
    chk.count('observe:' + '+'.join('%s(%s)' % (m, ','.join('%s=%s' % kv for kv in sorted(k.items())))
                                    for m, k in g._verif_observe))
    chk.d(ok, 'psi / psi_labels read after the reporting calls %s = psi / psi_labels as fit() reported them (exact)'
          % ', '.join(m + '()' for m, _ in g._verif_observe),
          dict(case, psi_at_fit=[float(x) for x in g._verif_psi_at_fit],
               psi_after_reporting=[float(x) for x in g._verif_psi]))


def design(cc, labels):
    """design rows V_i in the order of the reported psi labels (an int p means the canonical A, A:V, A:W)"""
    if isinstance(labels, int):
        labels = ['A', 'A:V', 'A:W'][:labels]
    return np.column_stack([label_column(cc, lab) for lab in labels])


def exact_esteq(a, y, pi, w, Vm, psi, w2=None):
    """exact E_j(psi) and the scale  sum_i |d_i v_ij| (|y_i| + sum_k |psi_k a_i v_ik|)  (Fractions); the weight of
    row i is w[i] (* w2[i], multiplied exactly, when the weight is given as its two factors)"""
    n, p = Vm.shape
    F = Fraction
    psi = [F(float(x)) for x in psi]
    E = [F(0)] * p
    S = [F(0)] * p
    for i in range(n):
        d = (F(float(a[i])) - F(float(pi[i]))) * F(float(w[i])) * (F(1) if w2 is None else F(float(w2[i])))
        v = [F(float(x)) for x in Vm[i]]
        ai = F(float(a[i]))
        lin = sum(ps * ai * vk for ps, vk in zip(psi, v))
        alin = sum(abs(ps * ai * vk) for ps, vk in zip(psi, v))
        h = F(float(y[i])) - lin
        for j in range(p):
            E[j] += d * v[j] * h
            S[j] += abs(d * v[j]) * (abs(F(float(y[i]))) + alin)
    return E, S


def driver_args(a, y, pi, ref, Vm, sel=None):
    """the inputs of `GEstimationSNM.fit` as the regenerated code takes them: exposure, outcome, reference fitted
    values, the user's weight column and the missing-outcome weights *separately* with the two flags (which of them
    exist) -- the generated weight-column lines choose and multiply them"""
    uw, im = (ref['uw'], ref['im']) if sel is None else (ref['uw'][sel], ref['im'][sel])
    return dict(p=Vm.shape[1], a=enc_list(a, rq), y=enc_list(y, rq), pi=enc_list(pi, rq), uw=enc_list(uw, rq),
                ipmw=enc_list(im, rq), hasw=int(ref['hasw']), hasipmw=int(ref['hasim']),
                v=enc_list(Vm.reshape(-1), rq))


def frame_record(df):
    return {'index': [i if isinstance(i, str) else int(i) for i in df.index],
            'dtypes': {c: str(df[c].dtype) for c in df.columns},
            'columns': {c: [None if (isinstance(x, float) and math.isnan(x)) else float(x) for x in df[c]]
                        for c in df.columns}}


def frame_from_record(rec):
    df = pd.DataFrame({c: [np.nan if x is None else x for x in v] for c, v in rec['columns'].items()},
                      index=rec['index'])
    for c, t in rec.get('dtypes', {}).items():
        df[c] = df[c].astype(t)
    return df


def check_closed(chk, drv, df, ytype, p, weights, missing, expo, miss_den, seedinfo, snm=None, history='auto',
                 names='auto', observe='auto', conv='auto'):
    snm = snm or SNMS[p]
    cell = (ytype, p, bool(weights), missing)
    case = {'kind': 'closed', 'ytype': ytype, 'snm': snm, 'weights': bool(weights), 'missing': missing,
            'exposure_model': expo, 'missing_model': miss_den, 'n': len(df), 'data': frame_record(df),
            'seedinfo': seedinfo}
    try:
        g = run_impl(df, expo, p, weights, missing, miss_den, snm=snm, history=history, names=names, observe=observe,
                     conv=conv)
        psi = g._verif_psi                  # read after the reporting calls (if any), labels in canonical names
        labels = g._verif_labels
        case['history'] = g._verif_history
        case['names'] = g._verif_names
        case['observe'] = g._verif_observe
        case['conv'] = g._verif_conv
        err = None
    except Exception as e:       # noqa: BLE001  -- any exception on valid input is a finding
        psi, err, g, labels = None, '%s: %s' % (type(e).__name__, e), None, None
        case.update(getattr(e, '_verif_drawn', {}))
    want_keys = sorted(map(sorted, (term_key(t) for t in snm.split(' + '))))
    if err is None and not (len(psi) == p and sorted(map(sorted, map(term_key, labels))) == want_keys):
        chk.case(case)
        chk.d(False, 'psi_labels name exactly the terms of the SNM, one psi each', dict(case, psi_labels=labels))
        return None
    ref = reference(chk, df, expo, weights, missing, miss_den, ipmw_in_use=None if g is None else g.ipmw)
    if not ref['h_ok']:
        chk.discard('reference exposure-model fit failed its score equations / separation')
        return None
    cc = ref['cc']
    Vm = design(cc, labels if labels is not None else p)
    case['psi_labels'] = labels
    a, y, pi, w = cc['A'].values.astype(float), cc['Y'].values.astype(float), ref['pi'], ref['w']
    d = (a - pi) * w
    Sf = (Vm * (a * d)[:, None]).T @ (Vm * a[:, None])
    cond = np.linalg.cond(Sf) if np.all(np.isfinite(Sf)) else np.inf
    # an ill-conditioned lhm (ill-scaled modifier) only loosens the *forward* comparison of psi in K; the property's
    # own predicate, the residual of the estimating equations relative to its scale, is what a backward-stable solve
    # keeps at rounding level whatever the conditioning, and is judged always
    if not np.isfinite(cond):
        chk.discard('lhm not finite')
        return None
    case['cond_lhm'] = float(cond)
    chk.count('cond_lhm:%s' % ('<1e6' if cond < 1e6 else '1e6-1e10' if cond < 1e10 else '>1e10'))
    case['impl_psi'] = None if psi is None else [float(x) for x in psi]
    case['impl_error'] = err
    arms_ok = all(len(set(cc.loc[cc[m] == lv, 'A'])) == 2 for m in ['V', 'W'] if ('A:%s' % m) in (labels or [])
                  for lv in set(cc[m]))
    nontriv = psi is not None and arms_ok and float(np.max(np.abs(psi))) > 1e-6
    chk.case(case, (cell, hash(df.to_csv())) if nontriv else None,
             sample={k: v for k, v in case.items() if k != 'data'} if chk.evals % 23 == 0 else None)
    chk.count('cell:%s/%s/%s/%s' % (ytype, SNMS[p].replace(' ', ''), 'w' if weights else 'nw', missing))
    chk.count('snm_written:' + snm.replace(' ', ''))
    chk.count('history:%s' % (case.get('history') or 'fresh').split(':')[0])
    chk.count('names:%s' % (case.get('names') or 'canonical'))
    chk.count('call_convention:%s' % (case.get('conv') or 'keyword'))
    chk.d(err is None, 'GEstimationSNM.fit(closed) runs on valid input', case)
    if err is not None:
        return None
    observer_d(chk, g, case)
    # ---- D: history independence -- the same specification on a fresh object gives the same psi (by label)
    if case.get('history'):
        try:
            g2 = run_impl(df, expo, p, weights, missing, miss_den, snm=snm, history=None, names=case['names'],
                          observe=None, conv='keyword')
            fresh = dict(zip(g2._verif_labels, g2._verif_psi))
            ok = set(fresh) == set(labels) and all(close(fresh[l], q, rtol=1e-9, atol=1e-11)
                                                    for l, q in zip(labels, psi))
            case['fresh_psi'] = {k: float(v) for k, v in fresh.items()}
        except Exception as e:       # noqa: BLE001
            ok = False
            case['fresh_error'] = repr(e)
        chk.d(ok, 'psi after a history of earlier fits / respecifications = psi of a fresh object with the last '
              'specification', case)
    # ---- K nuisance layer: the weights zEpid built are the documented ones
    if ref['ipmw'] is not None:
        gi = np.asarray(g.ipmw, dtype=float)
        ok = gi.shape == ref['ipmw'].shape and bool(np.all(np.isnan(gi) == np.isnan(ref['ipmw']))) and \
            bool(np.allclose(gi[~np.isnan(gi)], ref['ipmw'][~np.isnan(gi)], rtol=1e-9, atol=0))
        chk.k(ok, 'missing-outcome weights = reference IPMW (num/den, NaN where the outcome is missing)', case)
    # ---- D: exact residual of the estimating equations at the reported psi
    E, S = exact_esteq(a, y, pi, w, Vm, psi)
    rel = [abs(float(e)) / max(float(s), 1e-300) for e, s in zip(E, S)]
    case['esteq_rel_residual'] = rel
    # 1e-8: float solve + summation error is <= ~1e-13 * scale (backward stability); a dropped weight / wrong column
    # gives O(1e-2)
    chk.d(max(rel) <= 1e-8, 'sum w (A - pi) V_j H(psi) = 0 at the reported psi (exact rational residual <= 1e-8*scale)',
          case)
    # ---- K: exact model (Rat) fed the reference fitted values vs reported psi; estimating function values
    if drv is not None:
        # the code regenerated from GEstimationSNM.fit / _closed_form_solver_ (Gen/Snm.lean) run on the same inputs:
        # exposure, outcome, reference fitted values, the two weight factors and which of them exist
        kw = driver_args(a, y, pi, ref, Vm)
        rep, _ = drv.ask('snm_closed', **kw)
        ok = rep['status'] == 'ok'
        if ok:
            mpsi = [float(unrq(t)) for t in dec_list(rep['psi'], str)]
            case['model_psi'] = mpsi
            # forward error of the float solve <= ~cond * 1e-15 * max|psi| (normwise)
            ftol = max(1e-8, 1e-13 * cond) * max(1.0, float(np.max(np.abs(psi))))
            ok = len(mpsi) == p and all(abs(m - q) <= ftol + 1e-9 for m, q in zip(mpsi, psi))
        chk.k(ok, 'closed-form psi: generated fit (Cramer for np.linalg.solve, exact) vs implementation',
              {'case': case, 'model': rep})
        chk.k(rep.get('hand') == rep.get('psi', 'singular'),
              'closed-form psi: generated fit = hand-written model closedForm (exact)', {'case': case, 'model': rep})
        rep2, _ = drv.ask('snm_esteq', psi=enc_list(psi, rq), **kw)
        ok2 = rep2['status'] == 'ok'
        if ok2:
            # the weight of a row is the exact product of its two factors in the model; the predicate agrees exactly
            # when evaluated with the same exact product (the implementation rounds the product: <= 1 ulp, far inside
            # the 1e-8 of the predicate above)
            Ex, _ = exact_esteq(a, y, pi, ref['uw'] if ref['hasw'] else np.ones(len(a)), Vm, psi,
                                w2=ref['im'] if ref['hasim'] else None)
            me = [unrq(t) for t in dec_list(rep2['e'], str)]
            ml = [unrq(t) for t in dec_list(rep2['lin'], str)]
            mg = [unrq(t) for t in dec_list(rep2['eg'], str)]
            ok2 = me == Ex and ml == Ex and mg == Ex      # exact: all sides are exact rational evaluations
        chk.k(ok2, 'estimating function: model estEq = harness predicate = generated rha - lhm psi = sum d v_j '
              '(generated H(psi)) (exact)', {'case': case, 'model': {k: str(v)[:200] for k, v in rep2.items()}})
    return {'g': g, 'psi': psi, 'labels': labels, 'snm': snm, 'ref': ref, 'Vm': Vm, 'case': case,
            'names': case['names']}


class FormulaSpy:
    """records the model strings `_grid_search_` hands to propensity_score (the exposure model + the H(psi) terms)"""

    def __enter__(self):
        import zepid.causal.snm.g_estimation as ge
        self.ge, self.orig, self.models = ge, ge.propensity_score, []

        def spy(*a, **k):
            self.models.append(k.get('model', a[1] if len(a) > 1 else None))
            return self.orig(*a, **k)
        ge.propensity_score = spy
        return self

    def __exit__(self, *exc):
        self.ge.propensity_score = self.orig


def hterms_k(chk, drv, g, models, case):
    """K: the H(psi) terms zEpid added to the exposure model vs the model's factor-by-factor rewriting (`Snm.hTerm`,
    theorem hterm_column) of the terms named by psi_labels -- compared as sets of factors per term (a product does not
    depend on the order of its factors) and through the value of each term's column in one row (exact)"""
    # the calls of the search come last (a missing-outcome model, if any, was fitted before): the models of the exposure
    models = [m for m in models if isinstance(m, str) and m.split('~')[0].strip() == str(g.exposure)]
    if drv is None or not models:
        return
    labels = [str(x) for x in g.psi_labels]
    rhs = models[-1].split('~', 1)[1]
    impl_terms = [[f.strip() for f in t.split(':')] for t in rhs.split(' + ')[-len(labels):]]
    ids = {}

    def fid(name):
        return ids.setdefault(name, len(ids) + 1)
    treat, h = fid(str(g.exposure)), fid('H_psi')
    terms = [[fid(f.strip()) for f in lab.split(':')] for lab in labels]
    impl_ids = [[fid(f) for f in t] for t in impl_terms]
    vals = [Fraction(0)] + [Fraction(2 * i + 3, i + 2) for i in range(len(ids))]      # value of name id i in the row
    hval = Fraction(-5, 7)
    rep, _ = drv.ask('snm_hterms', treat=treat, h=h, terms=','.join(str(x) for t in terms for x in t + [0]),
                     vals=','.join(str(v) for v in vals), hval=str(hval))
    ok = rep['status'] == 'ok'
    if ok:
        flat = [int(x) for x in rep['hterms'].split(',')]
        mterms, cur = [], []
        for x in flat:
            if x == 0:
                mterms.append(cur)
                cur = []
            else:
                cur.append(x)
        mcol = [Fraction(x) for x in rep['col'].split(',')]
        icol = []
        for t in impl_ids:
            v = Fraction(1)
            for f in t:
                v *= hval if f == h else vals[f]
            icol.append(v)
        ok = [sorted(t) for t in mterms] == [sorted(t) for t in impl_ids] and mcol == icol
    chk.k(ok, 'search solver: the H(psi) terms added to the exposure model = treatment replaced factor by factor in the '
          'terms named by psi_labels (model hTerm; columns H x modifiers)',
          {'case': case, 'psi_labels': labels, 'impl_terms': impl_terms, 'model': rep})


def check_root_criterion(chk, df, ytype, p, weights, missing, expo, miss_den, closed, names='auto', drv=None,
                         conv='auto'):
    """D, deterministic (no reliance on where Nelder-Mead ends): the closed-form psi is a root of the estimating
    equations, and the search solver's criterion -- sum |alpha| of the H(psi) terms added to the exposure model --
    measures exactly that association, so it vanishes at the closed-form root.  A search started AT the closed form and
    stopped after one iteration reports the smallest criterion value over its initial simplex, which contains the
    start: it must be <= 1e-6 (the check's definition of 'reached a root'; measured on the unchanged tree: <= 1e-9).
    A criterion built from the wrong terms (a product spelled modifier-first, a modifier whose name contains the
    exposure's) is O(1) there or raises."""
    if closed['case'].get('cond_lhm', 0) > 1e6:
        return          # ill-scaled modifier: the closed form's forward error is not at rounding level
    case = dict(closed['case'])
    case.update({'kind': 'root_criterion', 'start': [float(x) for x in closed['psi']]})
    if names == 'auto':
        names = closed['names']
    try:
        with FormulaSpy() as spy:
            g = run_impl(df, expo, p, weights, missing, miss_den, solver='search', snm=closed['snm'], history=None,
                         names=names, observe=None, conv=conv,
                         starting_value=[float(x) for x in closed['psi']], maxiter=1)
        fun = float(g._scipy_solver_obj.fun)
        labels_s = g._verif_labels
    except Exception as e:       # noqa: BLE001
        chk.case(case)
        chk.d(False, 'GEstimationSNM.fit(search) runs on valid input', dict(case, impl_error=repr(e), names=names))
        return
    case['names'] = names
    case['conv'] = g._verif_conv
    case['criterion_at_closed_form'] = fun
    chk.case(case, ('root_criterion', closed['snm'], names, bool(weights), missing, ytype, hash(df.to_csv())))
    chk.count('root_criterion:p%d/%s/%s' % (p, 'w' if weights else 'nw', missing))
    chk.count('root_criterion_snm:' + closed['snm'].replace(' ', ''))
    chk.extra['root_criterion_max'] = max(chk.extra.get('root_criterion_max', 0.0), fun)
    chk.d(sorted(labels_s) == sorted(closed['labels']),
          'search solver: psi_labels name exactly the terms of the SNM, one psi each', dict(case, search_labels=labels_s))
    chk.d(fun <= 1e-6, 'the search solver\'s criterion sum|alpha| vanishes at the closed-form root (<= 1e-6) -- '
          'the two solvers solve the same equations', case)
    hterms_k(chk, drv, g, spy.models, case)


def check_search(chk, df, ytype, p, weights, missing, expo, miss_den, closed, start_mode, history='auto',
                 observe='auto', conv='auto'):
    """closed vs search (numerical; Nelder-Mead)"""
    psi_c = closed['psi']
    if start_mode == 'zero':
        start = None
    else:
        # start near (not at) the closed form: a wrong objective still walks away from it
        start = [float(x * 1.03 + 0.02) for x in psi_c]
    case = dict(closed['case'])
    case.update({'kind': 'search', 'start': start})
    try:
        g = run_impl(df, expo, p, weights, missing, miss_den, solver='search', snm=closed['snm'], history=history,
                     names=closed['names'], observe=observe, conv=conv, starting_value=start, maxiter=600)
        res = g._scipy_solver_obj
        psi_s = g._verif_psi
        labels_s = g._verif_labels
    except Exception as e:       # noqa: BLE001
        chk.case(case)
        chk.d(False, 'GEstimationSNM.fit(search) runs on valid input',
              dict(case, impl_error=repr(e), **getattr(e, '_verif_drawn', {})))
        return
    case['search_psi'] = [float(x) for x in psi_s]
    case['search_labels'] = labels_s
    if sorted(labels_s) != sorted(closed['labels']) or len(psi_s) != len(labels_s):
        chk.case(case)
        chk.d(False, 'search solver: psi_labels name exactly the terms of the SNM, one psi each', case)
        return
    # judge by label: psi of the search solver re-ordered to the closed form's label order
    by_label = dict(zip(labels_s, psi_s))
    psi_s = np.array([by_label[l] for l in closed['labels']], dtype=float)
    case['history'] = getattr(g, '_verif_history', None)
    case['observe'] = g._verif_observe
    case['conv'] = g._verif_conv
    case['search_fun'] = float(res.fun)
    case['search_nit'] = int(res.nit)
    chk.case(case, ('search', p, bool(weights), missing, ytype, hash(df.to_csv())))
    chk.count('search:p%d/%s/%s/%s' % (p, 'w' if weights else 'nw', missing, start_mode))
    chk.h_checked += 1
    observer_d(chk, g, case)
    if not (res.success and res.fun <= 1e-6):
        chk.discard('Nelder-Mead did not reach a root (success=%s, sum|alpha| > 1e-6), p=%d' % (res.success, p))
        return
    scale = max(1.0, float(np.max(np.abs(psi_c))))
    agree = float(np.max(np.abs(psi_s - psi_c))) <= 1e-4 * scale
    # The objective sum|alpha| tends to 0 as |psi| -> infinity (H(psi) separates the exposure and its coefficient
    # vanishes), so the optimiser can run away from the root and still report success with a tiny objective:
    # finding F13 (signature symptom=diverged); any other disagreement has symptom=disagree and is a violation.
    diverged = (not agree) and float(np.max(np.abs(psi_s))) > 1e6 * scale
    case['symptom'] = 'agree' if agree else ('diverged' if diverged else 'disagree')
    chk.count('search_outcome:' + case['symptom'])
    # 1e-4: the optimiser stops at sum|alpha| <= 1e-6 ~ |d alpha/d psi| * |delta psi|; outcomes are O(1) so the slope
    # is O(0.1-1); measured agreement on the clean tree is 1e-7
    chk.d(agree, 'search solver agrees with the closed form (<= 1e-4, numerical)', case,
          signature={'solver': 'search', 'symptom': case['symptom']})


def check_objective(chk, drv, df, ytype, p, weights, missing, expo, miss_den, closed):
    """K for the search solver's objective (regenerated from `_grid_search_`): a search truncated after one iteration
    reports a point `x` away from the root and the objective there (`res.fun`); the harness refits the exposure model
    with the H(x) terms itself (reference invocation) and the generated `sum |alpha - shift|` is evaluated on those
    coefficients."""
    if drv is None:
        return
    case = dict(closed['case'])
    case['kind'] = 'objective'
    try:
        g = run_impl(df, expo, p, weights, missing, miss_den, solver='search', snm=closed['snm'], history=None,
                     names=closed['names'], observe=None, conv='keyword', maxiter=1)
        res = g._scipy_solver_obj
        x = dict(zip(g._verif_labels, np.asarray(res.x, dtype=float)))
        x = np.array([x[l] for l in closed['labels']], dtype=float)
    except Exception as e:       # noqa: BLE001
        chk.k(False, 'search objective: truncated search runs', dict(case, impl_error=repr(e)))
        return
    ref, Vm = closed['ref'], closed['Vm']
    cc = ref['cc'].copy()
    a, y = cc['A'].values.astype(float), cc['Y'].values.astype(float)
    H = y - (Vm * a[:, None]) @ x
    hcols = []
    for j in range(Vm.shape[1]):
        cc['H_%d' % j] = H * Vm[:, j]
        hcols.append('H_%d' % j)
    fm = glm_fit('A ~ ' + expo + ' + ' + ' + '.join(hcols), cc, w=ref['w'] if ref['weighted'] else None)
    chk.h_checked += 1
    if not fm.converged:
        chk.discard('reference refit with the H(psi) terms did not converge')
        return
    alpha = [float(fm.params[h]) for h in hcols]
    rep, _ = drv.ask('snm_objective', alpha=enc_list(alpha, rq), shift=enc_list([0.0] * len(alpha), rq))
    case.update({'objective_point': [float(t) for t in x], 'impl_objective': float(res.fun), 'ref_alpha': alpha})
    # 1e-6 relative: two IRLS fits of the same model on differently ordered / named columns agree to ~1e-9; a changed
    # objective (no absolute value, squares, a dropped term) differs at O(1) relative away from the root
    ok = rep['status'] == 'ok' and close(float(unrq(rep['obj'])), float(res.fun), rtol=1e-6, atol=1e-9)
    chk.count('objective:p%d/%s/%s' % (p, 'w' if weights else 'nw', missing))
    chk.k(ok, 'search objective: generated sum|alpha - shift| on the reference refit vs the value the optimiser saw',
          {'case': case, 'model': rep})


def check_saturated(chk, drv, rng, ytype, weights, missing, seedinfo):
    expo = ['C(V)*C(W)', 'C(V)*C(W)*C(Z)', 'C(V)*C(Z)'][int(rng.integers(0, 3))]
    strata_cols = {'C(V)*C(W)': ['V', 'W'], 'C(V)*C(W)*C(Z)': ['V', 'W', 'Z'], 'C(V)*C(Z)': ['V', 'Z']}[expo]
    # one time in two a rare level W = 3 is added in which everybody / nobody is treated (fitted probability 1 / 0):
    # those strata carry weight n p (1 - p) = 0 in the closed form
    degenerate = [None, None, 'treated', 'untreated'][int(rng.integers(0, 4))]
    if degenerate and 'W' not in strata_cols:
        expo, strata_cols = 'C(V)*C(W)', ['V', 'W']
    for _ in range(20):
        df = gen_data(rng, ytype, missing, saturated=True, force_n=int(rng.integers(150, 320)), degenerate=degenerate)
        cc0 = df.dropna()
        grp = cc0.loc[cc0['W'] != 3].groupby(strata_cols)['A']
        if grp.nunique().min() == 2 and grp.count().min() >= 4 and (not degenerate or (cc0['W'] == 3).any()):
            break
    else:
        chk.discard('could not draw a data set with both arms in every stratum')
        return
    eval_saturated(chk, drv, df, ytype, weights, missing, expo, strata_cols, degenerate, seedinfo)


def eval_saturated(chk, drv, df, ytype, weights, missing, expo, strata_cols, degenerate, seedinfo, history='auto',
                   names='auto', observe='auto', conv='auto'):
    miss_den = 'A + V'
    res = check_closed(chk, drv, df, ytype, 1, weights, missing, expo, miss_den, seedinfo, history=history,
                       names=names, observe=observe, conv=conv)
    if res is None:
        return
    cc, w, psi = res['ref']['cc'], res['ref']['w'], res['psi']
    case = dict(res['case'])
    case['kind'] = 'saturated'
    F = Fraction
    num, den = F(0), F(0)
    sid = np.zeros(len(cc), dtype=int)
    keys = {}
    for i, key in enumerate(map(tuple, cc[strata_cols].values.tolist())):
        sid[i] = keys.setdefault(key, len(keys))
    a, y = cc['A'].values.astype(float), cc['Y'].values.astype(float)
    live = np.ones(len(cc), dtype=bool)
    for s in range(len(keys)):
        idx = np.where(sid == s)[0]
        W_ = sum(F(float(w[i])) for i in idx)
        W1 = sum(F(float(w[i])) for i in idx if a[i] == 1)
        W0 = W_ - W1
        if W1 == 0 or W0 == 0:
            live[idx] = False        # everybody / nobody treated: p (1 - p) = 0, the stratum drops out
            continue
        T1 = sum(F(float(w[i])) * F(float(y[i])) for i in idx if a[i] == 1)
        T0 = sum(F(float(w[i])) * F(float(y[i])) for i in idx if a[i] == 0)
        ps = W1 / W_
        num += W_ * ps * (1 - ps) * (T1 / W1 - T0 / W0)
        den += W_ * ps * (1 - ps)
    want = float(num / den)
    case['stratified_closed_form'] = want
    case['degenerate_stratum'] = degenerate
    case['strata_cols'] = strata_cols
    chk.count('saturated:%s/%s/%s' % ('w' if weights else 'nw', missing, degenerate or 'both-arms'))
    # 1e-7: the closed form does not pass through the fitted values (admits IRLS convergence error of the GLM)
    chk.d(close(psi[0], want, rtol=1e-7, atol=1e-9),
          'one-parameter SNM, saturated exposure model: psi = sum n p(1-p)(ybar1-ybar0) / sum n p(1-p)', case)
    if drv is not None:
        # the model's theorem needs both arms in every stratum: it is fed the strata that carry weight
        kw = driver_args(a[live], y[live], res['ref']['pi'][live], res['ref'], res['Vm'][live], sel=live)
        rep, _ = drv.ask('snm_strat', s=enc_list(sid[live].tolist(), str), **kw)
        ok = rep['status'] == 'ok' and close(float(unrq(rep['psi'])), psi[0], rtol=1e-7, atol=1e-9)
        if ok:
            # H: the reference GLM is a cell fit on these strata
            fits = [abs(float(unrq(t))) for t in dec_list(rep['fit'], str)]
            chk.h_checked += 1
            ok = max(fits) <= 1e-6 * float(np.sum(w))
        chk.k(ok, 'stratified closed form: model vs implementation', {'case': case, 'model': rep})


def check_singular(chk, drv, rng):
    """V identically 0: the A:V column is 0, lhm is singular, np.linalg.solve raises; the model returns none"""
    df = gen_data(rng, 'continuous', 'none')
    df['V'] = 0.0
    eval_singular(chk, drv, df)


def eval_singular(chk, drv, df):
    case = {'kind': 'singular', 'data': frame_record(df)}
    chk.case(case, ('singular', hash(df.to_csv())))
    try:
        run_impl(df, 'W + L', 2, False, 'none', None, history=None, names='canonical', observe=None, conv='keyword')
        impl = 'ok'
    except np.linalg.LinAlgError:
        impl = 'singular'
    except Exception as e:       # noqa: BLE001
        impl = type(e).__name__
    case['impl'] = impl
    if drv is not None:
        ref = reference(chk, df, 'W + L', False, 'none', None)
        cc = ref['cc']
        rep, _ = drv.ask('snm_closed', **driver_args(cc['A'].values, cc['Y'].values, ref['pi'], ref, design(cc, 2)))
        chk.k((rep['status'] == 'err') == (impl == 'singular'), 'singular lhm: model and implementation both reject',
              {'case': case, 'model': rep})


def check_unspecified(chk, rng):
    from zepid.causal.snm import GEstimationSNM
    df = gen_data(rng, 'continuous', 'none')
    for which in ('none', 'exposure', 'snm'):
        g = GEstimationSNM(df, exposure='A', outcome='Y')
        if which == 'exposure':
            g.exposure_model('L', print_results=False)
        if which == 'snm':
            g.structural_nested_model('A')
        try:
            g.fit()
            r = 'ok'
        except ValueError:
            r = 'ValueError'
        chk.case(None)
        chk.d(r == 'ValueError', 'fit before both models are specified raises ValueError', {'specified': which})


def run(chk, drv, rng, tier):
    run_impl.rng = np.random.default_rng(int(rng.integers(0, 2 ** 31)))
    reps = 3 if tier == 'quick' else 30
    cells = list(itertools.product(['continuous', 'binary'], [1, 2, 3], [False, True], MISS))
    chk.extra['config_cells'] = len(cells)
    keep = {}
    for rep in range(reps):
        for ci, (ytype, p, weights, missing) in enumerate(cells):
            degenerate = [None, 'treated', 'untreated'][int(rng.integers(0, 3))] if rep % 3 == 2 else None
            df = gen_data(rng, ytype, missing, degenerate=degenerate)
            expo = EXPO[int(rng.integers(0, len(EXPO)))] if not degenerate else \
                ['V + C(W) + L', 'C(W) + L + Z', 'C(V)*C(W) + L'][int(rng.integers(0, 3))]
            miss_den = ['A + L', 'A + V + L', 'A + W'][int(rng.integers(0, 3))]
            # how the SNM is written rotates with the repetition: product-first / swapped factors, stateful
            # transforms, random
            snm = make_snm(rng, p, rep % 3)
            if rep % 3 == 0:
                # the cells handed to the search stream: every product written modifier-first / as drawn /
                # treatment-first, in rotation over the cells (the search solver rewrites the terms as text)
                snm = respell(snm, ['modifier_first', 'as_is', 'treatment_first'][(ci // 4 + ci) % 3])
            res = check_closed(chk, drv, df, ytype, p, weights, missing, expo, miss_den,
                               {'rep': rep, 'tier': tier}, snm=snm)
            if res is not None and rep == 0:
                keep[(ytype, p, weights, missing)] = (df, expo, miss_den, res)
            if res is not None and rep % 3 != 2:
                # the search solver's criterion at the closed-form root (cheap: one truncated search), every cell
                check_root_criterion(chk, df, ytype, p, weights, missing, expo, miss_den, res, drv=drv)
    # ill-scaled effect modifiers (calendar year, age in days): cond(lhm) up to ~1e13; D judges the residual
    ill = ['A + A:yr', 'A:yr + A', 'A + A:yr + A:V', 'A + A:days', 'A + A:V + A:days', 'A + A:center(yr)']
    k = 0
    for rep in range(1 if tier == 'quick' else 6):
        for ytype in ('continuous', 'binary'):
            for weights in (False, True):
                for missing in ('none', 'dropped', 'model_stab'):
                    snm = ill[k % len(ill)]
                    k += 1
                    df = gen_data(rng, ytype, missing)
                    check_closed(chk, drv, df, ytype, len(snm.split(' + ')), weights, missing,
                                 ['V + L', 'V + W + L + Z'][k % 2], 'A + L', {'rep': rep, 'tier': tier, 'stream': 'ill'},
                                 snm=snm)
    # saturated stream
    for rep in range(3 if tier == 'quick' else 20):
        for ytype in ('continuous', 'binary'):
            for weights in (False, True):
                for missing in ('none', 'dropped', 'model_stab'):
                    check_saturated(chk, drv, rng, ytype, weights, missing, {'rep': rep, 'tier': tier})
    # search stream (slow: every objective evaluation fits a GLM): a fixed subset of cells per tier
    if tier == 'quick':
        sel = [('continuous', 1, False, 'none', 'zero'), ('continuous', 1, True, 'model_stab', 'zero'),
               ('binary', 1, True, 'dropped', 'zero'), ('continuous', 2, True, 'none', 'zero'),
               ('binary', 2, False, 'model_unstab', 'zero'), ('continuous', 2, True, 'model_stab', 'near'),
               ('continuous', 3, True, 'none', 'near'), ('continuous', 3, False, 'dropped', 'near')]
    else:
        sel = [(y, p, w, m, 'zero' if p < 3 else 'near') for (y, p, w, m) in cells] + \
              [(y, 3, w, 'none', 'zero') for y in ('continuous', 'binary') for w in (False, True)]
    for (ytype, p, weights, missing, start_mode) in sel:
        if (ytype, p, weights, missing) not in keep:
            chk.discard('search stream: closed-form case was discarded')
            continue
        df, expo, miss_den, res = keep[(ytype, p, weights, missing)]
        check_search(chk, df, ytype, p, weights, missing, expo, miss_den, res, start_mode)
        check_objective(chk, drv, df, ytype, p, weights, missing, expo, miss_den, res)
    for _ in range(2 if tier == 'quick' else 6):
        check_singular(chk, drv, rng)
    check_unspecified(chk, rng)
    judged = chk.dist.get('search_outcome:agree', 0) + chk.dist.get('search_outcome:disagree', 0)
    chk.extra['search_runs_judged'] = judged
    if judged < (4 if tier == 'quick' else 30):
        raise RuntimeError('too few search-solver runs reached a root (%d): inconclusive' % judged)


def replay(rec):
    """re-execute every stored failing case: the stored frame and configuration (SNM as written, models, weights,
    missing-outcome handling, object history, start values) go through the same check functions again on the
    implementation under test.  Exit 1 iff a predicate of gate D fails again (known findings do not count)."""
    import json
    import common
    run_impl.rng = None
    seen, rc = set(), 0
    for f in rec.get('failures', []):
        case = f['case'].get('case', f['case']) if isinstance(f['case'], dict) else None
        if not case or 'data' not in case:
            print('no data stored for', f.get('what'), case if case else '')
            continue
        key = (case.get('kind'), json.dumps(case['data'], sort_keys=True), case.get('snm'), str(case.get('history')),
               str(case.get('start')), str(case.get('names')), str(case.get('observe')), str(case.get('conv')))
        if key in seen:
            continue
        seen.add(key)
        df = frame_from_record(case['data'])
        chk = common.Check('C15', 'replay', 0)
        kind = case.get('kind')
        nmo = dict(names=case.get('names') or 'canonical', observe=case.get('observe'),
                   conv=case.get('conv') or 'keyword')
        with common.quiet():
            try:
                if kind == 'singular':
                    eval_singular(chk, None, df)
                else:
                    p = len(case['snm'].split(' + '))
                    cfg = (case['ytype'], p, case['weights'], case['missing'], case['exposure_model'],
                           case['missing_model'])
                    if kind == 'saturated':
                        eval_saturated(chk, None, df, case['ytype'], case['weights'], case['missing'],
                                       case['exposure_model'], case['strata_cols'], case.get('degenerate_stratum'),
                                       {'replay': True}, history=case.get('history'), **nmo)
                    elif kind in ('search', 'root_criterion'):
                        res = check_closed(chk, None, df, *cfg, {'replay': True}, snm=case['snm'], history=None,
                                           names=nmo['names'], observe=None, conv='keyword')
                        if res is not None and kind == 'search':
                            check_search(chk, df, *cfg, res, 'zero' if case.get('start') is None else 'near',
                                         history=case.get('history'), observe=case.get('observe'), conv=nmo['conv'])
                        elif res is not None:
                            check_root_criterion(chk, df, *cfg, res, conv=nmo['conv'])
                    else:
                        check_closed(chk, None, df, *cfg, {'replay': True}, snm=case['snm'],
                                     history=case.get('history'), **nmo)
                err = None
            except Exception as e:       # noqa: BLE001
                err = repr(e)
        print('%s case: %s %s weights=%s missing=%s exposure_model=%r history=%s column names=%s reporting calls=%s call convention=%s n=%d'
              % (kind, case.get('ytype'), case.get('snm'), case.get('weights'), case.get('missing'),
                 case.get('exposure_model'), case.get('history'), case.get('names'), case.get('observe'),
                 case.get('conv'), len(df)))
        if err:
            print('   raised:', err)
            rc = 1
        print('   predicates evaluated: %d, failing: %d, known findings: %s, discards: %s'
              % (chk.d_cases, len(chk.d_fail), sorted(chk.known_hits), chk.discards))
        for g in chk.d_fail[:6]:
            gc = g['case'] if isinstance(g['case'], dict) else {}
            print('   FAIL', g['what'])
            for k in ('impl_psi', 'psi_labels', 'esteq_rel_residual', 'fresh_psi', 'search_psi', 'search_fun',
                      'stratified_closed_form', 'impl_error', 'criterion_at_closed_form', 'psi_at_fit',
                      'psi_after_reporting'):
                if k in gc:
                    print('        %s: %s' % (k, gc[k]))
        if chk.d_fail:
            rc = 1
    return rc
