"""C20 -- super learner weights are convex and built from out-of-fold predictions; StepwiseSL search.

SuperLearner: spy candidates (sklearn `clone`-able) carry a row-identifier column in X, memorise the outcomes of
the rows they are fitted on (a leak shows up in the numbers as well as in the call log) and log every fit / predict.
Gate K: the Lean model (`ZV.SL`, native driver) must reproduce the folds, the complete call sequence of `fit`,
the coefficients (from a reference `nnls` call on the out-of-fold prediction matrix the *model's* folds imply),
the cross-validated errors and `predict`.  Gate D evaluates the property on the implementation's own outputs.

StepwiseSL: `sm.GLM` inside `zepid.superlearner.estimators` is wrapped *in this process* (never in the repository)
to log (columns -> AIC) and, for a third of the cases, to inject NaN AICs; the table drives the model
(`ZV.Stepwise.search`), which must reproduce the visited sequence and `cols_optim`.  Gate D refits the starting
model and every admissible single step with statsmodels itself.
"""
import itertools
import json
import math
import warnings
import zlib

import numpy as np
from sklearn.base import BaseEstimator

from common import fx, unfx, rq, enc_list, dec_list, close

REQUIRED = ['kfold_partition', 'schedule_out_of_fold', 'coef_convex', 'coef_nan_iff', 'discrete_onehot',
            'discrete_tie_first', 'predict_combination', 'predict_combination_nll', 'predict_in_hull', 'predict_in_hull_nll',
            'stepwise_sound', 'stepwise_not_worse', 'stepwise_local_opt', 'stepwise_start_nan',
            # Props/C20_Gen.lean: ties of the regenerated lines of SuperLearner.fit / predict (Gen/Stack.lean) to the model
            'sl_coefficients_generated', 'coef_convex_generated', 'sl_fit_full_generated', 'sl_fit_discrete_generated',
            'sl_discrete_generated', 'sl_predict_l2_generated', 'sl_predict_nloglik_generated',
            'predict_in_hull_generated', 'sl_cv_calls_generated', 'cv_schedule_generated',
            # Props/C20_Step.lean: the column bookkeeping of StepwiseSL.fit (Gen/Stepwise.lean)
            'sw_start_generated', 'sw_fits_generated', 'sw_break_generated', 'sw_avail_generated', 'search_generated',
            'stepwise_sound_generated']
RULE = ('SuperLearner: cells loss {L2, nloglik} x discrete {no, yes} x 1..5 candidates, two fold counts from 2..10 per '
        'cell, n random in 10..200 (n not divisible by folds in most cases), synthetic memorising spies and spies '
        'wrapping real learners (EmpiricalMeanSL, GLMSL, StepwiseSL, sklearn); plus rejected (folds > n, folds < 2), '
        'PyGAM-style candidates for nloglik (1-D predict_proba, predict = labels); all-zero outcome, refit and shared-candidate streams (two SuperLearner objects built from the same candidate '
        'objects); 40% of the synthetic candidates are warm-start learners (a fit continues from what the object has '
        'already seen, like sklearn warm_start=True); every SuperLearner case is repeated with X / y (fit and predict) as lists '
        'and as pandas objects with default, shifted and permuted integer labels (int and float outcome dtype) and '
        'compared exactly with the ndarray run, the hold-out discipline being judged on the outcome values the '
        'clones received; the stand-alone estimators get the same container variants; matched sets (2-4 levels, one '
        'group-specific learner per level, a drawn subset of levels sharing the outcome) so that candidates are '
        'EXACTLY tied for the largest weight or for a lower one, discrete and not; per case, independently drawn '
        'options outside the statement (verbose, upper-case loss / solver, non-default bounds, summary() between fit '
        'and predict).  StepwiseSL (verbose drawn per case): cells direction x family {Gaussian, Binomial, Poisson} x '
        'order_interaction 0..2 x 1..4 columns, a third with injected NaN AICs.  distinct = distinct (cell, n, data '
        'seed); non-trivial = n mod folds != 0 or >= 2 candidates (SL); search took >= 1 step (stepwise)')
ASSUMPTIONS = ['sklearn KFold(k, shuffle=False) yields contiguous folds, the first n mod k of size n//k + 1 (measured '
               'on a reference invocation per case)',
               'scipy.optimize.nnls returns a vector (any vector: the theorems assume nothing about it; its entries '
               'are measured to be >= 0)',
               'sklearn.base.clone returns a fresh unfitted object per call (observed through the spies)',
               'statsmodels GLM reports the same AIC for the same design on refit (measured only when the reference fit is at a '
               'genuine optimum: converged, no warning, no fitted mean on the boundary, full rank; otherwise a discard -- '
               'gate D is driven by the AIC table logged on the implementation); NaN / +inf AIC = not '
               'comparable; a non-finite AIC of the starting model is outside the model (discarded)',
               'numpy logit / inverse_logit are monotone and mutually inverse on [bounds, 1-bounds] (hypotheses of '
               'predict_in_hull_nll; the Float run of the model is execution only)']

LOG = []
LOGGING = [True]
_UID = itertools.count()
SQRT_EPS = float(np.sqrt(np.finfo(np.double).eps))


def _h(*a):
    return (zlib.crc32(repr(a).encode()) % 100003) / 100003.0


class Cand(BaseEstimator):
    """spy candidate; column 0 of X = row id.  flavor: 0 mean, 1 OLS on x1, 2 OLS on all x, 3 noise about the mean,
    4 mirrored OLS (anti-correlated: gets coefficient 0), 5 group-specific learner (the mean outcome of the rows
    whose column 1 equals `arm`, times `scale`; 0 for rows of other groups).  Rows seen in fit are answered with
    their outcome."""

    def __init__(self, cand=0, flavor=0, binary=False, inner=None, warm=False, arm=0, scale=1.0):
        self.cand = cand
        self.flavor = flavor
        self.binary = binary
        self.inner = inner
        self.warm = warm            # warm start: fit() continues from what the object has already seen
        self.arm = arm              # flavor 5 (group-specific learner): the level of column 1 it answers for
        self.scale = scale          # flavor 5: its group mean is reported times `scale`
        self.token_ = next(_UID)       # identity of the Python object (id() is reused after garbage collection)

    def fit(self, X, y):
        X, y = np.asarray(X, dtype=float), np.asarray(y, dtype=float)
        self.uid_ = next(_UID)
        ids = [int(v) for v in X[:, 0]]
        # like sklearn's warm_start=True: a second fit on the same object keeps what earlier fits learned;
        # a pristine clone starts empty.  `train_` is everything this object has seen.
        self.train_ = (list(getattr(self, 'train_', [])) if self.warm else []) + ids
        self.ymap_ = dict(getattr(self, 'ymap_', {}) if self.warm else {})
        self.ymap_.update(zip(ids, y.tolist()))
        self.mean_ = float(y.mean()) if len(y) else 0.0
        own = X[:, 1] == self.arm
        self.gmean_ = float(y[own].mean()) if own.any() else 0.0
        Z = np.column_stack([np.ones(len(y)), X[:, 1:2] if self.flavor in (1, 4) else X[:, 1:]])
        self.beta_ = np.linalg.lstsq(Z, y, rcond=None)[0] if len(y) else np.zeros(Z.shape[1])
        if self.inner is not None:
            from sklearn import clone
            self.inner_ = clone(self.inner).fit(X, y)
        if LOGGING[0]:
            LOG.append({'ev': 'fit', 'cand': self.cand, 'uid': self.uid_, 'ids': ids, 'oid': self.token_,
                        'y': [float(v) for v in y], 'x1': [float(v) for v in X[:, 1]]})
        return self

    def _values(self, X, how):
        X = np.asarray(X, dtype=float)
        ids = [int(v) for v in X[:, 0]]
        if not hasattr(self, 'uid_'):
            if LOGGING[0]:
                LOG.append({'ev': 'pred', 'cand': self.cand, 'uid': None, 'ids': ids, 'train': [], 'values': None})
            raise RuntimeError('spy candidate %d asked to predict before fit' % self.cand)
        if self.inner is not None:
            if how == 'proba' and hasattr(self.inner_, 'predict_proba'):
                v = np.asarray(self.inner_.predict_proba(X))
                v = v[:, 1] if v.ndim == 2 else v
            else:
                v = np.asarray(self.inner_.predict(X), dtype=float)
        else:
            Z = np.column_stack([np.ones(len(ids)), X[:, 1:2] if self.flavor in (1, 4) else X[:, 1:]])
            if self.flavor == 0:
                v = np.full(len(ids), self.mean_)
            elif self.flavor == 3:
                v = np.array([self.mean_ + 0.4 * (_h(self.cand, i) - 0.5) for i in ids])
            elif self.flavor == 4:
                v = 2 * self.mean_ - Z @ self.beta_
            elif self.flavor == 5:
                v = np.full(len(ids), self.scale * self.gmean_)
            else:
                v = Z @ self.beta_
            v = np.array([self.ymap_.get(i, float(x)) for i, x in zip(ids, v)])
            if self.flavor == 5:      # a group-specific learner contributes nothing outside its group
                v = np.where(X[:, 1] == self.arm, v, 0.0)
        if self.binary:
            v = np.clip(v, 0.0, 1.0)
        if LOGGING[0]:
            LOG.append({'ev': 'pred', 'cand': self.cand, 'uid': self.uid_, 'ids': ids, 'train': list(self.train_),
                        'values': [float(x) for x in v], 'how': how})
        return v

    def predict(self, X):
        return self._values(X, 'predict')


class CandProba(Cand):
    def predict_proba(self, X):
        v = self._values(X, 'proba')
        return np.column_stack([1 - v, v])


class CandGam(Cand):
    """PyGAM-style classifier (the documented fallback of SuperLearner._predict_): predict_proba returns a 1-D
    vector of probabilities, predict returns class labels"""

    def predict_proba(self, X):
        return self._values(X, 'proba')

    def predict(self, X):
        lab = (self._values(X, 'labels') > 0.5).astype(float)
        if LOGGING[0]:
            LOG[-1]['values'] = [float(x) for x in lab]
        return lab


def proba_of(est, X, loss):
    """the candidate's prediction as SuperLearner documents it: probabilities (2-D or 1-D predict_proba) for the
    log-likelihood loss when the candidate offers them, predict otherwise"""
    if loss == 'nloglik' and hasattr(est, 'predict_proba'):
        v = np.asarray(est.predict_proba(X))
        return v[:, 1] if v.ndim == 2 else v
    return est.predict(X)


# --------------------------------------------------------------------------------------------- SuperLearner
def sl_data(case):
    r = np.random.default_rng(case['data_seed'])
    n, nn = case['n'], case['n_new']
    if case.get('matched'):
        # matched sets (paired / crossover / twin designs): every set contributes `arms` consecutive rows, one per
        # level of column 1, sharing a set-level covariate; the outcome of a set is the same under the `tied` levels
        # and shifted under the others.  With one group-specific learner per level the tied learners earn EXACTLY
        # the same non-negative-least-squares weight whenever the folds cut between sets.
        mt = case['matched']
        L = mt['arms']
        arm = (np.arange(n + nn) % L).astype(float)
        sets = np.arange(n + nn) // L
        ns = int(sets.max()) + 1
        z = np.round(r.normal(size=ns), 3)
        if case['loss'] == 'nloglik' or case.get('binary_y'):
            base = (r.uniform(size=ns) < 1 / (1 + np.exp(-(0.3 + 0.8 * z)))).astype(float)
            y = base[sets]
            flip = np.isin(arm, mt['shifted']) & (r.uniform(size=n + nn) < 0.3)
            y = np.where(flip, 1 - y, y)
        else:
            base = np.round(3.0 + 0.9 * z + r.normal(scale=0.7, size=ns), mt.get('decimals', 1))
            y = base[sets] + np.where(np.isin(arm, mt['shifted']), np.round(0.5 + arm / 4, 2), 0.0)
        X = np.column_stack([np.arange(n + nn, dtype=float), arm, z[sets]])
        return X[:n], y[:n], X[n:]
    x = np.round(r.normal(size=(n + nn, 2)), 3)
    x[:, 1] = (x[:, 1] > 0.2).astype(float) if case['data_seed'] % 2 else x[:, 1]
    lin = 0.4 + 0.9 * x[:, 0] - 0.6 * x[:, 1]
    if case['loss'] == 'nloglik' or case.get('binary_y'):
        y = (r.uniform(size=n + nn) < 1 / (1 + np.exp(-lin))).astype(float)
    else:
        y = np.round(2.0 + lin + r.normal(scale=0.7, size=n + nn), 3)
    if case.get('zero_y'):
        y[:] = 0.0
    X = np.column_stack([np.arange(n + nn, dtype=float), x])
    return X[:n], y[:n], X[n:]


def make_cands(case):
    binary = case['loss'] == 'nloglik'
    out = []
    for c, spec in enumerate(case['cands']):
        cls = CandGam if (spec.get('gam') and binary) else (CandProba if spec.get('proba') else Cand)
        inner = None
        if spec.get('inner'):
            import statsmodels.api as sm
            from zepid.superlearner import EmpiricalMeanSL, GLMSL, StepwiseSL
            from sklearn.linear_model import LinearRegression, LogisticRegression
            fam = sm.families.family.Binomial() if binary else sm.families.family.Gaussian()
            inner = {'mean': lambda: EmpiricalMeanSL(), 'glm': lambda: GLMSL(family=fam),
                     'step': lambda: StepwiseSL(family=fam, selection='forward', order_interaction=0),
                     'sk': lambda: (LogisticRegression(C=1.0, max_iter=300) if binary else LinearRegression())
                     }[spec['inner']]()
        out.append(cls(cand=c, flavor=spec.get('flavor', 0), binary=binary, inner=inner, warm=bool(spec.get('warm')),
                       arm=spec.get('arm', 0), scale=spec.get('scale', 1.0)))
    return out


def canon_fit_trace(events):
    rounds, uid2, out = {}, {}, []
    for e in events:
        if e['ev'] == 'fit':
            r = rounds.get(e['cand'], 0)
            rounds[e['cand']] = r + 1
            uid2[e['uid']] = r
            out.append('F:%d:%d:%s' % (r, e['cand'], enc_list(e['ids'], str)))
        else:
            out.append('P:%s:%d:%s' % (uid2.get(e['uid'], 'U'), e['cand'], enc_list(e['ids'], str)))
    return '|'.join(out)


def np_predict(loss, coefs, P, b):
    """the documented combination, in numpy: rows of P = candidates' predictions"""
    coefs = np.asarray(coefs, dtype=float)
    P = np.where(coefs > 0, P, 0.0)
    if loss == 'l2':
        return P @ coefs
    Q = np.clip(P, b, 1 - b)
    return 1 / (1 + np.exp(-(np.log(Q / (1 - Q)) @ coefs)))


CONTAINERS = ['list', 'frame_default', 'frame_shifted', 'frame_permuted', 'series_y_permuted', 'frame_x_permuted',
              'int_y_permuted']


def contain(X, y, Xq, how, seed):
    """the same data in another container: lists, pandas objects with default / shifted / permuted integer index
    (row order unchanged: only the labels differ), integer-valued outcome as an int Series"""
    import pandas as pd
    if how == 'ndarray':
        return X, y, Xq
    if how == 'list':
        return X.tolist(), y.tolist(), Xq.tolist()
    n = len(y)
    perm = np.random.default_rng(seed).permutation(n)
    if n > 1 and np.array_equal(perm, np.arange(n)):
        perm = np.roll(perm, 1)
    idx = {'frame_default': np.arange(n), 'frame_shifted': np.arange(n) + n + 3}.get(how, perm)
    qidx = np.arange(len(Xq))[::-1] + 5
    if how in ('frame_default', 'frame_shifted', 'frame_permuted'):
        return pd.DataFrame(X, index=idx), pd.Series(y, index=idx), pd.DataFrame(Xq, index=qidx)
    if how == 'series_y_permuted':
        return X, pd.Series(y, index=idx), Xq
    if how == 'frame_x_permuted':
        return pd.DataFrame(X, index=idx), y, pd.DataFrame(Xq, index=qidx)
    if how == 'int_y_permuted':
        yy = y.astype(int) if np.all(y == np.round(y)) else y
        return X, pd.Series(yy, index=idx), Xq
    raise KeyError(how)


def collapse(log):
    """SuperLearner asks a 1-D predict_proba candidate twice in a row for the same rows (`[:, 1]` raises IndexError,
    then the documented fallback): an immediately repeated identical request is one prediction"""
    out = []
    for e in log:
        if out and e['ev'] == 'pred' and out[-1]['ev'] == 'pred' and \
                all(out[-1].get(k_) == e.get(k_) for k_ in ('cand', 'uid', 'ids', 'how')):
            out[-1] = dict(e)
            continue
        out.append(dict(e))
    return out


def sl_make(case, cands):
    """the SuperLearner of a case.  `opts` (round 4) are constructor options and calls that the property does not
    mention and that therefore must not matter: the progress report (`verbose=True`), the documented upper-case
    spellings of loss and solver, a non-default `bounds` (which enters the log-likelihood combination as documented),
    and `summary()` called between fit and predict."""
    from zepid.superlearner import SuperLearner
    o = case.get('opts') or {}
    kw = dict(folds=case['k'], loss_function=o.get('loss_spelling') or case['loss'], discrete=case['discrete'])
    for k_ in ('bounds', 'verbose', 'solver'):
        if k_ in o:
            kw[k_] = o[k_]
    return SuperLearner(cands, ['c%d' % i for i in range(len(cands))], **kw)


def bounds_of(case):
    return float((case.get('opts') or {}).get('bounds', 1e-6))


def quiet():
    import contextlib
    import io
    return contextlib.redirect_stdout(io.StringIO())


def run_sl(case, container='ndarray'):
    """fit + predict on the implementation -> dict of observables"""
    X, y, Xnew = sl_data(case)
    cands = make_cands(case)
    del LOG[:]
    out = {'err': None, 'orig_ids': [c.token_ for c in cands]}
    with warnings.catch_warnings(), quiet():
        warnings.simplefilter('ignore')
        try:
            sl = sl_make(case, cands)
            Xc, yc, Xqc = contain(X, y, np.vstack([Xnew, X[:5]]), container, case['data_seed'])
            sl.fit(Xc, yc)
            out['fit_log'] = collapse(LOG)
            if (case.get('opts') or {}).get('summary'):
                sl.summary()
            out['coefs'] = [float(c) for c in sl.coefficients]
            out['perf_coefs'] = [float(c) for c in sl.est_performance['coefs']]
            out['cv_error'] = [float(c) for c in sl.est_performance['cv_error']]
            del LOG[:]
            out['pred'] = [float(v) for v in sl.predict(Xqc)]
            out['pred_log'] = collapse(LOG)
            out['sl'] = sl
        except Exception as e:
            out['err'] = '%s: %s' % (type(e).__name__, str(e)[:100])
            out.setdefault('fit_log', collapse(LOG))
    return out, X, y, np.vstack([Xnew, X[:5]])


def d_superlearner(chk, case, out, X, y, Xq):
    """the property's predicate on the implementation's outputs"""
    n, m = len(y), len(case['cands'])
    ctx = {'case': case}
    ev = out['fit_log']
    preds = [e for e in ev if e['ev'] == 'pred']
    leak = [(e['cand'], e['uid']) for e in preds if e['uid'] is None or set(e['ids']) & set(e['train'])]
    chk.d(not leak, 'every cross-validated prediction comes from a clone that never saw the row',
          dict(ctx, offending=leak[:5]))
    if case['loss'] == 'nloglik':
        has_proba = [bool(spec.get('proba') or spec.get('gam')) for spec in case['cands']]
        wrong_how = [(e['cand'], e['how']) for e in preds + out.get('pred_log', [])
                     if has_proba[e['cand']] and e.get('how') != 'proba']
        chk.d(not wrong_how, 'log-likelihood loss: a candidate offering predict_proba (2-D or 1-D) is scored and '
              'combined on its probabilities, not on its class labels', dict(ctx, offending=wrong_how[:5]))
    for c in range(m):
        got = sorted(i for e in preds if e['cand'] == c for i in e['ids'])
        chk.d(got == list(range(n)), 'each row is held out (predicted out-of-fold) exactly once per candidate',
              dict(ctx, cand=c))
    fits = [e for e in ev if e['ev'] == 'fit']
    # judged on the values actually handed to the clones: the outcomes (and covariates) a clone is trained on are
    # those of the rows whose identifiers it is given
    wrong = [(e['cand'], e['uid']) for e in fits
             if e['y'] != [float(y[i]) for i in e['ids']] or e['x1'] != [float(X[i, 1]) for i in e['ids']]]
    chk.d(not wrong, 'every clone is trained on the outcomes and covariates of exactly the rows it is given',
          dict(ctx, offending=wrong[:5]))
    # the known unguarded case (finding C20-a) is recognised from the input side: a reference nnls on the observed
    # out-of-fold predictions returns only entries below sqrt(eps) (forced by the all-zero-outcome stream, and
    # reached naturally e.g. by leave-one-out folds on 10 binary rows)
    sig, wref = None, None
    try:
        from scipy.optimize import nnls
        cvo = np.full((n, m), np.nan)
        for e in preds:
            cvo[e['ids'], e['cand']] = e['values']
        if not np.isnan(cvo).any():
            wref = nnls(cvo, y)[0]
            if np.all(wref < SQRT_EPS):
                sig = {'class': 'SuperLearner', 'case': 'all_coefficients_below_threshold'}
                chk.count('sl_all_coefficients_below_threshold')
                wref = None
    except Exception:
        wref = None
    co = np.array(out['coefs'])
    ok = bool(np.all(np.isfinite(co)) and np.all(co >= 0) and abs(co.sum() - 1) <= 1e-9)
    chk.d(ok, 'coefficients are non-negative and sum to one', dict(ctx, coefs=out['coefs']), signature=sig)
    if not ok:
        return
    w = np.array(out['perf_coefs'])
    if np.all(np.isfinite(w)) and m >= 2 and int(np.sum(w == w.max())) >= 2:
        chk.count('sl_tied_largest_weight' + ('_discrete' if case['discrete'] else ''))
    if case['discrete']:
        # (with several candidates tied for the largest weight the property asks for one of them, whichever)
        chk.d(sorted(co.tolist()) == [0.0] * (m - 1) + [1.0] and w[int(np.argmax(co))] >= w.max(),
              'discrete: a single coefficient of one, on the candidate with the largest weight', dict(ctx, w=w.tolist()),
              signature=sig)
        if wref is not None:
            # the weights themselves, from a reference nnls on the out-of-fold predictions the clones returned
            # (1e-9: the reference sees the same numbers, possibly in another memory layout)
            chk.d(bool(wref[int(np.argmax(co))] >= wref.max() * (1 - 1e-9)),
                  'discrete: the selected candidate has the largest non-negative-least-squares weight on the '
                  'out-of-fold predictions', dict(ctx, reference_weights=wref.tolist(), coefs=out['coefs']))
    # predictions: combination of the retained candidates refitted on all rows
    last_fit = {}
    for e in fits:
        last_fit[e['cand']] = e
    plog = {e['cand']: e for e in out['pred_log']}
    P = np.zeros((len(Xq), m))
    good = True
    for c in range(m):
        if co[c] > 0:
            e = plog.get(c)
            good = good and e is not None and e['uid'] == last_fit[c]['uid'] and \
                sorted(last_fit[c]['ids']) == list(range(n)) and e['values'] is not None
            if good:
                P[:, c] = e['values']
    chk.d(good, 'retained candidates answering predict were refitted on all rows', ctx)
    if good:
        b = bounds_of(case)
        want = np_predict(case['loss'], co, P, b)
        got = np.array(out['pred'])
        # tolerance: both sides are a handful of float operations on the same inputs
        chk.d(bool(np.allclose(got, want, rtol=1e-9, atol=1e-12)),
              'predict = coefficient-weighted combination (logit scale for nloglik)', ctx)
        R = P[:, co > 0]
        if case['loss'] == 'nloglik':
            R = np.clip(R, b, 1 - b)
        chk.d(bool(np.all(got >= R.min(axis=1) - 1e-9) and np.all(got <= R.max(axis=1) + 1e-9)),
              'prediction within the range of the retained candidates\' predictions', ctx)


def k_superlearner(chk, drv, case, out, X, y, Xq):
    n, m, k = len(y), len(case['cands']), case['k']
    ctx = {'case': case}
    rep, _ = drv.ask('kfold', n=n, k=k)
    if out['err'] is not None and not out['fit_log']:
        chk.k(rep['status'] == 'err', 'model rejects (n, folds) the implementation rejects', dict(ctx, model=rep,
                                                                                                   impl=out['err']))
        return
    if rep['status'] != 'ok':
        chk.k(False, 'model rejects (n, folds) accepted by the implementation', dict(ctx, model=rep))
        return
    folds = [dec_list(s, int) for s in rep['folds'].split(';')]
    # H: sklearn KFold on a reference invocation
    import sklearn.model_selection as ms
    ref = [t.tolist() for _, t in ms.KFold(k, shuffle=False).split(range(n))]
    chk.h_checked += 1
    if ref != folds:
        chk.k(False, 'KFold folds = modelled folds', dict(ctx, ref=ref, model=folds))
        return
    # out-of-fold prediction matrix implied by the model's folds (fresh reference clones, logging off)
    from sklearn import clone
    from scipy.optimize import nnls
    cands = make_cands(case)
    cv = np.full((n, m), np.nan)
    LOGGING[0] = False
    try:
        with warnings.catch_warnings():
            warnings.simplefilter('ignore')
            for test in folds:
                tr = [i for i in range(n) if i not in set(test)]
                for c in range(m):
                    est = clone(cands[c]).fit(X[tr], y[tr])
                    cv[test, c] = proba_of(est, X[test], case['loss'])
            raw, _ = nnls(cv, y)
            full = [clone(cands[c]).fit(X, y) for c in range(m)]
            Pq = np.column_stack([proba_of(f, Xq, case['loss']) for f in full])
    finally:
        LOGGING[0] = True
    chk.h_checked += 1
    if not np.all(raw >= 0):
        chk.discard('reference nnls returned a negative entry')
        return
    # Weights equal up to rounding (candidates tied for the largest weight): the implementation selects on the
    # NORMALISED float weights, and dividing by the float sum can turn a last-bit difference of the raw solution
    # into an exact tie (measured: raw ...74p-1 < ...75p-1, both normalised to 0x1.0000000000002p-2), which the model,
    # normalising in exact rationals, cannot reproduce from the raw solution.  The selection logic is then driven by
    # the weights the implementation itself reports (est_performance['coefs'], exact rationals of the floats: the
    # model must pick their first maximiser), and those weights are compared with the reference to 1e-9.
    top = np.sort(raw)[::-1]
    if case['discrete'] and m >= 2 and out['err'] is None and top[0] >= SQRT_EPS and \
            top[0] - top[1] <= 1e-9 * top[0] and np.all(np.isfinite(out['perf_coefs'])):
        thr_raw = np.where(raw < SQRT_EPS, 0.0, raw)
        chk.k(bool(np.allclose(out['perf_coefs'], thr_raw / thr_raw.sum(), rtol=1e-9, atol=1e-12)),
              'weights before the discrete selection: est_performance vs reference nnls',
              dict(ctx, impl=out['perf_coefs'], reference=(thr_raw / thr_raw.sum()).tolist()))
        raw = np.array(out['perf_coefs'], dtype=float)
        chk.count('sl_k_selection_driven_by_reported_weights')
    rep, line = drv.ask('slfit', n=n, k=k, m=m, thr=rq(SQRT_EPS), raw=enc_list(raw, rq),
                        discrete=int(case['discrete']))
    if out['err'] is not None:
        chk.k(False, 'implementation raised where the model runs', dict(ctx, impl=out['err'], model=rep['status']))
        return
    # (executed: the regenerated lines of SuperLearner.fit, Gen/Stack.lean -- fold loop, coefficient post-processing,
    #  refit decisions; `model` = the hand-written model of Props/C20.lean gives the same, `stored` = every record of the
    #  fold loop stores its predictions in the rows it predicted)
    ok = rep['status'] == 'ok' and rep['trace'] == canon_fit_trace(out['fit_log']) and rep.get('model') == '1' \
        and rep.get('stored') == '1'
    # the model's clones are fresh objects: every fit is on its own object, never on the caller's candidate
    oids = [e['oid'] for e in out['fit_log'] if e['ev'] == 'fit']
    chk.k(len(set(oids)) == len(oids) and not (set(oids) & set(out['orig_ids'])),
          'every fit is issued to a fresh clone (not to the caller\'s object, not to a reused one)', ctx)
    chk.k(ok, 'model reproduces the call sequence of fit', dict(ctx, model=rep.get('trace') if not ok else None,
                                                               impl=canon_fit_trace(out['fit_log']) if not ok else None))
    if rep['coefs'] == 'nan':
        chk.k(all(math.isnan(c) for c in out['perf_coefs']), 'coefficients NaN exactly when the model says so', ctx)
        return
    mc = [float(unrqf(s)) for s in rep['coefs'].split(',')]
    # exact rational model vs float implementation: m divisions and one m-term sum
    chk.k(all(close(a, b_, rtol=1e-12, atol=1e-15) for a, b_ in zip(mc, out['coefs'])) and len(mc) == len(out['coefs']),
          'coefficients: model vs implementation', dict(ctx, model=mc, impl=out['coefs']))
    for c in range(m):
        if case['loss'] == 'l2':
            r2, _ = drv.ask('slerr', loss='l2', y=enc_list(y, rq), p=enc_list(cv[:, c], rq))
            val = float(unrqf(r2['err'])) if r2['status'] == 'ok' else float('nan')
        else:
            r2, _ = drv.ask('slerr', loss='nloglik', b=fx(bounds_of(case)), y=enc_list(y, fx), p=enc_list(cv[:, c], fx))
            val = unfx(r2['err']) if r2['status'] == 'ok' else float('nan')
        # n-term float sums in different association orders
        chk.k(close(val, out['cv_error'][c], rtol=1e-9, atol=1e-12), 'cross-validated error: model vs implementation',
              dict(ctx, cand=c, model=val, impl=out['cv_error'][c]))
    if case['loss'] == 'l2':
        r3, _ = drv.ask('slpredict', loss='l2', coefs=rep['coefs'],
                        preds=';'.join(enc_list(row, rq) for row in Pq))
        mp = [float(unrqf(s)) for s in r3['y'].split(',')] if r3['status'] == 'ok' else []
    else:
        r3, _ = drv.ask('slpredict', loss='nloglik', b=fx(bounds_of(case)), coefs=enc_list(mc, fx),
                        preds=';'.join(enc_list(row, fx) for row in Pq))
        mp = dec_list(r3['y'], unfx) if r3['status'] == 'ok' else []
    chk.k(len(mp) == len(out['pred']) and all(close(a, b_, rtol=1e-9, atol=1e-12) for a, b_ in zip(mp, out['pred']))
          and r3.get('model') == '1',
          'predict: model vs implementation', dict(ctx, model=mp[:5], impl=out['pred'][:5]))


def unrqf(s):
    from fractions import Fraction
    return Fraction(s)


def check_sl(chk, drv, case):
    out, X, y, Xq = run_sl(case)
    n, m, k = len(y), len(case['cands']), case['k']
    chk.case(case, ('SL', case['loss'], case['discrete'], m, k, n, case['data_seed']) if (n % k or m >= 2) else None,
             sample=case if chk.evals % 17 == 0 else None)
    chk.count('sl_' + case['loss'] + ('_discrete' if case['discrete'] else ''))
    chk.count('sl_n_mod_k_nonzero' if n % max(k, 1) else 'sl_n_mod_k_zero')
    for k_ in sorted(case.get('opts') or {}):
        chk.count('sl_opt_' + k_)
    if case.get('matched'):
        chk.count('sl_matched_sets')
    if out['err'] is not None:
        chk.count('sl_impl_exception:' + out['err'].split(':')[0])
    if drv is not None:
        k_superlearner(chk, drv, case, out, X, y, Xq)
    if out['err'] is None:
        d_superlearner(chk, case, out, X, y, Xq)
    elif out['fit_log']:
        chk.d(False, 'SuperLearner.fit / predict raised on a valid input', {'case': case, 'err': out['err']})
    # ---- D: the same data in other containers (lists, pandas with default / shifted / permuted labels) must give
    #      exactly the ndarray result, and the hold-out discipline is judged again on the values the clones received
    keys = ('coefs', 'perf_coefs', 'cv_error', 'pred')
    for how in CONTAINERS:
        o2, _, _, _ = run_sl(case, container=how)
        c2 = dict(case, container=how)
        chk.count('sl_container_' + how)
        if out['err'] is not None:
            chk.d(o2['err'] is not None, 'a configuration rejected for arrays is rejected for every container',
                  {'case': c2, 'err': o2['err']})
            continue
        if o2['err'] is not None:
            chk.d(False, 'SuperLearner.fit / predict raised for a container holding the same data',
                  {'case': c2, 'err': o2['err']})
            continue
        # np.asarray(DataFrame) is column-major, so the candidates' linear algebra (and nnls) may round differently
        # in the last bits: agreement is required to 1e-8 relative (a mis-aligned outcome changes the first digits);
        # lists and Series-only variants go through the same arrays and must agree exactly.  Coefficients are
        # compared only when no two candidates are identical (nnls splits weight between identical columns arbitrarily).
        exact = how in ('list', 'series_y_permuted', 'int_y_permuted')
        specs = [json.dumps(c_, sort_keys=True) for c_ in case['cands']]
        cmp_keys = keys if len(set(specs)) == len(specs) else ('cv_error', 'pred')
        if exact:
            same = json.dumps([o2[k_] for k_ in cmp_keys]) == json.dumps([out[k_] for k_ in cmp_keys])
        else:
            same = all(len(o2[k_]) == len(out[k_]) and
                       all(close(a, b_, rtol=1e-8, atol=1e-10) for a, b_ in zip(o2[k_], out[k_])) for k_ in cmp_keys)
        chk.d(same, 'coefficients, errors and predictions do not depend on the container of X and y',
              {'case': c2, 'array': {k_: out[k_][:4] for k_ in keys}, 'container': {k_: o2[k_][:4] for k_ in keys}})
        d_superlearner(chk, c2, o2, X, y, Xq)


def check_refit(chk, case):
    """history independence of fit: a second fit on the same object must behave like a fresh object"""
    from zepid.superlearner import SuperLearner
    X, y, Xnew = sl_data(case)
    case2 = dict(case, data_seed=case['data_seed'] + 1)
    X2, y2, Xnew2 = sl_data(case2)
    res = {}
    with warnings.catch_warnings(), quiet():
        warnings.simplefilter('ignore')
        for tag in ('fresh', 'refit'):
            sl = sl_make(case, make_cands(case))
            try:
                if tag == 'refit':
                    sl.fit(X, y)
                sl.fit(X2, y2)
                res[tag] = [float(v) for v in sl.predict(Xnew2)]
            except Exception as e:
                res[tag] = '%s: %s' % (type(e).__name__, str(e)[:80])
    chk.case(case, ('SLrefit', case['data_seed']))
    chk.count('sl_refit')
    ok = isinstance(res['fresh'], list) and isinstance(res['refit'], list) and \
        np.allclose(res['fresh'], res['refit'], rtol=1e-9, atol=1e-12, equal_nan=False)
    chk.d(ok, 'predictions after a second fit equal those of a freshly constructed SuperLearner',
          {'case': case, 'fresh': res['fresh'][:4] if isinstance(res['fresh'], list) else res['fresh'],
           'refit': res['refit'][:4] if isinstance(res['refit'], list) else res['refit']})


def _snapshot(cands):
    return [sorted((k_, repr(v)[:60]) for k_, v in c.__dict__.items()) for c in cands]


def check_shared(chk, case):
    """two SuperLearner objects built from the SAME candidate objects: fitting B must not change what A predicts,
    each must predict like an object built from its own fresh candidates, and the caller's candidates stay as
    they were handed in (before / after snapshots)"""
    from zepid.superlearner import SuperLearner
    X1, y1, Xn1 = sl_data(case)
    X2, y2, Xn2 = sl_data(dict(case, data_seed=case['data_seed'] + 7))
    Xq = np.vstack([Xn1, X1[:4]])
    chk.case(case, ('SLshared', case['data_seed']))
    chk.count('sl_shared_candidates')
    res = {}
    LOGGING[0] = False
    try:
        with warnings.catch_warnings(), quiet():
            warnings.simplefilter('ignore')
            try:
                shared = make_cands(case)
                before = _snapshot(shared)
                A = sl_make(case, shared).fit(X1, y1)
                res['A_before'] = [float(v) for v in A.predict(Xq)]
                B = sl_make(case, shared).fit(X2, y2)
                res['A_after'] = [float(v) for v in A.predict(Xq)]
                res['B'] = [float(v) for v in B.predict(Xq)]
                res['untouched'] = _snapshot(shared) == before
                res['A_fresh'] = [float(v) for v in sl_make(case, make_cands(case)).fit(X1, y1).predict(Xq)]
                res['B_fresh'] = [float(v) for v in sl_make(case, make_cands(case)).fit(X2, y2).predict(Xq)]
            except Exception as e:
                res['err'] = '%s: %s' % (type(e).__name__, str(e)[:100])
    finally:
        LOGGING[0] = True
    ctx = {'case': case, 'res': {k_: (v[:4] if isinstance(v, list) else v) for k_, v in res.items()}}
    if 'err' in res:
        chk.d(False, 'SuperLearner objects sharing candidate objects: fit / predict raised', ctx)
        return
    if any(math.isnan(v) for v in res['A_fresh'] + res['B_fresh']):
        return      # the unguarded all-below-threshold case (judged elsewhere)
    chk.d(json.dumps(res['A_before']) == json.dumps(res['A_after']),
          'fitting another SuperLearner built from the same candidate objects does not change a fitted one', ctx)
    chk.d(json.dumps(res['A_after']) == json.dumps(res['A_fresh']) and json.dumps(res['B']) == json.dumps(res['B_fresh']),
          'SuperLearner objects sharing candidate objects predict like objects with their own candidates', ctx)
    chk.k(res['untouched'], 'the caller\'s candidate objects are left as handed in (clones are fitted)', ctx)


def make_sl_case(rng, loss, discrete, m, k, real=False, n=None):
    n = int(n if n is not None else rng.integers(max(10, k), 201))
    cands = []
    for c in range(m):
        if real:
            cands.append({'inner': str(rng.choice(['mean', 'glm', 'step', 'sk'])), 'proba': bool(rng.uniform() < 0.5)})
        else:
            cands.append({'flavor': int(rng.integers(0, 5)), 'proba': bool(loss == 'nloglik' and rng.uniform() < 0.6),
                          'warm': bool(rng.uniform() < 0.4), 'gam': bool(loss == 'nloglik' and rng.uniform() < 0.25)})
    return {'kind': 'sl', 'loss': loss, 'discrete': bool(discrete), 'k': int(k), 'n': n,
            'n_new': int(rng.integers(3, 12)), 'cands': cands, 'data_seed': int(rng.integers(0, 2 ** 31)),
            'opts': make_opts(rng, loss)}


def make_opts(rng, loss):
    """options and calls outside the property's statement, drawn independently of one another (see sl_make)"""
    o = {}
    if rng.uniform() < 0.3:
        o['verbose'] = True
    if rng.uniform() < 0.3:
        o['bounds'] = float(rng.choice([0.05, 0.01, 0.001, 1e-4]))
    if rng.uniform() < 0.3:
        o['loss_spelling'] = 'L2' if loss == 'l2' else str(rng.choice(['NLogLik', 'NLOGLIK']))
    if rng.uniform() < 0.2:
        o['solver'] = 'NNLS'
    if rng.uniform() < 0.3:
        o['summary'] = True
    return o


def make_matched_case(rng, loss, discrete, L, k):
    """matched sets with one group-specific learner per level of column 1 (see sl_data): `tied` levels share the
    outcome of their set, so their learners earn exactly the same weight when the folds cut between sets (80% of
    the cases; otherwise the weights are merely close).  The other levels' learners report their group mean times
    a factor: > 1 earns a smaller weight (the tie is for the LARGEST weight), < 1 a larger one (a tie below it)."""
    t = int(rng.integers(1, 5)) + (2 if loss == 'nloglik' else 0)
    n_sets = int(k) * t if rng.uniform() < 0.8 else int(rng.integers(max(int(k), 4), 40))
    g = int(rng.integers(2, L + 1))
    tied = sorted(int(a) for a in rng.choice(L, size=g, replace=False))
    top = bool(rng.uniform() < 0.75)
    cands = []
    for a in rng.permutation(L):
        a = int(a)
        sc = 1.0 if a in tied else float(rng.choice([1.25, 1.5, 2.0]) if top else rng.choice([0.5, 0.8]))
        cands.append({'flavor': 5, 'arm': a, 'scale': sc, 'proba': bool(loss == 'nloglik' and rng.uniform() < 0.6),
                      'warm': bool(rng.uniform() < 0.3)})
    return {'kind': 'sl', 'loss': loss, 'discrete': bool(discrete), 'k': int(k), 'n': n_sets * L,
            'n_new': int(rng.integers(3, 12)), 'cands': cands, 'data_seed': int(rng.integers(0, 2 ** 31)),
            'matched': {'arms': int(L), 'tied': tied, 'shifted': [a for a in range(L) if a not in tied],
                        'decimals': int(rng.choice([0, 1, 3]))},
            'opts': make_opts(rng, loss)}


# --------------------------------------------------------------------------------------------- StepwiseSL
def expand(X, order):
    cols = [X[:, j] for j in range(X.shape[1])]
    for size in range(2, order + 2):
        for co in itertools.combinations(range(X.shape[1]), size):
            cols.append(np.prod(X[:, co], axis=1))
    return np.column_stack(cols)


def sw_data(case):
    r = np.random.default_rng(case['data_seed'])
    n, q = case['n'], case['q']
    while True:
        X = np.round(r.normal(size=(n, q)), 2)
        for j in range(q):
            if r.uniform() < 0.3:
                X[:, j] = (X[:, j] > 0).astype(float)
        Xu = expand(X, min(case['order'], q))
        if len({tuple(Xu[:, j]) for j in range(Xu.shape[1])} | {tuple(np.ones(n))}) == Xu.shape[1] + 1:
            break
    beta = r.normal(size=q) * (r.uniform(size=q) < 0.6)
    lin = 0.2 + X @ beta * 0.5
    if case.get('rare'):          # rare outcome / low counts with one real predictor
        lin = -2.2 + 1.6 * X[:, 0]
    if case['family'] == 'gaussian':
        y = np.round(lin + r.normal(size=n), 3)
    elif case['family'] == 'binomial':
        y = (r.uniform(size=n) < 1 / (1 + np.exp(-lin))).astype(float)
    else:
        y = r.poisson(np.exp(np.clip(lin, -2, 2))).astype(float)
    return X, y, Xu


def family_of(case):
    import statsmodels.api as sm
    return {'gaussian': sm.families.family.Gaussian, 'binomial': sm.families.family.Binomial,
            'poisson': sm.families.family.Poisson}[case['family']]()


def injected(case, cols):
    return case['nan_rate'] > 0 and (zlib.crc32(repr((case['data_seed'], tuple(cols))).encode()) % 100) < case['nan_rate']


class _Res:
    def __init__(self, res, aic):
        self._res = res
        self.aic = aic

    def __getattr__(self, k):
        return getattr(self._res, k)


def run_stepwise(case):
    """run StepwiseSL.fit with sm.GLM wrapped in the estimators module (this process only)"""
    import statsmodels.api as real_sm
    import zepid.superlearner.estimators as est_mod
    X, y, Xu = sw_data(case)
    colkey = {tuple(Xu[:, j]): j for j in range(Xu.shape[1])}
    log = []

    class _Model:
        def __init__(self, endog, exog, **kw):
            exog = np.asarray(exog)
            self.cols = [colkey.get(tuple(exog[:, j]), -1) for j in range(1, exog.shape[1])]
            self.inner = real_sm.GLM(endog, exog, **kw)

        def fit(self, *a, **kw):
            res = self.inner.fit(*a, **kw)
            aic = float('nan') if injected(case, self.cols) else float(res.aic)
            log.append((list(self.cols), aic))
            return _Res(res, aic)

    class _Proxy:
        GLM = _Model
        families = real_sm.families

    saved = est_mod.sm
    est_mod.sm = _Proxy
    out = {'err': None}
    try:
        with warnings.catch_warnings():
            warnings.simplefilter('ignore')
            kw = {'verbose': True} if case.get('verbose') else {}
            s = est_mod.StepwiseSL(family=family_of(case), selection=case['dir'], order_interaction=case['order'], **kw)
            with quiet():
                s.fit(X, y)
            out['cols'] = [int(c) for c in s.cols_optim]
            out['aic'] = float(s.model_optim.aic)
    except Exception as e:
        out['err'] = '%s: %s' % (type(e).__name__, str(e)[:80])
    finally:
        est_mod.sm = saved
    out['log'] = log
    return out, X, y, Xu


def ref_aic(case, y, Xu, cols):
    """reference GLM fit made by the harness -> (aic, trustworthy).  The reference is trustworthy only when the
    fit converged to a genuine optimum: statsmodels reports convergence, emits no warning (perfect separation,
    overflow, rank deficiency), the AIC is finite and no fitted mean sits on the boundary.  Under (quasi-)separation
    IRLS stops at an arbitrary point and two fits of the same design need not report the same AIC: such a
    reference fails its own assumption and is a discard (gate H), never a disagreement."""
    import statsmodels.api as sm
    if injected(case, cols):
        return float('nan'), True
    try:
        with warnings.catch_warnings(record=True) as w:
            warnings.simplefilter('always')
            ex = np.hstack([np.ones((len(y), 1)), Xu[:, list(cols)]])
            res = sm.GLM(y, ex, family=family_of(case)).fit()
            aic = float(res.aic)
            mu = np.asarray(res.fittedvalues, dtype=float)
        ok = bool(res.converged) and not w and math.isfinite(aic) and bool(np.all(np.isfinite(mu)))
        if ok and case['family'] == 'binomial':
            ok = bool(mu.min() > 1e-6 and mu.max() < 1 - 1e-6)
        if ok and case['family'] == 'poisson':
            ok = bool(mu.min() > 1e-8)
        if ok and np.linalg.matrix_rank(ex) < ex.shape[1]:
            ok = False
        return aic, ok
    except Exception:
        return float('nan'), False


def enc_cols(c):
    return '.'.join(str(int(v)) for v in c) if len(c) else '-'


def check_stepwise(chk, drv, case):
    out, X, y, Xu = run_stepwise(case)
    p = Xu.shape[1]
    log = out['log']
    steps_taken = (p - len(out['cols'])) if (out['err'] is None and case['dir'] == 'backward') else \
        (len(out['cols']) if out['err'] is None else 0)
    chk.case(case, ('SW', case['dir'], case['family'], case['order'], case['q'], case['data_seed'])
             if steps_taken >= 1 else None, sample=case if chk.evals % 29 == 0 else None)
    chk.count('sw_%s_%s' % (case['dir'], case['family']))
    chk.count('sw_steps_%d' % min(steps_taken, 3))
    if case['nan_rate']:
        chk.count('sw_nan_injected')
    if case.get('verbose'):
        chk.count('sw_verbose_' + case['dir'])
    start = list(range(p)) if case['dir'] == 'backward' else []
    # ---- D (before any early return of K): the search space is the documented one.  `order_interaction=k` explores
    # the main effects and every interaction up to order k (a product of up to k+1 distinct columns); backward
    # selection "starts from the full model inclusion", forward selection tries every term as its first step.
    if log and not any(-1 in c for c, _ in log):
        if case['dir'] == 'backward':
            absent = sorted(set(range(p)) - set(log[0][0]))
            chk.d(not absent, 'backward selection starts from the full model (all main effects and all interactions '
                  'up to the requested order)', {'case': case, 'terms_documented': p, 'absent_from_first_model': absent,
                                                 'first_model': log[0][0]} if absent else None)
        elif out['err'] is None:
            tried = {c[0] for c, _ in log if len(c) == 1}
            absent = sorted(set(range(p)) - tried)
            chk.d(not absent, 'forward selection tries every documented term (main effects and interactions up to the '
                  'requested order) as its first step', {'case': case, 'terms_documented': p,
                                                         'never_tried_alone': absent} if absent else None)
    if any(-1 in c for c, _ in log):
        chk.k(False, 'a GLM design column could not be matched to a column of the expanded design',
              {'case': case})
        return
    if not log or log[0][0] != start:
        chk.k(False, 'first GLM fit is the starting model', {'case': case, 'log0': log[:1]})
        return
    # the AIC table the proxy logged is what the implementation saw and what the model consumes; it also drives D.
    # Reference fits by the harness are used only where the table has no entry, and only when well conditioned.
    table = {}
    for c, a in log:
        table.setdefault(tuple(c), a)
    a0 = log[0][1]
    if math.isinf(a0) or any(math.isinf(a) and a < 0 for _, a in log):
        chk.discard('non-finite AIC (outside the model)')
        return
    # H: statsmodels reports the same AIC on refit (reference invocation) -- judged only for a trustworthy reference
    r0, ok0 = ref_aic(case, y, Xu, start)
    chk.h_checked += 1
    if not ok0:
        chk.discard('reference GLM of the starting model not at a genuine optimum (separation / non-convergence)')
    elif not close(a0, r0, rtol=1e-9):
        chk.k(False, 'starting model: logged AIC = reference AIC (well-conditioned reference)',
              {'case': case, 'logged': a0, 'ref': r0})      # gate D below still judges the result
    # ---- K: the model, driven by the logged AIC table, reproduces visited sequence and selected columns
    if drv is not None:
        tab = ';'.join('%s:%s' % (enc_cols(c), 'nan' if (math.isnan(a) or a == math.inf) else fx(a)) for c, a in log)
        rep, line = drv.ask('stepwise', dir=case['dir'], p=p, tab=tab)
        if out['err'] is not None:
            ok = rep['status'] == 'err' and rep.get('err') == 'startNaN' and math.isnan(a0)
        else:
            ok = rep['status'] == 'ok' and rep['cols'] == enc_cols(out['cols']) and rep['done'] == '1' and \
                unfx(rep['aic']) == out['aic'] and \
                rep['visited'] == ';'.join(enc_cols(c) for c, _ in log[1:])
        # executed: the search driven by the column bookkeeping regenerated from StepwiseSL.fit (Gen/Stepwise.lean);
        # `model` = the hand-written Stepwise.search agrees (search_generated)
        ok = ok and rep.get('model') == '1'
        chk.k(ok, 'stepwise: model reproduces visited sequence, cols_optim and AIC',
              {'case': case, 'model': rep, 'impl': {k_: out.get(k_) for k_ in ('cols', 'aic', 'err')},
               'log': [(enc_cols(c), a) for c, a in log][:40]} if not ok else None)
    # ---- D: the property on the implementation's result
    if out['err'] is not None:
        chk.d(math.isnan(a0), 'StepwiseSL.fit raises only when the starting model has no AIC',
              {'case': case, 'err': out['err'], 'start_aic': a0})
        return

    def aic_of(cols):
        """AIC the implementation saw for this design if it fitted it, else a trustworthy reference, else None"""
        if tuple(cols) in table:
            return table[tuple(cols)]
        r, ok_ = ref_aic(case, y, Xu, cols)
        chk.h_checked += 1
        return r if ok_ else None

    tol = 1e-9 * max(1.0, abs(a0))
    # the AIC of a model is its AIC under the REQUESTED family: the returned and the starting model are judged by a
    # trustworthy reference fit of that family when there is one (the logged value otherwise)
    rret, okret = (r0, ok0) if list(out['cols']) == start else ref_aic(case, y, Xu, out['cols'])
    chk.h_checked += 1
    if not okret:
        chk.discard('reference GLM of the returned model not at a genuine optimum')
        got = table.get(tuple(out['cols']))
    else:
        got = rret
    if got is not None:
        chk.d(close(got, out['aic'], rtol=1e-9), 'model_optim is the GLM (requested family) on cols_optim',
              {'case': case, 'cols': out['cols'], 'expected': got, 'impl': out['aic']})
    ret = got if got is not None else out['aic']
    start_aic = r0 if ok0 else a0
    chk.d(ret <= start_aic + tol, 'returned AIC is not worse than the starting AIC',
          {'case': case, 'start': start_aic, 'returned': ret, 'cols': out['cols']})
    if case['dir'] == 'backward':
        alts = [[c for c in out['cols'] if c != d_] for d_ in out['cols']]
    else:
        alts = [out['cols'] + [v] for v in range(p) if v not in out['cols']]
    for alt in alts:
        a = aic_of(alt)
        if a is None:
            chk.discard('reference GLM of an admissible step not at a genuine optimum')
            continue
        chk.d(not (a < ret - tol), 'no admissible single step from the returned model lowers AIC',
              {'case': case, 'cols': out['cols'], 'alt': alt, 'alt_aic': a, 'returned': ret})


def check_estimators(chk, case):
    """container invariance of the stand-alone candidate estimators (EmpiricalMeanSL, GLMSL, StepwiseSL): the
    outcome as a pandas Series with default / shifted / permuted labels, and X as a DataFrame where the estimator
    takes one (StepwiseSL indexes X[:, cols], i.e. arrays only), must give exactly the ndarray result"""
    import pandas as pd
    import statsmodels.api as sm
    from zepid.superlearner import EmpiricalMeanSL, GLMSL, StepwiseSL
    r = np.random.default_rng(case['data_seed'])
    n = case['n']
    X = np.round(r.normal(size=(n, 3)), 3)
    lin = 0.3 + 0.8 * X[:, 0] - 0.5 * X[:, 2]
    binary = case['family'] == 'binomial'
    y = (r.uniform(size=n) < 1 / (1 + np.exp(-lin))).astype(float) if binary else np.round(lin + r.normal(size=n), 3)
    Xq = np.round(r.normal(size=(7, 3)), 3)
    perm = np.roll(np.arange(n), 1) if n < 3 else r.permutation(n)
    fam = (sm.families.family.Binomial if binary else sm.families.family.Gaussian)

    def make(name):
        return {'mean': lambda: EmpiricalMeanSL(), 'glm': lambda: GLMSL(family=fam()),
                'step_b': lambda: StepwiseSL(family=fam(), selection='backward', order_interaction=1),
                'step_f': lambda: StepwiseSL(family=fam(), selection='forward', order_interaction=0)}[name]()

    def go(name, Xa, ya, Xqa):
        with warnings.catch_warnings():
            warnings.simplefilter('ignore')
            try:
                e = make(name).fit(Xa, ya)
                return [float(v) for v in np.asarray(e.predict(Xqa))] + \
                    ([float(c) for c in e.cols_optim] if name.startswith('step') else [])
            except Exception as ex:
                return '%s: %s' % (type(ex).__name__, str(ex)[:80])

    chk.case(case, ('EST', case['family'], case['data_seed']))
    for name in ('mean', 'glm', 'step_b', 'step_f'):
        base = go(name, X, y, Xq)
        variants = {'series_default': (X, pd.Series(y), Xq),
                    'series_shifted': (X, pd.Series(y, index=np.arange(n) + n + 3), Xq),
                    'series_permuted': (X, pd.Series(y, index=perm), Xq),
                    'series_int_permuted': (X, pd.Series(y.astype(int) if binary else y, index=perm), Xq)}
        if not name.startswith('step'):
            variants['frame_permuted'] = (pd.DataFrame(X, index=perm), pd.Series(y, index=perm),
                                          pd.DataFrame(Xq, index=np.arange(7)[::-1] + 5))
        for how, (Xa, ya, Xqa) in variants.items():
            got = go(name, Xa, ya, Xqa)
            chk.count('est_container')
            if how.startswith('frame'):      # column-major np.asarray(DataFrame): last-bit differences allowed
                ok = isinstance(base, list) and isinstance(got, list) and len(got) == len(base) and \
                    all(close(a, b_, rtol=1e-8, atol=1e-10) for a, b_ in zip(got, base))
            else:
                ok = isinstance(base, list) and json.dumps(got) == json.dumps(base)
            chk.d(ok, 'stand-alone estimator: fit/predict do not depend on the container of X and y',
                  {'case': dict(case, estimator=name, container=how), 'array': base if not isinstance(base, list)
                   else base[:4], 'container': got if not isinstance(got, list) else got[:4]})


def make_sw_case(rng, d, fam, order, q, nan_rate):
    return {'kind': 'sw', 'dir': d, 'family': fam, 'order': int(order), 'q': int(q),
            'n': int(rng.integers(30, 120)), 'nan_rate': int(nan_rate), 'data_seed': int(rng.integers(0, 2 ** 31)),
            # the progress report (documented option, prints only): must not matter for the search
            'verbose': bool(rng.uniform() < 0.5)}


# --------------------------------------------------------------------------------------------- driver
def guarded(chk, fn, *args):
    """an exception escaping a check (zEpid raising on a valid input, or anything the harness cannot digest) is a
    D failure with a replay for that case, never a tool failure (exit 2)"""
    try:
        fn(*args)
    except Exception as e:
        import traceback
        chk.d(False, 'case could not be completed: %s: %s' % (type(e).__name__, str(e)[:120]),
              {'case': args[-1], 'traceback': traceback.format_exc()[-1500:]})


def run(chk, drv, rng, tier):
    def check_sl_(c):
        guarded(chk, check_sl, chk, drv, c)

    def check_stepwise_(c):
        guarded(chk, check_stepwise, chk, drv, c)

    def check_refit_(c):
        guarded(chk, check_refit, chk, c)
        guarded(chk, check_shared, chk, dict(c, discrete=False))
        guarded(chk, check_shared, chk, dict(c, discrete=True, data_seed=c['data_seed'] + 11))
    _run(chk, drv, rng, tier, check_sl_, check_stepwise_, check_refit_)
    for i in range(6 if tier == 'quick' else 60):
        guarded(chk, check_estimators, chk, {'kind': 'est', 'family': ('gaussian', 'binomial')[i % 2],
                                             'n': int(rng.integers(25, 90)),
                                             'data_seed': int(rng.integers(0, 2 ** 31))})


def _run(chk, drv, rng, tier, check_sl_, check_stepwise_, check_refit_):
    reps = 3 if tier == 'quick' else 40
    for rep in range(reps):
        for loss in ('l2', 'nloglik'):
            for discrete in (False, True):
                for m in range(1, 6):
                    for k in rng.choice(np.arange(2, 11), size=2, replace=False):
                        check_sl_(make_sl_case(rng, loss, discrete, m, int(k)))
                # spies wrapping real learners
                for m in (2, 4):
                    check_sl_(make_sl_case(rng, loss, discrete, m, int(rng.integers(2, 6)), real=True,
                                                    n=int(rng.integers(40, 120))))
            # configurations KFold rejects, tiny n = folds, all-zero outcome, second fit
            check_sl_(make_sl_case(rng, loss, False, 2, 7, n=5))
            check_sl_(make_sl_case(rng, loss, False, 2, 1, n=12))
            check_sl_(make_sl_case(rng, loss, False, 3, 10, n=10))
            z = make_sl_case(rng, loss, bool(rep % 2), 2, 3)
            z['zero_y'] = True
            z['cands'] = [{'flavor': 0}, {'flavor': 2}]
            check_sl_(z)
            check_refit_(make_sl_case(rng, loss, False, 3, 3))
            # matched sets with group-specific learners: candidates exactly tied for the largest weight
            for L in (2, 3, 4):
                check_sl_(make_matched_case(rng, loss, True, L, int(rng.integers(2, 11))))
            check_sl_(make_matched_case(rng, loss, False, int(rng.integers(2, 5)), int(rng.integers(2, 11))))
        for d in ('backward', 'forward'):
            for fam in ('gaussian', 'binomial', 'poisson'):
                for order in (0, 1, 2):
                    for q in (1, 2, 3, 4):
                        nan_rate = 25 if (q + order + rep) % 3 == 0 else 0
                        check_stepwise_(make_sw_case(rng, d, fam, order, q, nan_rate))
                # rare binary outcome / low counts with a real predictor (both directions, non-Gaussian families)
                if fam != 'gaussian':
                    c = make_sw_case(rng, d, fam, int(rng.integers(0, 2)), int(rng.integers(1, 4)), 0)
                    c['rare'] = True
                    c['n'] = int(rng.integers(80, 160))
                    check_stepwise_(c)
        # NaN AIC of the starting model (backward: documented ValueError; forward: search cannot start)
        for d in ('backward', 'forward'):
            c = make_sw_case(rng, d, 'gaussian', 0, 2, 100)
            check_stepwise_(c)


def replay(rec):
    import common
    chk = common.Check('C20', 'replay', 0)
    drv = common.Driver() if __import__('os').path.exists(common.DRIVER) else None
    for f in rec.get('failures', []):
        case = (f.get('case') or {}).get('case')
        if not case:
            print('no replayable case for', f.get('what'))
            continue
        print('replaying', case)
        case = {k_: v for k_, v in case.items() if k_ not in ('container', 'estimator')}
        if case['kind'] == 'sw':
            check_stepwise(chk, drv, case)
        elif case['kind'] == 'est':
            check_estimators(chk, case)
        elif 'sharing candidate' in (f.get('what') or '') or 'built from the same candidate' in (f.get('what') or ''):
            check_shared(chk, case)
        elif 'second fit' in (f.get('what') or ''):
            check_refit(chk, case)
        else:
            check_sl(chk, drv, case)
    if drv is not None:
        drv.close()
    for f in chk.d_fail + chk.k_fail:
        print(' FAILS:', f['gate'], f['what'])
    print(' known findings hit:', sorted(chk.known_hits))
    print('replay: %d failing predicate(s)' % (len(chk.d_fail) + len(chk.k_fail)))
    return 1 if (chk.d_fail or chk.k_fail) else 0
