"""C13 -- MonteCarloGFormula simulates well-formed histories that obey the treatment plan.

K: `MonteCarloGFormula._predict` is wrapped in this process (monkeypatch at run time, /repo is not edited) to log
   -- and, in 'pinned' mode, replace -- the draws and to capture the frame every model sees.  The Lean model
   (`ZV.MC.fit`, lean/ZepidVerif/Model/MonteCarlo.lean, run by the native driver at carrier Rat) replays the same
   draws from the same sampled baseline rows; `predicted_outcomes` (full and low_memory), the number of steps every
   individual took and every captured frame are compared exactly.
D: the clauses of the property evaluated directly on `predicted_outcomes` (and, for the clauses the output does
   not expose -- censoring, lag columns --, on the captured draws / frames).
H: `model.predict` returned one probability per row, `_predict` one 0/1 value per row, `DataFrame.sample`
   `sample` rows.
The RNG is outside the model: every identity is stated for the captured draws, whatever produced them.
"""
import itertools
import math
import re
from fractions import Fraction

import numpy as np
import pandas as pd

from common import rq, enc_list, dec_list

REQUIRED = ['hist_length', 'sample_individuals', 'no_record_after_stop', 'record_unc01', 'record_01',
            'outcome_sign_of_untouched', 'last_record_terminal',
            'at_most_one_event', 'event_is_last', 'times_consecutive', 'within_tmax', 'censored_outcome_zero',
            'plan_all', 'plan_none', 'plan_natural', 'plan_custom', 'plan_custom_on_record',
            'lag_first_step', 'lag_prev_step', 'lag_prev_record', 'lowmem_one', 'lowmem_eq_last_of_full',
            'lowmem_uids', 'fit_rejects_iff', 'lag_prev_chain', 'lag_order_irrelevant', 'lag_after_out_recode',
            'lag_running_count',
            # Props/C13_Gen.lean: the loop's bookkeeping as regenerated from MonteCarloGFormula.fit
            'mc_step_generated', 'mc_filters_generated', 'mc_history_generated', 'no_record_after_stop_generated',
            'within_tmax_generated', 'times_consecutive_generated', 'plan_all_none_generated', 'lowmem_generated']
RULE = ('person-period data sets generated here (id, t_in/t_out, binary time-varying L, L2, continuous W, exposure A, '
        'outcome Y, drop-out, lag columns, optional integer weights); nuisance models fitted by zEpid itself; every '
        'cell of plan {all, none, natural, custom rule from the Cond grammar} x covariate models {none, L, L+W '
        'continuous, L+L2 with labels against call order} x censoring model {no, yes} x lags {none, first order, '
        'second-order chain in both listing orders, optionally a lag of the running count kept by out_recode} is run with random sample size 1..200, t_max 1..6 or None, recode strings from the '
        'Assign grammar, np.random draws or pinned draws, and both memory modes with the same seed; 30% of the cases fit the reused object with another horizon/plan/sample first, 20% are compared with a fresh object; late entry (first observed record opening at time 1 or 2) for 40% of the individuals, an unused NaN column, integer or fractional weights, positional or keyword construction, out_recode programs that rewrite the outcome column (no event while L = 0 / event forced by L2 = 1); ids are ints or strings, columns int64 / int8 / int32, t_max an int / np.int64 / integral float; the continuous covariate W with its baseline value and its lag column W_l1 is stored as floats or (two data seeds in three) as whole numbers in int64 / int32 columns, and W -> W_l1 joins the lags at a random place whenever lags are given and W is simulated (a quarter of the other lagged cases; always under a rule that reads W_l1); the columns reach zEpid under one of three namings (canonical; names containing the plan words all / none / natural such as fall, overall, none_yet, small_vessel; names nested in one another such as t / t_end / art / art_l1 / event / event_id) and are read back into the canonical ones; a custom rule is also judged on predicted_outcomes alone whenever everything it reads can be rebuilt from the records (simulated covariates, time_in, lagged variables through the previous record, baseline constants). distinct = '
        'distinct (cell, data seed, np seed, sample, t_max); non-trivial = at least one history stops before t_max '
        'and at least one reaches it')
ASSUMPTIONS = ['statsmodels results.predict(frame) returns one probability in [0,1] per row of the frame (measured '
               'on every call of the full-output run of every case; the low-memory run repeats it with the same seed)',
               'np.random.binomial / normal return one value per row; the draws themselves are arbitrary (the model '
               'is parametric in them, nothing is assumed about the RNG)',
               'DataFrame.sample(n, replace=True) returns n rows of the baseline rows (measured)',
               'non-integer t_max is outside the documented domain (t_max : int) and is not judged',
               'recode / treatment strings are generated from the modelled grammar only (arbitrary exec strings '
               'are not modelled)']

NAMES = ['A', 'Y', 't_in', 't_out', 'uncensored', 'L', 'L2', 'W', 'A_l1', 'A_l2', 'L_l1', 'W0', 'cumA', 't_sq', 'cumL', 'cumA_l1',
         'W_l1']
CID = {n: i for i, n in enumerate(NAMES)}
BASECOLS = [n for n in NAMES if n != 'uncensored']

# --------------------------------------------------------------------------- the caller's own column names
# The check speaks about the columns by the canonical names above; what zEpid is given (frame, constructor arguments,
# model formulas, recode / rule strings, the lags dictionary) carries the names of the case's alias and what comes
# back (predicted_outcomes, the frames the models see) is read back into the canonical ones.  No clause of the
# property depends on a name: names that contain the words the plan argument uses ('all', 'none', 'natural'), names
# that are pieces of one another (beyond A / A_l1 / A_l2, L / L2 / L_l1, W / W0 / W_l1, which nest already), one-letter
# time columns.  ('uncensored' and 'uid_g_zepid' are zEpid's own working columns and are not the caller's to use.)
ALIASES = {
    'plain': {},
    'keywords': {'L': 'fall', 'L_l1': 'fall_l1', 'L2': 'small_vessel', 'W': 'overall', 'W0': 'overall0',
                 'W_l1': 'overall_l1', 'cumA': 'none_yet', 'cumA_l1': 'none_yet_l1', 'cumL': 'falls',
                 't_sq': 'natural_t', 'id': 'recall_id', 'wt': 'allocation'},
    'nested': {'Y': 'event', 'id': 'event_id', 't_in': 't', 't_out': 't_end', 'A': 'art', 'A_l1': 'art_l1',
               'A_l2': 'art_l1_l1', 'wt': 'w', 'cumA': 'art_n', 'cumA_l1': 'art_n_l1'},
}
_IDENT = re.compile(r'[A-Za-z_][A-Za-z_0-9]*')


def alias_of(spec):
    return ALIASES[spec.get('alias') or 'plain']


def ren(a, name):
    return a.get(name, name)


def nsub(a, text):
    """a formula / recode program / rule written with the canonical names, in the caller's names"""
    return text if (text is None or not a) else _IDENT.sub(lambda m: a.get(m.group(0), m.group(0)), text)


# --------------------------------------------------------------------------- grammar (shared with the Lean model)
def e_py(e):
    k = e[0]
    if k == 'var':
        return "g['%s']" % e[1]
    if k == 'const':
        return repr(e[1]) if e[1] >= 0 else '(%r)' % (e[1],)
    return '(%s %s %s)' % (e_py(e[1]), '+' if k == 'add' else '*', e_py(e[2]))


def e_tok(e):
    k = e[0]
    if k == 'var':
        return ['v%d' % CID[e[1]]]
    if k == 'const':
        return ['c' + rq(e[1])]
    return [k] + e_tok(e[1]) + e_tok(e[2])


def e_val(e, row):
    k = e[0]
    if k == 'var':
        return row[e[1]]
    if k == 'const':
        return e[1]
    a, b = e_val(e[1], row), e_val(e[2], row)
    return a + b if k == 'add' else a * b


CMP_PY = {'eq': '==', 'ne': '!=', 'lt': '<', 'le': '<=', 'gt': '>', 'ge': '>='}


def c_py(c):
    k = c[0]
    if k in CMP_PY:
        return '(%s %s %s)' % (e_py(c[1]), CMP_PY[k], e_py(c[2]))
    if k == 'not':
        return '(~%s)' % c_py(c[1])
    return '(%s %s %s)' % (c_py(c[1]), '&' if k == 'and' else '|', c_py(c[2]))


def c_tok(c):
    k = c[0]
    if k in CMP_PY:
        return [k] + e_tok(c[1]) + e_tok(c[2])
    if k == 'not':
        return ['not'] + c_tok(c[1])
    return [k] + c_tok(c[1]) + c_tok(c[2])


def c_val(c, row):
    k = c[0]
    if k in CMP_PY:
        a, b = e_val(c[1], row), e_val(c[2], row)
        return {'eq': a == b, 'ne': a != b, 'lt': a < b, 'le': a <= b, 'gt': a > b, 'ge': a >= b}[k]
    if k == 'not':
        return not c_val(c[1], row)
    if k == 'and':
        return c_val(c[1], row) and c_val(c[2], row)
    return c_val(c[1], row) or c_val(c[2], row)


def e_reads(e):
    if e[0] == 'var':
        return {e[1]}
    if e[0] == 'const':
        return set()
    return e_reads(e[1]) | e_reads(e[2])


def c_reads(c):
    if c[0] in CMP_PY:
        return e_reads(c[1]) | e_reads(c[2])
    if c[0] == 'not':
        return c_reads(c[1])
    return c_reads(c[1]) | c_reads(c[2])


def s_py(stmts):
    return '; '.join("g['%s'] = %s" % (d, e_py(e)) for d, e in stmts) if stmts else None


def s_tok(stmts):
    return ';'.join('%d:%s' % (CID[d], ','.join(e_tok(e))) for d, e in stmts) if stmts else '[]'


# --------------------------------------------------------------------------- data
def gen_data(seed, n, T, weights):
    """long-format person-period data; deterministic in its arguments"""
    rng = np.random.default_rng([1301, int(seed)])
    b = rng.uniform(-0.4, 0.4, size=8)
    rows = []
    for i in range(n):
        pid = 100 + 3 * i
        L_l1 = int(rng.integers(0, 2))
        A_l1 = int(rng.uniform() < 0.3)
        A_l2 = int(rng.uniform() < 0.3)
        W0 = float(np.round(rng.normal(), 3))
        w = int(rng.integers(1, 4))
        cumA, cumL, cumA_l1 = 0, 0, 0
        W_l1 = W0                                   # the measurement before follow-up opens
        t0 = int(rng.choice([0, 0, 0, 1, 2]))      # late entry: the first observed record need not open at time 0
        for t in range(t0, T):
            L = int(rng.uniform() < 0.35 + 0.25 * L_l1 + 0.1 * A_l1 + 0.1 * b[0])
            L2 = int(rng.uniform() < 0.4 + 0.2 * L + 0.1 * b[1])
            W = float(np.round(0.5 * L + 0.3 * W0 + rng.normal(), 3))
            A = int(rng.uniform() < 0.25 + 0.3 * L + 0.2 * A_l1 + 0.1 * b[2])
            Y = int(rng.uniform() < 0.10 + 0.08 * L - 0.04 * A + 0.02 * t + 0.05 * b[3])
            C = int(rng.uniform() < 0.10 + 0.05 * L)
            rows.append(dict(id=pid, t_in=t, t_out=t + 1, L=L, L2=L2, W=W, A=A, Y=Y, A_l1=A_l1, A_l2=A_l2, L_l1=L_l1,
                             W0=W0, cumA=cumA, cumL=cumL, t_sq=t * t, wt=w, cumA_l1=cumA_l1, W_l1=W_l1))
            if Y or C:
                break
            A_l2, A_l1, L_l1, W_l1 = A_l1, A, L, W
            cumA_l1 = cumA + A          # the count at the end of this interval (out_recode runs before the lags)
            cumA += A
            cumL += L
    df = pd.DataFrame(rows)
    if weights == 'frac':                      # non-integer, non-mean-one weights
        df['wt'] = df['wt'] * 0.37 + 0.21
    if int(seed) % 2 == 1:                     # an unused column with missing values in the caller's frame
        df['junk'] = np.where(np.arange(len(df)) % 3 == 0, np.nan, 1.5)
    # container / dtype variance (by data seed): string ids, fixed-width integer columns; the continuous covariate
    # recorded as a whole number (a count such as CD4: W, its baseline value and its lag column are integer columns of
    # the caller's frame -- what is simulated for it is continuous all the same)
    if int(seed) % 3 != 0:
        for c in ('W', 'W0', 'W_l1'):
            df[c] = np.round(df[c] * 10).astype(np.int64 if int(seed) % 3 == 1 else np.int32)
    if int(seed) % 3 == 1:
        df['id'] = ['p%04d' % v for v in df['id']]
    if int(seed) % 3 == 2:
        for c in ('L', 'L2', 'A', 'Y', 'A_l1', 'A_l2', 'L_l1'):
            df[c] = df[c].astype(np.int8)
        for c in ('t_in', 't_out', 'cumA', 'cumL', 'cumA_l1', 't_sq'):
            df[c] = df[c].astype(np.int32)
    # shuffled row order and a non-default index: the class sorts by (id, t_out) itself
    df = df.sample(frac=1.0, random_state=int(seed) % 1000).reset_index(drop=True)
    df.index = df.index + 7
    return df


COVSETS = {
    'none': [],
    'L': [dict(label=1, col='L', model='L_l1 + A_l1 + t_in + cumA_l1', typ='binary')],
    'LW': [dict(label=1, col='L', model='L_l1 + A_l1 + t_in', typ='binary'),
           dict(label=2, col='W', model='L + W0 + t_in', typ='continuous')],
    # labels against call order: L2 (label 5) is added first but must be predicted after L (label 2)
    'L2rev': [dict(label=5, col='L2', model='L + t_in', typ='binary'),
              dict(label=2, col='L', model='L_l1 + A_l1 + t_in', typ='binary')],
}
_FITTED = {}


class ExternalFitFailure(Exception):
    """the reference GLM/GLS fit itself failed (separation, singular design): a discard, never zEpid's excuse"""


def fitted(spec, fresh=False):
    """zEpid object with its nuisance models fitted (cached per data/model configuration; `fresh` bypasses and
    does not touch the cache)"""
    from zepid.causal.gformula import MonteCarloGFormula
    key = (spec['data_seed'], spec['n'], spec['T'], spec['weights'], spec['covs'], spec['cens'],
           repr(spec.get('covrec')), bool(spec.get('positional')), spec.get('alias') or 'plain')
    if key in _FITTED and not fresh:
        return _FITTED[key]
    if len(_FITTED) > 40:
        _FITTED.clear()
    df = gen_data(spec['data_seed'], spec['n'], spec['T'], spec['weights'])
    a = alias_of(spec)
    dfa = df.rename(columns=a)                   # what the caller hands over; `df` keeps the canonical names
    wt = ren(a, 'wt') if spec['weights'] else None
    if spec.get('positional'):
        gf = MonteCarloGFormula(dfa, ren(a, 'id'), ren(a, 'A'), ren(a, 'Y'), ren(a, 't_in'), ren(a, 't_out'), wt)
    else:
        gf = MonteCarloGFormula(dfa, idvar=ren(a, 'id'), exposure=ren(a, 'A'), outcome=ren(a, 'Y'),
                                time_out=ren(a, 't_out'), time_in=ren(a, 't_in'), weights=wt)
    gf.exposure_model(nsub(a, 'L + A_l1 + t_in + cumA_l1'), print_results=False)
    gf.outcome_model(nsub(a, 'A + L + A_l1 + t_in'), print_results=False)
    covrec = spec.get('covrec') or {}
    for c in COVSETS[spec['covs']]:
        gf.add_covariate_model(label=c['label'], covariate=ren(a, c['col']), model=nsub(a, c['model']),
                               var_type=c['typ'], recode=nsub(a, s_py(covrec.get(c['col']))), print_results=False)
    if spec['cens']:
        gf.censoring_model(nsub(a, 'A + L + t_in'), print_results=False)
    for m in [gf.exp_model, gf.out_model, gf.cens_model] + list(gf._covariate_models):
        if m is not None and not np.all(np.isfinite(np.asarray(m.params, dtype=float))):
            raise ExternalFitFailure('non-finite coefficients')
    if not fresh:
        _FITTED[key] = (gf, df)
    return gf, df


# --------------------------------------------------------------------------- the tap on _predict
class Tap:
    """Wraps MonteCarloGFormula._predict: logs (kind by position, frame, draws); optionally pins the draws."""

    def __init__(self, gf, spec, seencols, measure=True):
        self.gf = gf
        self.measure = measure    # gate H's reference invocation model.predict(frame): on the full-output run of a case
        self.spec = spec
        self.seencols = seencols
        self.calls = []
        self.alias = alias_of(spec)
        self.unalias = {v: k for k, v in self.alias.items()}
        self.h_ok = True          # reference invocation model.predict(frame) behaved as assumed
        self.draw_ok = True       # what zEpid's _predict returned is one value per row (0/1 for binary models)
        self.h_n = 0
        self.pin = None if spec.get('pin') is None else np.random.default_rng([1302, int(spec['pin'])])
        if self.pin is not None:
            self.p_y = float(self.pin.choice([0.05, 0.15, 0.3, 0.6]))
            self.p_u = float(self.pin.choice([0.5, 0.8, 0.95]))

    def install(self):
        from zepid.causal.gformula import MonteCarloGFormula
        self.cls = MonteCarloGFormula
        self.installed = '_predict' in MonteCarloGFormula.__dict__
        if not self.installed:          # the hook point was refactored away: K reports it, hook-free D still runs
            return
        self.orig_attr = MonteCarloGFormula.__dict__['_predict']
        orig = MonteCarloGFormula._predict
        tap = self

        def wrapped(df, model, variable):
            r = orig(df=df, model=model, variable=variable)
            return tap.record(df, model, variable, r)
        MonteCarloGFormula._predict = staticmethod(wrapped)

    def remove(self):
        if self.installed:
            self.cls._predict = self.orig_attr

    def kind_of(self, model):
        gf = self.gf
        if model is gf.out_model:
            return 'out'
        if model is gf.exp_model:
            return 'exp'
        if model is gf.cens_model:
            return 'cens'
        for j, m in enumerate(gf._covariate_models):
            if model is m:
                return 'cov:' + self.unalias.get(gf._covariate[j], gf._covariate[j])
        return '?'

    def record(self, df, model, variable, r):
        r = np.asarray(r)
        n = len(df)
        self.h_n += 1
        if r.shape != (n,) or (variable == 'binary' and not np.isin(r, [0, 1]).all()):
            self.draw_ok = False
        if variable == 'binary' and self.measure:
            pp = np.asarray(model.predict(df), dtype=float)
            if pp.shape != (n,) or not (np.all(pp >= 0) and np.all(pp <= 1)):
                self.h_ok = False
        kind = self.kind_of(model)
        if self.pin is not None:
            if variable == 'binary':
                p = {'out': self.p_y, 'cens': self.p_u}.get(kind, 0.5)
                r = self.pin.binomial(1, p, size=n).astype(r.dtype if r.dtype.kind in 'iu' else np.int64)
            else:
                r = np.round(self.pin.normal(size=n), 3)
        cols = [c for c in self.seencols if ren(self.alias, c) in df.columns]
        self.calls.append(dict(kind=kind, variable=variable, uid=df['uid_g_zepid'].to_numpy().astype(int).copy(),
                               cols=cols, frame=df[[ren(self.alias, c) for c in cols]].to_numpy(dtype=float).copy(),
                               draws=np.array(r, dtype=float)))
        return r


def run_fit(gf, spec, low_memory, seencols, measure=True):
    """one call of the real fit under the tap; returns (predicted_outcomes or exception, tap)"""
    tap = Tap(gf, spec, seencols, measure)
    tap.install()
    try:
        np.random.seed(int(spec['np_seed']))
        a = alias_of(spec)
        lags = dict((ren(a, k), ren(a, v)) for k, v in spec['lags']) if spec['lags'] else None
        if spec['plan'] == 'custom':
            treatment = nsub(a, c_py(spec['rule']))
        else:
            treatment = spec['plan']
        try:
            tm = spec['tmax']
            if tm is not None and spec.get('tmax_type') == 'np':
                tm = np.int64(tm)
            elif tm is not None and spec.get('tmax_type') == 'float':
                tm = float(tm)
            gf.fit(treatment=treatment, lags=lags, sample=int(spec['sample']), t_max=tm,
                   in_recode=nsub(a, s_py(spec.get('inrec'))), out_recode=nsub(a, s_py(spec.get('outrec'))),
                   low_memory=low_memory)
            return gf.predicted_outcomes.rename(columns={v: k for k, v in a.items()}), tap
        except Exception as e:  # noqa: BLE001  (any exception of the real code is data here)
            return e, tap
    finally:
        tap.remove()


# --------------------------------------------------------------------------- one case
def exec_order(spec):
    cs = COVSETS[spec['covs']]
    return [cs[j] for j in sorted(range(len(cs)), key=lambda j: cs[j]['label'])]


def call_kinds(spec):
    k = ['cov:' + c['col'] for c in exec_order(spec)]
    if spec['plan'] in ('natural', 'custom'):
        k.append('exp')
    k.append('out')
    if spec['cens']:
        k.append('cens')
    return k


def transpose(tap, spec, tmax):
    """captured calls -> per uid, per step, per call: (frame row, draw).  Returns (per, problems)."""
    kinds = call_kinds(spec)
    cps = len(kinds)
    problems = []
    if len(tap.calls) != tmax * cps:
        problems.append('number of _predict calls %d != t_max * calls per step %d' % (len(tap.calls), tmax * cps))
    per = {}
    for ci, c in enumerate(tap.calls):
        step, pos = divmod(ci, cps)
        if step >= tmax:
            break
        if c['kind'] != '?' and c['kind'] != kinds[pos]:
            problems.append('call %d is %s, expected %s' % (ci, c['kind'], kinds[pos]))
        key = c['kind'] if c['kind'] in kinds else kinds[pos]      # attribute by model identity when it is known
        for r, u in enumerate(c['uid']):
            per.setdefault(int(u), {}).setdefault(step, {})[key] = (c['frame'][r], c['draws'][r], c['cols'])
    for u, steps in per.items():
        if sorted(steps) != list(range(len(steps))):
            problems.append('uid %d simulated in steps %s (not an initial segment)' % (u, sorted(steps)))
        for s, calls in steps.items():
            if sorted(calls) != sorted(kinds):
                problems.append('uid %d step %d seen by calls %s' % (u, s, sorted(calls)))
    return per, kinds, problems


def model_request(spec, base_rows, per, kinds, tmax, outcols, seencols):
    """arguments of the driver op `mcsim`"""
    n = int(spec['sample'])
    cs = COVSETS[spec['covs']]
    covrec = spec.get('covrec') or {}
    kw = dict(cols=','.join(str(CID[c]) for c in ('A', 'Y', 't_in', 't_out', 'uncensored')),
              plan=spec['plan'], cens='1' if spec['cens'] else '0',
              inrec=s_tok(spec.get('inrec')), outrec=s_tok(spec.get('outrec')),
              covlab=enc_list([c['label'] for c in cs], str), covcol=enc_list([CID[c['col']] for c in cs], str))
    if spec['plan'] == 'custom':
        kw['rule'] = ','.join(c_tok(spec['rule']))
    for j, c in enumerate(cs):
        kw['covrec%d' % j] = s_tok(covrec.get(c['col']))
    lags = spec['lags'] or []
    kw['lagk'] = enc_list([CID[k] for k, v in lags], str)
    kw['lagv'] = enc_list([CID[v] for k, v in lags], str)
    kw['tmax'] = str(tmax)
    kw['n'] = str(n)
    kw['bcols'] = enc_list([CID[c] for c in BASECOLS], str)
    kw['base'] = enc_list([v for row in base_rows for v in row], rq)
    ncov = len(cs)
    nsteps, dcov, da, dy, dc = [], [], [], [], []
    for u in range(n):
        steps = per.get(u, {})
        m = 0
        while m in steps and len(steps[m]) == len(kinds):
            m += 1
        nsteps.append(m)
        for s in range(m):
            calls = steps[s]
            for j in range(ncov):
                dcov.append(float(calls[kinds[j]][1]))
            da.append(int(calls['exp'][1]) if 'exp' in kinds else 0)
            dy.append(int(calls['out'][1]))
            dc.append(int(calls['cens'][1]) if 'cens' in kinds else 1)
    kw['nsteps'] = enc_list(nsteps, str)
    kw['dcov'] = enc_list(dcov, rq)
    kw['da'] = enc_list(da, str)
    kw['dy'] = enc_list(dy, str)
    kw['dc'] = enc_list(dc, str)
    kw['outcols'] = enc_list([CID[c] for c in outcols], str)
    kw['seencols'] = enc_list([CID[c] for c in seencols], str)
    return kw, nsteps


def frac(x):
    return Fraction(float(x))


def run_case(spec, drv):
    """Runs one case on the real code (full and low-memory, same seed) and on the model.
    Returns dict(status, results=[(gate, ok, what, signature)], info)."""
    res = []
    info = {}

    wit = {}

    def note(key, msg):
        wit.setdefault(key, msg)

    def D(ok, what, sig=None, key=None):
        if not ok and key in wit:
            what = '%s [first witness: %s]' % (what, wit[key])
        res.append(('D', bool(ok), what, sig))

    def K(ok, what):
        res.append(('K', bool(ok), what, None))

    def specify(fresh=False):
        from statsmodels.tools.sm_exceptions import PerfectSeparationError
        try:
            return fitted(spec, fresh=fresh)
        except (ExternalFitFailure, PerfectSeparationError, np.linalg.LinAlgError) as e:
            return 'discard', 'reference GLM fit failed inside statsmodels: %s' % type(e).__name__
        except Exception as e:  # noqa: BLE001   anything else raised while specifying valid models is zEpid's
            D(False, 'model specification raised %s on valid input: %s' % (type(e).__name__, str(e)[:200]))
            return 'raised', None

    got = specify()
    if got[0] == 'discard':
        return dict(status='discard', why=got[1], results=res, info=info)
    if got[0] == 'raised':
        return dict(status='ok', results=res, info=info)
    gf, df = got
    n = int(spec['sample'])
    tmax = int(df['t_out'].max()) if spec['tmax'] is None else int(spec['tmax'])
    covcols = [c['col'] for c in COVSETS[spec['covs']]]
    outcols = ['A', 'Y', 't_in', 't_out'] + covcols
    seencols = [c for c in NAMES if c in df.columns or c == 'uncensored']
    # history on the object: an earlier fit with another horizon / plan / sample must leave no trace
    if spec.get('prefit'):
        pre = dict(spec)
        pre.update(spec['prefit'])
        pre['pin'] = None
        run_fit(gf, pre, bool(pre.get('low_memory', True)), seencols, measure=False)
    full, tap = run_fit(gf, spec, False, seencols)
    low, tap2 = run_fit(gf, spec, True, seencols, measure=False)     # same seed, same frames: measured in the full run
    info['h_n'] = tap.h_n + tap2.h_n
    info['h_ok'] = tap.h_ok and tap2.h_ok
    # ---- t_max = 0: nothing to concatenate; the real code raises, the model rejects
    if tmax <= 0:
        K(isinstance(full, Exception) and isinstance(low, Exception), 't_max=0: fit raises (model: err badInput)')
        if drv is not None:
            rep, _ = drv.ask('mcsim', **model_request(spec, [[0] * len(BASECOLS)] * n, {}, call_kinds(spec), 0,
                                                       outcols, seencols)[0])
            K(rep['status'] == 'err', 't_max=0: model rejects')
        return dict(status='ok', results=res, info=info)
    if isinstance(full, Exception) or isinstance(low, Exception):
        e = full if isinstance(full, Exception) else low
        D(False, 'fit raised %s on a valid call: %s' % (type(e).__name__, str(e)[:200]))
        return dict(status='ok', results=res, info=info)
    if not info['h_ok']:
        return dict(status='discard', why='external predict/draw returned an unexpected shape or value', results=res,
                    info=info)
    if spec.get('fresh'):
        got = specify(fresh=True)
        if got[0] not in ('discard', 'raised'):
            ffull, _ = run_fit(got[0], spec, False, seencols)
            same = (not isinstance(ffull, Exception)) and list(ffull.columns) == list(full.columns) and \
                len(ffull) == len(full) and ffull.astype(str).equals(full.astype(str))
            D(same, 'fit on an object with a history of earlier fits = fit on a fresh object (same specification, '
                    'same seed)%s' % ('' if same or isinstance(ffull, Exception) else
                                      ' [rows: reused %d, fresh %d]' % (len(full), len(ffull))))
    per, kinds, problems = transpose(tap, spec, tmax)
    per2, _, problems2 = transpose(tap2, spec, tmax)
    hooked = tap.installed and tap2.installed
    K(hooked, 'hook point MonteCarloGFormula._predict exists')
    if hooked:
        K(not problems, 'call sequence of _predict (full): ' + '; '.join(problems[:3]))
        K(not problems2, 'call sequence of _predict (low_memory): ' + '; '.join(problems2[:3]))
    K(tap.draw_ok and tap2.draw_ok, '_predict returns one value per row of the frame (0/1 for binary models)')

    # ============================== D: the property, directly on predicted_outcomes ==============================
    want_cols = ['uid_g_zepid', 'id'] + outcols
    D(list(full.columns) == want_cols and list(low.columns) == want_cols, 'predicted_outcomes has the documented columns')
    fu = full['uid_g_zepid'].to_numpy()
    D(sorted(set(fu.tolist())) == list(range(n)), 'full output: exactly `sample` individuals (uids 0..sample-1)')
    D(low['uid_g_zepid'].tolist() == list(range(n)),
      'low_memory output: exactly one record for each of the `sample` individuals')
    groups = {int(u): gdf for u, gdf in full.groupby('uid_g_zepid', sort=True)}
    ok_one = ok_last = ok_after = ok_tin = ok_tout = ok_tmax = ok_sorted = ok_id = True
    stops_early = reaches_end = 0
    ids = set(df['id'].tolist())
    for u, gdf in groups.items():
        y = gdf['Y'].to_numpy()
        ti = gdf['t_in'].to_numpy()
        to = gdf['t_out'].to_numpy()
        m = len(gdf)
        ok_one &= int((y != 0).sum()) <= 1
        ok_last &= bool((y[:-1] == 0).all())
        ok_tin &= ti.tolist() == list(range(m))
        ok_tout &= bool((to == ti + 1).all())
        ok_tmax &= bool((to <= tmax).all()) and m <= tmax
        if int((y != 0).sum()) > 1 or not (y[:-1] == 0).all():
            note('event', 'uid %d outcomes %s' % (u, y.tolist()))
        if ti.tolist() != list(range(m)) or not (to == ti + 1).all() or not (to <= tmax).all():
            note('time', 'uid %d time_in %s time_out %s t_max %d' % (u, ti.tolist(), to.tolist(), tmax))
        ok_id &= gdf['id'].nunique() == 1 and gdf['id'].iloc[0] in ids
        if m < tmax:
            stops_early += 1
        else:
            reaches_end += 1
    ok_sorted = full[['uid_g_zepid', 't_in']].apply(tuple, axis=1).tolist() == \
        sorted(full[['uid_g_zepid', 't_in']].apply(tuple, axis=1).tolist())
    D(ok_one, 'at most one event per history', key='event')
    D(ok_last, 'no record after an event (an event is the last record)', key='event')
    D(ok_tin, 'time_in = 0, 1, 2, ... consecutive within every history', key='time')
    D(ok_tout, 'time_out = time_in + 1 in every record', key='time')
    D(ok_tmax, 'no record beyond t_max', key='time')
    D(ok_sorted and ok_id, 'records sorted by (uid, time_in); one sampled id per history')
    info['stops_early'] = stops_early
    info['reaches_end'] = reaches_end
    if not spec['cens']:
        # without a censoring model a history can only end with an event or at t_max (no hook needed)
        bad = [u for u, gdf in groups.items() if len(gdf) < tmax and gdf['Y'].iloc[-1] == 0]
        D(not bad, 'no censoring model: every history ends with an event or at t_max (uids %s)' % bad[:5])
    endcache = {}

    def end_of_interval(calls, si):
        """the row at the end of an interval (after out_recode, before the lag update), rebuilt from the frame
        of the interval's last prediction, the draws and the out_recode program"""
        key = (id(calls), si)
        if key not in endcache:
            lastk = 'cens' if 'cens' in kinds else 'out'
            frame, _, cols = calls[lastk]
            r = dict(zip(cols, frame.tolist()))
            yd = float(calls['out'][1])
            ud = float(calls['cens'][1]) if 'cens' in kinds else r.get('uncensored', 1.0)
            r['Y'] = yd if ud == 1 else 0.0
            r['t_out'] = float(si + 1)
            r['uncensored'] = 0.0 if si == tmax - 1 else ud
            for dst, e in (spec.get('outrec') or []):
                r[dst] = e_val(e, r)
            endcache[key] = r
        return endcache[key]
    # ---- stopping against the captured draws: no record after an event or after censoring, nobody lost
    ok_stop = ok_lost = ok_cz = ok_nat = ok_rule = ok_cov = True
    for u, gdf in (groups.items() if hooked else ()):
        steps = per.get(u, {})
        m = len(gdf)
        for s in range(m):
            calls = steps.get(s)
            if calls is None or len(calls) != len(kinds):
                ok_lost = False
                note('lost', 'uid %d has a record for interval %d but no model predicted for it' % (u, s))
                continue
            yd = calls['out'][1]
            ud = calls['cens'][1] if 'cens' in kinds else 1.0
            ey = end_of_interval(calls, s)['Y']      # the interval's outcome: drawn, zeroed if censored, out_recode
            stopped = ey != 0 or ud == 0
            if s < m - 1 and stopped:
                ok_stop = False                      # a record follows an event or censoring
                note('stop', 'uid %d interval %d: outcome %g (drawn %g), drawn uncensored %g, but %d more record(s) '
                     'follow' % (u, s, ey, yd, ud, m - 1 - s))
            if s == m - 1 and not stopped and s != tmax - 1:
                ok_lost = False                      # history ends for no reason
                note('lost', 'uid %d ends after interval %d of %d without event or censoring' % (u, s, tmax))
            rec = gdf.iloc[s]
            if rec['Y'] != ey:
                ok_cz = False                        # censoring zeroes the outcome; otherwise the drawn outcome
                note('cz', 'uid %d interval %d: Y=%g, drawn outcome %g, drawn uncensored %g, after out_recode %g'
                     % (u, s, rec['Y'], yd, ud, ey))
            if spec['plan'] == 'natural' and rec['A'] != calls['exp'][1]:
                ok_nat = False
                note('nat', 'uid %d interval %d: A=%g drawn %g' % (u, s, rec['A'], calls['exp'][1]))
            for c in exec_order(spec):
                dv = calls['cov:' + c['col']][1]
                if rec[c['col']] != dv:
                    ok_cov = False
                    note('cov', 'uid %d interval %d: %s=%g drawn %g' % (u, s, c['col'], rec[c['col']], dv))
            if spec['plan'] == 'custom':
                frame, _, cols = calls['out']
                row = dict(zip(cols, frame.tolist()))
                row['A'] = float(calls['exp'][1])    # the rule is evaluated on the drawn exposure
                if rec['A'] != (1 if c_val(spec['rule'], row) else 0):
                    ok_rule = False
                    note('rule', 'uid %d interval %d: A=%g but rule %s on row %s is %s' % (
                        u, s, rec['A'], c_py(spec['rule']), {k: row[k] for k in sorted(c_reads(spec['rule']))},
                        c_val(spec['rule'], row)))
    if hooked:
        D(ok_stop, 'no record after a drawn event or after drawn censoring', key='stop')
        D(ok_lost, 'every history ends with an event, with censoring or at t_max (nobody is lost)', key='lost')
        D(ok_cz, 'outcome of a record = drawn outcome, zeroed when censored in that interval, then out_recode', key='cz')
        D(bool(full['Y'].isin([0, 1]).all()), 'outcome column is 0/1 in every record (sign hypothesis of the low-memory theorems)')
        D(ok_cov, 'covariate columns of a record = the values drawn for that individual in that interval', key='cov')
    if spec['plan'] == 'all':
        D(bool((full['A'] == 1).all()) and bool((low['A'] == 1).all()), "plan 'all': exposure = 1 in every record")
    elif spec['plan'] == 'none':
        D(bool((full['A'] == 0).all()) and bool((low['A'] == 0).all()), "plan 'none': exposure = 0 in every record")
    elif spec['plan'] == 'natural':
        if hooked:
            D(ok_nat, "plan 'natural': exposure = the drawn value", key='nat')
    else:
        if hooked:
            D(ok_rule, 'custom plan: exposure = rule evaluated on the row (simulated covariates, lags, drawn '
                       'exposure)', key='rule')
        # hook-free, on predicted_outcomes alone: what the rule read in interval s is rebuilt from the records -- a
        # simulated covariate and time_in from record s, a lagged variable from record s-1 (from the sampled baseline
        # row in the first interval; a lag of a lag one record further back), anything else carried from the
        # baseline row.  Not rebuilt (then not judged here): the drawn exposure itself, columns a recode program writes
        rd = c_reads(spec['rule'])
        lagmap = {v: k for k, v in (spec['lags'] or [])}
        touched = {d for d, e in (spec.get('inrec') or [])} | {d for d, e in (spec.get('outrec') or [])} | \
            {d for prog in (spec.get('covrec') or {}).values() for d, e in prog}
        ends = set(covcols) | {'A', 'Y', 't_in', 't_out'}

        def cur(v, recs, s, b, depth=0):
            if v in touched or v in ('A', 'Y', 't_out', 'uncensored') or depth > 6:
                return None
            if v == 't_in':
                return s
            if v in covcols:
                return recs[s][v]
            if v in lagmap:
                return b[v] if s == 0 else end(lagmap[v], recs, s - 1, b, depth + 1)
            return b[v]

        def end(k, recs, s, b, depth):
            if k in touched:
                return None
            if k in ends:
                return recs[s][k]
            if k in lagmap:          # the lag update reads every source before it writes any lag column
                return cur(k, recs, s, b, depth + 1)
            return b[k]
        base0 = df.sort_values(['id', 't_out']).groupby('id').head(1).set_index('id')
        judged, ok_out = 0, True
        for u, gdf in groups.items():
            if gdf['id'].iloc[0] not in base0.index:
                continue
            b = base0.loc[gdf['id'].iloc[0]]
            recs = gdf.to_dict('records')
            for si, rec in enumerate(recs):
                row = {v: cur(v, recs, si, b) for v in rd}
                if any(x is None for x in row.values()):
                    break
                judged += 1
                if rec['A'] != (1 if c_val(spec['rule'], row) else 0):
                    ok_out = False
                    note('ruleout', 'uid %d interval %d: A=%g but rule %s reads %s' % (
                        u, si, rec['A'], c_py(spec['rule']), {k: float(row[k]) for k in sorted(row)}))
        info['rule_rows_judged_on_output'] = judged
        if judged:
            D(ok_out, 'custom plan: rule holds row by row on the output records themselves (simulated covariates of the '
                      'record, lagged variables from the previous record, the rest from the sampled baseline row)',
              key='ruleout')
    # ---- lags: at every prediction of step i the lag column holds the source's value of step i-1
    if spec['lags'] and hooked:
        lags = [(k, v) for k, v in spec['lags']]
        base = df.sort_values(['id', 't_out']).groupby('id').head(1).set_index('id')
        ok_lag0 = ok_lag = True
        for u, gdf in groups.items():
            steps = per.get(u, {})
            bid = gdf['id'].iloc[0]
            for s in range(len(gdf)):
                calls = steps.get(s)
                if calls is None or len(calls) != len(kinds):
                    continue
                for p in kinds:
                    frame, _, cols = calls[p]
                    row = dict(zip(cols, frame.tolist()))
                    for k, v in lags:
                        if s == 0:
                            if row[v] != base.loc[bid, v]:
                                ok_lag0 = False
                                note('lag0', 'uid %d (id %s) call %s: %s=%g, baseline %g' % (u, bid, p, v, row[v],
                                                                                         base.loc[bid, v]))
                        else:
                            want = end_of_interval(steps[s - 1], s - 1)[k]
                            if row[v] != want:
                                msg = 'uid %d interval %d call %s: %s=%g but %s was %g at the end of interval %d' % (
                                    u, s, p, v, row[v], k, want, s - 1)
                                ok_lag = False
                                note('lag', msg)
        D(ok_lag0, 'lag columns hold the baseline values in the first interval', key='lag0')
        D(ok_lag, 'every lag column holds the previous interval\'s value whenever a model predicts', key='lag')
    # ---- hook-free lag check on the output alone: under the rule g['A_l1'] == 1 with A lagged into A_l1, the
    #      exposure of interval i must repeat the exposure of interval i-1
    if spec['plan'] == 'custom' and spec['rule'] == FIXED_RULES[0] and spec['lags'] and \
            ['A', 'A_l1'] in [list(x) for x in spec['lags']] and [list(x) for x in spec['lags']].index(['A', 'A_l1']) \
            >= max([i for i, x in enumerate(spec['lags']) if x[1] == 'A_l1']):
        bad = [u for u, gdf in groups.items() if gdf['A'].nunique() > 1]
        D(not bad, "rule g['A_l1'] == 1 with lag A -> A_l1: exposure constant within every history (uids %s)" % bad[:5])
    # ---- hook-free: 'treat while never treated' = rule on the lagged running count kept by out_recode; every
    #      history must be exposed in its first interval and never again
    if spec['plan'] == 'custom' and spec['rule'] == TREAT_ONCE and ['cumA', 'cumA_l1'] in [list(x) for x in
                                                                                             (spec['lags'] or [])] \
            and [list(x) for x in (spec.get('outrec') or [])][:1] == [list(x) for x in CUM_OUTREC[:1]]:
        bad = [u for u, gdf in groups.items() if gdf['A'].tolist() != [1] + [0] * (len(gdf) - 1)]
        D(not bad, "rule g['cumA_l1'] == 0 with out_recode cumA += A and lag cumA -> cumA_l1: exposed in the first "
                   "interval only (uids %s)" % bad[:5])
    # ---- low memory = last record of every history of the full output, same seed
    last = full.groupby('uid_g_zepid', sort=True).tail(1).reset_index(drop=True)
    num = [c for c in last.columns if c != 'id']
    same = list(last.columns) == list(low.columns) and len(last) == len(low) and \
        last['id'].tolist() == low['id'].tolist() and \
        bool((last[num].to_numpy(dtype=float) == low[num].to_numpy(dtype=float)).all())
    D(same, 'low_memory output = last record of every history of the full output (same seed)')

    # ============================== K: model vs implementation =====================================================
    if drv is not None and hooked:
        base = df.sort_values(['id', 't_out']).groupby('id').head(1).set_index('id')
        lastid = full.groupby('uid_g_zepid', sort=True)['id'].first()
        try:
            base_rows = [[float(base.loc[lastid[u], c]) for c in BASECOLS] for u in range(n)]
        except KeyError:
            K(False, 'sampled ids cannot be read off the output')
            return dict(status='ok', results=res, info=info)
        kw, nsteps = model_request(spec, base_rows, per, kinds, tmax, outcols, seencols)
        rep, line = drv.ask('mcsim', **kw)
        info['line_len'] = len(line)
        if rep['status'] != 'ok':
            K(False, 'model rejected the case: %s' % rep.get('err'))
        else:
            lens = dec_list(rep['lens'], int)
            K(lens == [len(groups.get(u, ())) for u in range(n)], 'history lengths: model vs full output')
            K(lens == nsteps, 'model consumed exactly the draws the real loop made for every individual')
            K(dec_list(rep['fulluid'], int) == fu.tolist(), 'uid column of the full output')
            mv = dec_list(rep['full'], Fraction)
            iv = [frac(x) for x in full[outcols].to_numpy(dtype=float).ravel()]
            K(mv == iv, 'full predicted_outcomes row for row (%s)' % ','.join(outcols))
            K(dec_list(rep['lowuid'], int) == low['uid_g_zepid'].tolist(), 'uid column of the low_memory output')
            mv = dec_list(rep['low'], Fraction)
            iv = [frac(x) for x in low[outcols].to_numpy(dtype=float).ravel()]
            K(mv == iv, 'low_memory predicted_outcomes row for row')
            K(low['id'].tolist() == [lastid[u] for u in range(n)], 'low_memory ids = full ids')
            # the loop run by the pieces regenerated from MonteCarloGFormula.fit (Gen/MonteCarlo.lean: mc_init, mc_alive,
            # mc_step, mc_stacked, mc_iterations), against the implementation they were translated from
            K(dec_list(rep['glens'], int) == [len(groups.get(u, ())) for u in range(n)],
              'history lengths: regenerated loop vs full output')
            K(dec_list(rep['gfulluid'], int) == fu.tolist() and
              dec_list(rep['gfull'], Fraction) == [frac(x) for x in full[outcols].to_numpy(dtype=float).ravel()],
              'full predicted_outcomes row for row: regenerated loop (Gen/MonteCarlo.lean)')
            K(dec_list(rep['glowuid'], int) == low['uid_g_zepid'].tolist() and
              dec_list(rep['glow'], Fraction) == [frac(x) for x in low[outcols].to_numpy(dtype=float).ravel()],
              'low_memory predicted_outcomes row for row: regenerated loop and regenerated low_memory filter')
            # frames seen by the models
            seen_impl = []
            ok_shape = True
            for u in range(n):
                for s in range(nsteps[u]):
                    for p in kinds:
                        frame, _, cols = per[u][s][p]
                        if cols != seencols:
                            ok_shape = False
                        seen_impl.extend(frame.tolist())
            ms = dec_list(rep['seen'], Fraction)
            K(ok_shape and dec_list(rep['seenn'], int) == [len(kinds)] * sum(nsteps) and
              ms == [frac(x) for x in seen_impl], 'frames seen by every _predict call (all modelled columns)')
            # the low-memory run made the same draws
            same_draws = len(tap.calls) == len(tap2.calls) and all(
                np.array_equal(a['draws'], b['draws']) and np.array_equal(a['uid'], b['uid'])
                for a, b in zip(tap.calls, tap2.calls))
            K(same_draws, 'low_memory run consumed the same draws as the full run (same seed)')
    return dict(status='ok', results=res, info=info)


# --------------------------------------------------------------------------- generators
def gen_atom(rng, covs):
    pool = [('L', [0, 1]), ('t_in', [0, 1, 2, 3]), ('A', [0, 1]), ('A_l1', [0, 1]), ('L_l1', [0, 1]),
            ('cumA', [0, 1, 2]), ('cumA_l1', [0, 1, 2]), ('W0', [-0.5, 0.0, 0.5])]
    if covs == 'LW':
        pool.append(('W', [-0.25, 0.5]))
        pool.append(('W_l1', [-0.25, 0.5, 3]))
    if covs == 'L2rev':
        pool.append(('L2', [0, 1]))
    name, consts = pool[int(rng.integers(0, len(pool)))]
    c = consts[int(rng.integers(0, len(consts)))]
    op = str(rng.choice(['eq', 'ne', 'lt', 'le', 'gt', 'ge']))
    if rng.uniform() < 0.15:
        return [op, ['var', name], ['add', ['var', 'L_l1'], ['const', c]]]
    return [op, ['var', name], ['const', c]]


def gen_rule(rng, covs, depth=2):
    r = rng.uniform()
    if depth == 0 or r < 0.4:
        return gen_atom(rng, covs)
    if r < 0.6:
        return ['and', gen_rule(rng, covs, depth - 1), gen_rule(rng, covs, depth - 1)]
    if r < 0.8:
        return ['or', gen_rule(rng, covs, depth - 1), gen_rule(rng, covs, depth - 1)]
    return ['not', gen_rule(rng, covs, depth - 1)]


FIXED_RULES = [
    ['eq', ['var', 'A_l1'], ['const', 1]],                       # stay on the previous exposure (needs lags)
    ['eq', ['var', 'L'], ['const', 1]],                          # treat when the simulated covariate is 1
    ['or', ['eq', ['var', 'A'], ['const', 1]], ['eq', ['var', 'A_l1'], ['const', 1]]],   # documented ITT rule
    ['ge', ['var', 't_in'], ['const', 2]],
    ['eq', ['var', 'cumA_l1'], ['const', 0]],                    # treat while never treated (lagged running count)
]
TREAT_ONCE = FIXED_RULES[4]
CUM_OUTREC = [['cumA', ['add', ['var', 'cumA'], ['var', 'A']]]]
LAGSETS = {
    'none': None,
    'first': [['A', 'A_l1'], ['L', 'L_l1']],
    'chain': [['A_l1', 'A_l2'], ['A', 'A_l1'], ['L', 'L_l1']],   # second-order lag listed before the first-order one
    'chainfwd': [['A', 'A_l1'], ['A_l1', 'A_l2'], ['L', 'L_l1']],  # first-order lag listed first: order must not matter
}
RECODES = [
    dict(),
    dict(inrec=[['t_sq', ['mul', ['var', 't_in'], ['var', 't_in']]]]),
    dict(outrec=[['cumA', ['add', ['var', 'cumA'], ['var', 'A']]]]),
    dict(inrec=[['t_sq', ['mul', ['var', 't_in'], ['var', 't_in']]]],
         outrec=[['cumA', ['add', ['var', 'cumA'], ['var', 'A']]], ['cumL', ['add', ['var', 'cumL'], ['var', 'L']]]]),
    dict(covrec={'L': [['cumL', ['add', ['var', 'cumL'], ['var', 'L']]]]}),
    # out_recode rewrites the outcome (structural rules): no event while L = 0; an event forced by L2 = 1
    dict(outrec=[['Y', ['mul', ['var', 'Y'], ['var', 'L']]]]),
    dict(outrec=[['Y', ['add', ['var', 'Y'], ['mul', ['var', 'L2'], ['add', ['const', 1],
                                                                       ['mul', ['const', -1], ['var', 'Y']]]]]],
                 ['cumA', ['add', ['var', 'cumA'], ['var', 'A']]]]),
    # out_recode keeps a running count that is itself lagged (the documented use of out_recode)
    dict(outrec=CUM_OUTREC, lagx=[['cumA', 'cumA_l1']]),
    dict(inrec=[['t_sq', ['mul', ['var', 't_in'], ['var', 't_in']]]],
         outrec=CUM_OUTREC + [['cumL', ['add', ['var', 'cumL'], ['var', 'L']]]], lagx=[['cumA', 'cumA_l1']]),
]


def random_spec(rng, plan, covs, cens, lagset, tier, i):
    spec = dict(data_seed=int(rng.integers(0, 6 if tier == 'quick' else 40)), n=int(rng.choice([150, 220])), T=4,
                weights=[False, False, False, True, 'frac'][int(rng.integers(0, 5))], covs=covs, cens=bool(cens), plan=plan,
                lags=LAGSETS[lagset], lagset=lagset,
                sample=int(rng.choice([1, int(rng.integers(2, 4)), int(rng.integers(4, 40)), int(rng.integers(40, 201))],
                                      p=[0.1, 0.1, 0.3, 0.5])),
                tmax=[None, 1, 2, 3, 4, 5, 6][int(rng.integers(0, 7))],
                np_seed=0 if rng.uniform() < 0.05 else int(rng.integers(0, 2 ** 31 - 1)),
                positional=bool(rng.integers(0, 2)),
                pin=int(rng.integers(0, 2 ** 31 - 1)) if rng.uniform() < 0.5 else None)
    rc = dict(RECODES[int(rng.integers(0, len(RECODES)))])
    if 'covrec' in rc and covs == 'none':
        rc = dict()
    if plan == 'custom':
        spec['rule'] = FIXED_RULES[i % len(FIXED_RULES)] if rng.uniform() < 0.4 else gen_rule(rng, covs)
        if 'cumA_l1' in c_reads(spec['rule']) and 'lagx' not in rc:
            rc = dict(RECODES[7])          # a rule on the lagged count needs the count to be kept and lagged
    lagx = rc.pop('lagx', None)
    spec.update(rc)
    if lagx:
        spec['lags'] = [list(x) for x in (spec['lags'] or [])] + lagx
        spec['lagset'] = lagset + '+count'
    # a lag of the continuous covariate (simulated when covs = LW, otherwise carried from the baseline row), listed at
    # a random place among the others; under a rule that reads W_l1 always
    if lagset != 'none' and (covs == 'LW' or rng.uniform() < 0.25) or \
            (plan == 'custom' and 'W_l1' in c_reads(spec['rule'])):
        lg = [list(x) for x in (spec['lags'] or [])]
        lg.insert(int(rng.integers(0, len(lg) + 1)), ['W', 'W_l1'])
        spec['lags'] = lg
        spec['lagset'] = spec['lagset'] + '+W'
    spec['alias'] = str(rng.choice(list(ALIASES), p=[0.4, 0.4, 0.2]))
    spec['tmax_type'] = str(rng.choice(['int', 'int', 'np', 'float']))
    # histories on one object: a different fit first (other horizon, plan, sample, memory mode); a fresh twin
    if rng.uniform() < 0.3:
        spec['prefit'] = dict(tmax=[None, 1, 2, 3, 5, 6][int(rng.integers(0, 6))], plan='all',
                              sample=int(rng.integers(1, 60)), low_memory=bool(rng.integers(0, 2)))
    spec['fresh'] = bool(rng.uniform() < 0.2)
    return spec


def safe_case(spec, drv):
    """anything the harness cannot digest is a D failure with a replay, never a tool failure"""
    import traceback
    try:
        return run_case(spec, drv)
    except Exception:  # noqa: BLE001
        tb = traceback.format_exc().strip().splitlines()
        return dict(status='ok', info={}, results=[('D', False, 'case could not be evaluated: ' + ' | '.join(tb[-3:]),
                                                    None)])


def feed(chk, spec, out):
    key = (spec['plan'], spec['covs'], spec['cens'], spec['lagset'], spec['data_seed'], spec['np_seed'],
           spec['sample'], spec['tmax'])
    if out['status'] == 'discard':
        chk.discard(out['why'])
        return
    info = out['info']
    chk.h_checked += info.get('h_n', 0)
    nontriv = info.get('stops_early', 0) > 0 and info.get('reaches_end', 0) > 0
    chk.case(spec, key if nontriv else None, sample=spec if chk.evals % 37 == 0 else None)
    chk.count('plan_' + spec['plan'])
    chk.count('covs_' + spec['covs'])
    chk.count('cens_%d' % spec['cens'])
    chk.count('lags_' + spec['lagset'])
    chk.count('names_' + (spec.get('alias') or 'plain'))
    chk.count('draws_' + ('pinned' if spec.get('pin') is not None else 'numpy'))
    chk.count('tmax_%s' % spec['tmax'])
    chk.count('sample_' + ('1' if spec['sample'] == 1 else '2-3' if spec['sample'] <= 3 else '4-39'
                           if spec['sample'] < 40 else '40-200'))
    chk.count('custom_rule_rows_judged_on_output_alone', info.get('rule_rows_judged_on_output', 0))
    chk.count('histories_stopping_early', info.get('stops_early', 0))
    chk.count('histories_reaching_tmax', info.get('reaches_end', 0))
    for gate, ok, what, sig in out['results']:
        if gate == 'D':
            chk.d(ok, what, spec, signature=sig)
        else:
            chk.k(ok, what, spec)


def run(chk, drv, rng, tier):
    reps = 2 if tier == 'quick' else 12
    plans = ['all', 'none', 'natural', 'custom']
    cells = list(itertools.product(plans, list(COVSETS), [False, True], list(LAGSETS)))
    chk.extra['config_cells'] = len(cells)
    i = 0
    for plan, covs, cens, lagset in cells:
        for _ in range(reps):
            spec = random_spec(rng, plan, covs, cens, lagset, tier, i)
            i += 1
            feed(chk, spec, safe_case(spec, drv))
    # extra custom rules (the rule grammar is the largest part of the input space)
    for j in range(24 if tier == 'quick' else 300):
        covs = list(COVSETS)[j % 4]
        spec = random_spec(rng, 'custom', covs, bool(j % 2), ['none', 'first', 'chain', 'chainfwd'][j % 4], tier, j)
        feed(chk, spec, safe_case(spec, drv))
    # information only (outside the documented domain t_max : int): a non-integer t_max never marks the last
    # iteration, so low_memory drops everyone who survives
    spec = random_spec(rng, 'all', 'none', False, 'none', tier, 0)
    spec.update(sample=50, tmax=2, pin=None)
    try:
        with_int = run_fit(fitted(spec)[0], spec, True, NAMES)[0]
        spec['tmax'] = 2.5
        with_frac = run_fit(fitted(spec)[0], spec, True, NAMES)[0]
        chk.extra['info_noninteger_tmax'] = ('t_max=2.5, low_memory=True returns %s of 50 individuals (t_max=2: %s); '
                                             'documented type is int, not judged (the same happens with '
                                             't_max=None when the data maximum of time_out is fractional: the '
                                             'test `i == t_max - 1` never fires; `i == int(t_max) - 1` would)' % (
                                                 with_frac['uid_g_zepid'].nunique() if hasattr(with_frac, 'columns')
                                                 else repr(with_frac), with_int['uid_g_zepid'].nunique()))
    except Exception as e:  # noqa: BLE001
        chk.extra['info_noninteger_tmax'] = 'not run: %r' % (e,)
    # t_max = 0: nothing simulated, pd.concat raises; the model rejects
    spec = random_spec(rng, 'all', 'L', False, 'none', tier, 0)
    spec['tmax'] = 0
    feed(chk, spec, safe_case(spec, drv))


def replay(rec):
    import common
    drv = None
    try:
        drv = common.Driver()
        drv.start()
    except Exception:  # noqa: BLE001
        drv = None
    bad = 0
    seen = set()
    with common.quiet():
        outs = []
        for f in rec.get('failures', []) + rec.get('k_failures', []):
            spec = f.get('case')
            if not isinstance(spec, dict) or repr(sorted(spec.items(), key=str)) in seen:
                continue
            seen.add(repr(sorted(spec.items(), key=str)))
            outs.append((spec, safe_case(spec, drv)))
    for spec, out in outs:
        print('case:', spec)
        for gate, ok, what, sig in out.get('results', []):
            if not ok:
                bad += 1
                print('  FAILS  %s: %s%s' % (gate, what, '  (known-finding signature %s)' % sig if sig else ''))
        if out['status'] == 'discard':
            print('  discarded:', out['why'])
    if drv is not None:
        drv.close()
    print('replay: %d failing predicate(s)' % bad)
    return 1 if bad else 0
