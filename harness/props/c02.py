"""C02 -- exact finite-sample double robustness of AIPTW, TMLE and AIPSW."""
import numpy as np

import gen
from common import fx, unfx, enc_list, close
from props import c01, c16

REQUIRED = ['aipw_dr_outcome', 'aipw_dr_treatment', 'aipsw_dr_outcome', 'aipsw_dr_weights_partial',
            'aipsw_stab_not_dr', 'both_misspecified_can_move', 'tmle_dr_outcome', 'tmle_dr_outcome_real', 'tmle_dr_treatment', 'tmle_saturated',
            'tmle_dr_treatment_truncated', 'tmle_dr_outcome_unreached_bound', 'aipsw_dr_weights_unreached_bound']
RULE = ('random categorical data sets (1-3 covariates, positivity by construction); for each estimator one side is '
        'saturated and the other runs through every sub-model of the saturated one (intercept only, main effects only, '
        'each covariate dropped); AIPTW binary/normal/poisson with and without weights, TMLE binary/continuous '
        '(continuous_bound 0 and default), AIPSW generalize/transport x stabilized x with/without treatment model.  '
        'Round 4: truncation bounds in every accepted form (float, list, tuple, numpy floats, limits of 0/1, more than two '
        'entries) -- unreached on a saturated side, biting on the other side, for the treatment model of AIPTW / TMLE / '
        'AIPSW and the outcome model of TMLE; nuisance models handed over as custom_model= learners with each documented '
        'interface (2-column predict_proba, 1-d predict_proba, predict only; fit returning self or a new object), '
        'every combination enumerated.  '
        'distinct = (data hash, estimator, saturated side, sub-model, options); non-trivial = the misspecified side '
        'is really wrong on that data set (its fitted values differ from the saturated fit by > 1e-3 somewhere)')
ASSUMPTIONS = c01.ASSUMPTIONS + ['the TMLE fluctuation GLM solves its score equations (measured in C03)']
TOL = dict(rtol=1e-6, atol=1e-7)


def unreached_bound(rng, df, covs, wcol):
    """a truncation bound that no *saturated* fitted treatment probability reaches (so it must change nothing), in one of
    the accepted forms (gen.bound_form: none, symmetric float, list / tuple of python or numpy floats, a limit of exactly
    0 or 1, more than two entries).  Returns (bound object, JSON-able record)."""
    return gen.unreached_bound(rng, c01.exact_prop(df, covs, wcol))


def bound_arg(b):
    """the bound object of a stored case (record of gen.bound_form; replay files written before round 4 hold the object)"""
    return gen.bound_of(b) if (isinstance(b, dict) or not b) else b


def draw_learners(rng, side, ytype, allowed=True):
    """which of the two nuisance models are handed over as custom_model= learners, and with which of the documented
    interfaces (gen.CellMeanLearner): {'g': interface or None, 'q': interface or None, 'returns': 'self' | 'new'}.
    A continuous outcome is predicted with predict() only (documented)."""
    out = {'g': None, 'q': None, 'returns': 'self'}
    if rng is None or not allowed:
        return out
    kinds = ['proba2', 'proba1', 'predict']
    if rng.uniform() < 0.35:
        out['g'] = kinds[int(rng.integers(0, 3))]
    if rng.uniform() < 0.35:
        out['q'] = kinds[int(rng.integers(0, 3))] if ytype == 'binary' else 'predict'
    if rng.uniform() < 0.25:
        out['returns'] = 'new'
    return out


def learner_grid(ytype):
    """every way of handing the two nuisance models over as learners (at least one of them), by interface"""
    kinds = [None, 'proba2', 'proba1', 'predict']
    qk = kinds if ytype == 'binary' else [None, 'predict']
    return [{'g': g, 'q': q} for g in kinds for q in qk if g or q]


def plans(rng, covs, ytype, grid, allowed=True):
    """(saturated side, sub-model of the other side, learners) of the cells run on one data set: every sub-model with
    learners drawn at random, or (grid) every learner combination with a sub-model drawn at random"""
    out = []
    for side, subs in (('outcome', gen.submodels(covs)), ('treatment', gen.submodels(covs, 'A'))):
        if grid:
            for lrn in learner_grid(ytype):
                out.append((side, subs[int(rng.integers(0, len(subs)))],
                            dict(lrn, returns='new' if rng.uniform() < 0.25 else 'self')))
        else:
            for sub in subs:
                out.append((side, sub, draw_learners(rng, side, ytype, allowed)))
    return out


def bound_kind(brec):
    if not brec:
        return 'none'
    return brec['form'] + ('' if brec['form'] == 'float' else str(len(brec['values']))) + ('/numpy' if brec['numpy'] else '')


def at_limit(t, qrec):
    """number of initial outcome predictions of a TMLE object that sit on a limit of the outcome bound (it bit there)"""
    if not qrec:
        return 0
    v = qrec['values']
    lo, hi = v[0], (1 - v[0] if qrec['form'] == 'float' else v[1])
    q = np.concatenate([np.asarray(t.QA1W, dtype=float), np.asarray(t.QA0W, dtype=float)])
    return int(np.sum((q == lo) | (q == hi)))


def learner(lrn, which):
    return None if not lrn.get(which) else gen.CellMeanLearner(lrn[which], lrn.get('returns', 'self'))


def unit_cell_means(df, covs, ytype, cb):
    """cell means of the outcome on the scale TMLE works on (binary: as is; continuous: unit interval, clipped at cb)"""
    y = df['Y'].astype(float)
    if ytype != 'binary':
        lo, hi = y.min(), y.max()
        y = ((y - lo) / (hi - lo)).clip(cb, 1 - cb)
    return y.groupby([df[c] for c in covs] + [df['A']]).mean().values


def aiptw_cells(chk, drv, df, covs, ytype, wcol, cf, dsid, rec, rng=None, grid=False):
    from zepid.causal.doublyrobust import AIPTW
    cols = covs + ['A', 'Y'] + ([wcol] if wcol else [])
    dist = 'poisson' if ytype == 'poisson' else 'gaussian'
    want = c01.measures(cf[('population', 1)], cf[('population', 0)], ytype)
    ref = {}
    for side, sub, lrn in plans(rng, covs, ytype, grid, allowed=wcol is None):
        reuse = rng is not None and 'obj' in ref and rng.uniform() < 0.5
        a = ref['obj'] if reuse else AIPTW(df[cols], exposure='A', outcome='Y', weights=wcol)
        ref['obj'] = a     # about half of the specifications are made on an object that was already specified and fitted
        # a bound that truncates nothing is only meaningful when the treatment model is the saturated one
        bnd, brec = unreached_bound(rng, df, covs, wcol) if (rng is not None and side == 'treatment') else (False, None)
        if rng is not None and side == 'outcome' and rng.uniform() < 0.5:
            # outcome model saturated: the treatment probabilities may be ANY non-zero numbers (aipw_dr_outcome), so
            # a truncation that really bites, symmetric or asymmetric (lo != 1-hi), must change nothing
            bnd, brec = gen.biting_bound(rng)
        # either model may be a user-supplied learner (custom_model=) with one of the documented interfaces; the
        # learner takes no weights, so only in unweighted analyses
        a.exposure_model(gen.sat_cov(covs) if side == 'treatment' else sub, custom_model=learner(lrn, 'g'), bound=bnd,
                         print_results=False)
        a.outcome_model(gen.sat_out(covs) if side == 'outcome' else sub, custom_model=learner(lrn, 'q'),
                        continuous_distribution=dist, print_results=False)
        a.fit()
        got = ({'RD': float(a.risk_difference), 'RR': float(a.risk_ratio)} if ytype == 'binary'
               else {'ATE': float(a.average_treatment_effect)})
        # how wrong is the misspecified side?
        if side == 'outcome':
            wrong = float(np.max(np.abs(a.df['_g1_'].values - c01.exact_prop(a.df, covs, wcol))))
        else:
            full = AIPTW(df[cols], exposure='A', outcome='Y', weights=wcol)
            if 'q' not in ref:
                full.exposure_model('1', print_results=False)
                full.outcome_model(gen.sat_out(covs), continuous_distribution=dist, print_results=False)
                ref['q'] = full.df['_pY1_'].values.copy()
            wrong = float(np.max(np.abs(a.df['_pY1_'].values - ref['q'])))
        case = {'estimator': 'AIPTW', 'saturated': side, 'other_model': sub, 'outcome': ytype, 'weights': wcol,
                'object_reused': bool(reuse), 'learners': lrn,
                'bound': brec, 'misspecification': wrong, 'impl': got, 'want': want, 'data': rec}
        chk.case(case, (dsid, 'AIPTW', side, sub) if wrong > 1e-3 else None,
                 sample={k: v for k, v in case.items() if k != 'data'} if chk.evals % 29 == 0 else None)
        chk.count('AIPTW/%s-saturated/%s' % (side, ytype))
        chk.count('AIPTW/learners/g=%s/q=%s' % (lrn['g'], lrn['q']))
        chk.count('bound/%s' % bound_kind(brec))
        for k, v in got.items():
            chk.d(close(v, want[k], **TOL), 'AIPTW %s = standardization with only the %s model saturated' % (k, side),
                  case)
        if drv is not None:
            kw = c01.to_float(gen.enc_rows(a.df, covs, wcol))
            rep, _ = drv.ask('aipw', c='f', q1=enc_list(a.df['_pY1_'], fx), q0=enc_list(a.df['_pY0_'], fx),
                             g1=enc_list(a.df['_g1_'], fx), g0=enc_list(a.df['_g0_'], fx), **kw)
            ok = rep['status'] == 'ok'
            if ok:
                mm = c01.measures(unfx(rep['y1']), unfx(rep['y0']), ytype)
                ok = all(close(got[k], mm[k], rtol=1e-9, atol=1e-12) for k in got)
            chk.k(ok, 'AIPTW estimates = model (generated pseudo-outcomes) on the fitted values',
                  dict(case, model=rep))


def tmle_cells(chk, df, covs, ytype, cf_raw, dsid, rec, rng=None, grid=False):
    from zepid.causal.doublyrobust import TMLE
    cols = covs + ['A', 'Y']
    objs = {}
    for cb in ((0.0005, 0.0) if ytype != 'binary' else (0.0005,)):
        if ytype == 'binary':
            cf = cf_raw
        else:
            lo, hi = df['Y'].min(), df['Y'].max()
            d2 = df.copy()
            u = (d2['Y'] - lo) / (hi - lo)
            u = u.where(~(u < cb), cb).where(~(u > 1 - cb), 1 - cb)
            d2['Y'] = u * (hi - lo) + lo
            cf = gen.closed_form(d2, covs)
        want = c01.measures(cf[('population', 1)], cf[('population', 0)], ytype)
        for side, sub, lrn in plans(rng, covs, ytype, grid):
            reuse = rng is not None and cb in objs and rng.uniform() < 0.5
            t = objs[cb] if reuse else TMLE(df[cols], exposure='A', outcome='Y', continuous_bound=cb)
            objs[cb] = t       # about half of the specifications are made on an object that was already specified and fitted
            bnd, brec = unreached_bound(rng, df, covs, None) if (rng is not None and side == 'treatment') else (False, None)
            qbnd, qrec = False, None
            if rng is not None and side == 'outcome' and rng.uniform() < 0.5:
                bnd, brec = gen.biting_bound(rng)       # biting bound: tmle_dr_outcome holds for any g > 0
            if rng is not None and rng.uniform() < 0.5:
                # truncation of the initial outcome predictions (outcome_model(bound=)): with the treatment model
                # saturated a truncated Q is one more misspecified Q inside (0,1) (tmle_dr_treatment), so a bound that
                # really bites must change nothing; with the outcome model saturated, a bound its predictions (the
                # cell means on TMLE's working scale) do not reach
                qbnd, qrec = (gen.biting_bound(rng) if side == 'treatment' else
                              gen.unreached_bound(rng, unit_cell_means(df, covs, ytype, cb), none_ok=False))
            t.exposure_model(gen.sat_cov(covs) if side == 'treatment' else sub, custom_model=learner(lrn, 'g'), bound=bnd,
                             print_results=False)
            t.outcome_model(gen.sat_out(covs) if side == 'outcome' else sub, custom_model=learner(lrn, 'q'), bound=qbnd,
                            print_results=False)
            t.fit()
            got = ({'RD': float(t.risk_difference), 'RR': float(t.risk_ratio), 'OR': float(t.odds_ratio)}
                   if ytype == 'binary' else {'ATE': float(t.average_treatment_effect)})
            case = {'estimator': 'TMLE', 'saturated': side, 'other_model': sub, 'outcome': ytype, 'object_reused': bool(reuse),
                    'continuous_bound': cb, 'bound': brec, 'outcome_bound': qrec, 'learners': lrn,
                    'outcome_bound_truncated_rows': at_limit(t, qrec),
                    'impl': got, 'want': want, 'data': rec}
            chk.case(case, (dsid, 'TMLE', side, sub, cb) if rec['_nontrivial'] else None)
            chk.count('TMLE/%s-saturated/%s' % (side, ytype))
            chk.count('TMLE/learners/g=%s/q=%s' % (lrn['g'], lrn['q']))
            chk.count('bound/%s' % bound_kind(brec))
            chk.count('TMLE/outcome bound/%s/%s' % (side + ' saturated', 'none' if not qrec else
                                                    ('bites' if case['outcome_bound_truncated_rows'] else 'does not bite')))
            for k, v in got.items():
                chk.d(close(v, want[k], rtol=1e-6, atol=1e-6),
                      'TMLE %s = standardization with only the %s model saturated' % (k, side), case)


def incomplete_cells(chk, rng, ytype):
    """TMLE on data with missing outcomes (related to treatment and covariates) AND some rows lacking a covariate: the
    rows without a covariate are dropped (documented), the rows without an outcome stay in the target population.
    Outcome model saturated (fitted on the observed outcomes), treatment / missingness models any sub-model -- or
    treatment and missingness models saturated, outcome model any sub-model: the plug-ins are the observed cell means
    standardized to ALL rows with complete covariates (tmle_dr_outcome / tmle_dr_treatment)."""
    import pandas as pd
    from zepid.causal.doublyrobust import TMLE
    df, covs = gen.cat_dataset(rng, outcome=ytype, missing='mar', ncov=int(rng.integers(1, 3)), max_strata=6,
                               index=str(rng.choice(['default', 'shifted', 'shuffled'])))
    if not df['Y'].isna().any():
        chk.discard('no outcome went missing in the draw')
        return
    # rows lacking one covariate: copies of existing rows (outcome observed or not), appended with fresh labels
    k = int(rng.integers(2, 7))
    extra = df.iloc[rng.integers(0, len(df), size=k)].copy()
    extra[covs[0]] = np.nan
    extra.index = [(max(df.index) + 1 + j) for j in range(k)]
    full = pd.concat([df, extra])
    full = full.iloc[rng.permutation(len(full))]
    cols = covs + ['A', 'Y']
    cb = 0.0
    cf = gen.closed_form(df, covs)             # df = the rows with complete covariates
    want = c01.measures(cf[('population', 1)], cf[('population', 0)], ytype)
    rec = gen.describe(df, covs, outcome=ytype, missing='mar', rows_lacking_a_covariate=k)
    rec['frame'] = gen.frame_record(full)
    dsid = hash(full.to_csv())
    for side, subs in (('outcome', gen.submodels(covs)), ('treatment', gen.submodels(covs, 'A'))):
        for sub in subs[:3]:
            use_mm = side == 'treatment' or rng.uniform() < 0.5
            case = {'estimator': 'TMLE', 'saturated': side, 'other_model': sub, 'outcome': ytype, 'continuous_bound': cb,
                    'missing_outcomes': int(df['Y'].isna().sum()), 'rows_lacking_a_covariate': k,
                    'missing_model': ('saturated' if side == 'treatment' else 'sub-model') if use_mm else None,
                    'want': want, 'data': rec}
            chk.case(case, (dsid, 'TMLE/incomplete', side, sub))
            chk.count('TMLE/incomplete/%s-saturated/%s' % (side, ytype))
            try:
                t = TMLE(full[cols], exposure='A', outcome='Y', continuous_bound=cb)
                t.exposure_model(gen.sat_cov(covs) if side == 'treatment' else sub, print_results=False)
                if use_mm:
                    t.missing_model(gen.sat_out(covs) if side == 'treatment' else (sub + ' + A' if 'A' not in sub else sub),
                                    print_results=False)
                t.outcome_model(gen.sat_out(covs) if side == 'outcome' else sub, print_results=False)
                t.fit()
            except Exception as ex:      # noqa: BLE001
                chk.d(False, 'TMLE runs on data with missing outcomes and rows lacking a covariate',
                      dict(case, impl_error=repr(ex)))
                continue
            got = ({'RD': float(t.risk_difference), 'RR': float(t.risk_ratio), 'OR': float(t.odds_ratio)}
                   if ytype == 'binary' else {'ATE': float(t.average_treatment_effect)})
            case['impl'] = got
            for kk, v in got.items():
                chk.d(close(v, want[kk], rtol=1e-6, atol=1e-6),
                      'TMLE %s with missing outcomes and rows lacking a covariate = observed cell means standardized to all '
                      'rows with complete covariates (only the %s side saturated)' % (kk, side), case)


def aipsw_cells(chk, drv, rng, tier):
    from zepid.causal.generalize import AIPSW
    nds = 5 if tier == 'quick' else 40
    for _ in range(nds):
        seed = int(rng.integers(0, 2 ** 31))
        index_kind = str(rng.choice(['default', 'shifted', 'shuffled']))
        _, dfn, dfa, covs = c16.make_frames(seed, index_kind)
        df = dfn
        cf = c16.closed_form(df, covs)
        rec = gen.describe(df, covs, data_seed=seed, index=index_kind)
        dsid = hash(df.to_csv())
        cols = covs + ['A', 'Y', 'S']
        sc = gen.sat_cov(covs)
        smp = dfn[dfn['S'] == 1]
        ptreat = c01.exact_prop(smp.assign(A=smp['A'].astype(int)), covs, None)   # saturated treatment probabilities (sample)
        for side in ('outcome', 'weights'):
            subs = gen.submodels(covs) if side == 'outcome' else gen.submodels(covs, 'A')
            for sub in subs:
                for g in (True, False):
                    for stab in (True, False):
                        for treat in ((True, False) if side == 'outcome' else (True,)):
                            # outcome model saturated: exposure and outcome may also be recorded outside the sample (a trial
                            # stacked on a cohort); the outcome model is fitted on the sample, so the standardization of
                            # the SAMPLE's cell means is still what is returned, whatever the weights
                            use_ay = side == 'outcome' and rng.uniform() < 0.5
                            df = dfa if use_ay else dfn
                            # truncation of the treatment probabilities (treatment_model(bound=)): with the weight models
                            # saturated, a bound that no fitted probability reaches must change nothing (any accepted
                            # form); with the outcome model saturated any weights will do, so also a bound that bites
                            bnd, brec = False, None
                            if treat and rng.uniform() < 0.6:
                                bnd, brec = (gen.unreached_bound(rng, ptreat, none_ok=False) if side == 'weights'
                                             else gen.biting_bound(rng))
                            e = AIPSW(df[cols], exposure='A', outcome='Y', selection='S', generalize=g)
                            e.sampling_model(sc if side == 'weights' else sub, stabilized=stab, print_results=False)
                            if treat:
                                e.treatment_model(sc if side == 'weights' else sub, stabilized=stab, print_results=False,
                                                  **({'bound': bnd} if brec else {}))
                            e.outcome_model(gen.sat_out(covs) if side == 'outcome' else sub, print_results=False)
                            e.fit()
                            first = (float(e.risk_difference), float(e.risk_ratio))
                            e.fit()       # history: a second fit() of the same specification changes nothing
                            chk.d(close(e.risk_difference, first[0], rtol=1e-12, atol=1e-14) and
                                  close(e.risk_ratio, first[1], rtol=1e-12, atol=1e-14),
                                  'AIPSW: a second fit() on the same object reproduces the first',
                                  {'estimator': 'AIPSW', 'saturated': side, 'other_model': sub, 'generalize': g,
                                   'stabilized': stab, 'treatment_model': treat, 'bound': brec, 'first': first,
                                   'second': [float(e.risk_difference), float(e.risk_ratio)], 'data': rec})
                            want_rd = float(cf[(g, 1)] - cf[(g, 0)])
                            want_rr = float(cf[(g, 1)] / cf[(g, 0)])
                            case = {'estimator': 'AIPSW', 'saturated': side, 'other_model': sub, 'generalize': g,
                                    'stabilized': stab, 'treatment_model': treat, 'bound': brec,
                                    'exposure_and_outcome_recorded_outside_sample': bool(use_ay),
                                    'impl': [float(e.risk_difference), float(e.risk_ratio)], 'want': [want_rd, want_rr],
                                    'data': rec}
                            chk.case(case, (dsid, 'AIPSW', side, sub, g, stab, treat),
                                     sample={k: v for k, v in case.items() if k != 'data'} if chk.evals % 37 == 0 else None)
                            chk.count('AIPSW/%s-saturated/%s/%s' % (side, 'generalize' if g else 'transport',
                                                                   'stab' if stab else 'unstab'))
                            chk.count('AIPSW/treatment bound/%s/%s' % (side + ' saturated', bound_kind(brec)))
                            sig = ({'estimator': 'AIPSW', 'stabilized': True, 'misspecified': 'outcome'}
                                   if (side == 'weights' and stab) else None)
                            chk.d(close(e.risk_difference, want_rd, **TOL) and close(e.risk_ratio, want_rr, **TOL),
                                  'AIPSW RD/RR = standardization with only the %s side saturated' % side, case,
                                  signature=sig)
                            if not use_ay:
                                c16.model_k(chk, drv, e, dfn, covs, g, stab, 'AIPSW', case,
                                            samp_model=sc if side == 'weights' else sub)


def run(chk, drv, rng, tier):
    reps = 2 if tier == 'quick' else 12
    for _ in range(reps):
        for ytype in ('binary', 'normal', 'poisson'):
            for wcol in (None, 'w'):
                df, covs = gen.cat_dataset(rng, outcome=ytype, weights=bool(wcol), ncov=int(rng.integers(1, 4)),
                                           max_strata=8, index=str(rng.choice(['default', 'shifted', 'shuffled'])))
                cf = gen.closed_form(df, covs, wcol)
                rec = gen.describe(df, covs, outcome=ytype, weights=wcol)
                rec['frame'] = gen.frame_record(df)
                rec['_nontrivial'] = bool(c01.nontrivial(df, covs, cf))
                dsid = hash(df.to_csv())
                chk.h_checked += 1
                if not np.allclose(c01.ref_fits(df, covs, wcol), c01.exact_prop(df, covs, wcol), atol=1e-7, rtol=0):
                    chk.discard('reference GLM fit missed the cell proportions by > 1e-7')
                    continue
                aiptw_cells(chk, drv, df, covs, ytype, wcol, cf, dsid, rec, rng)
                if wcol is None and ytype != 'poisson':
                    tmle_cells(chk, df, covs, ytype, cf, dsid, rec, rng)
    # configuration sweep of the custom_model= path: every combination of learner interfaces for the two nuisance models
    # (scikit-learn 2-column predict_proba / 1-d predict_proba / predict only; fit returning self or a new object) x which
    # side is saturated, sub-model and bound forms drawn at random
    for ytype in ('binary', 'binary', 'normal', 'poisson') * (1 if tier == 'quick' else 6):
        df, covs = gen.cat_dataset(rng, outcome=ytype, ncov=int(rng.integers(1, 4)), max_strata=8,
                                   index=str(rng.choice(['default', 'shifted', 'shuffled'])))
        cf = gen.closed_form(df, covs, None)
        rec = gen.describe(df, covs, outcome=ytype, weights=None)
        rec['frame'] = gen.frame_record(df)
        rec['_nontrivial'] = bool(c01.nontrivial(df, covs, cf))
        aiptw_cells(chk, drv, df, covs, ytype, None, cf, hash(df.to_csv()), rec, rng, grid=True)
        if ytype != 'poisson':
            tmle_cells(chk, df, covs, ytype, cf, hash(df.to_csv()), rec, rng, grid=True)
    for _ in range(3 if tier == 'quick' else 20):
        for ytype in ('binary', 'normal'):
            incomplete_cells(chk, rng, ytype)
    aipsw_cells(chk, drv, rng, tier)


def replay(rec):
    """re-run the stored failing cases on the implementation (data sets are stored exactly under case.data.frame, or
    regenerated from case.data.data_seed for the AIPSW cells)"""
    import common
    from zepid.causal.doublyrobust import AIPTW, TMLE
    from zepid.causal.generalize import AIPSW
    n = 0
    for f in rec.get('failures', []):
        c = f['case']
        d = c.get('data', {})
        print('replaying:', f['what'], {k: v for k, v in c.items() if k != 'data'})
        try:
            with common.quiet():
                if c.get('estimator') == 'AIPSW':
                    _, dfn, dfa, covs = c16.make_frames(d['data_seed'], d.get('index', 'default'))
                    df = dfa if c.get('exposure_and_outcome_recorded_outside_sample') else dfn
                    sc, side, sub = gen.sat_cov(covs), c['saturated'], c['other_model']
                    e = AIPSW(df[covs + ['A', 'Y', 'S']], exposure='A', outcome='Y', selection='S', generalize=c['generalize'])
                    e.sampling_model(sc if side == 'weights' else sub, stabilized=c['stabilized'], print_results=False)
                    if c['treatment_model']:
                        e.treatment_model(sc if side == 'weights' else sub, stabilized=c['stabilized'], print_results=False,
                                          **({'bound': bound_arg(c['bound'])} if c.get('bound') else {}))
                    e.outcome_model(gen.sat_out(covs) if side == 'outcome' else sub, print_results=False)
                    e.fit()
                    got = {'RD': float(e.risk_difference), 'RR': float(e.risk_ratio)}
                    want = dict(zip(('RD', 'RR'), c['want']))
                elif 'frame' in d and 'columns' in d['frame']:
                    df = gen.frame_from_record(d['frame'])
                    covs = sorted(x for x in df.columns if x.startswith('L'))
                    side, sub, ytype = c['saturated'], c['other_model'], c['outcome']
                    want = c['want']
                    if c['estimator'] == 'TMLE':
                        t = TMLE(df[covs + ['A', 'Y']], exposure='A', outcome='Y', continuous_bound=c.get('continuous_bound', 0.0005))
                        lrn = c.get('learners') or {}
                        t.exposure_model(gen.sat_cov(covs) if side == 'treatment' else sub, custom_model=learner(lrn, 'g'),
                                         bound=bound_arg(c.get('bound')), print_results=False)
                        if c.get('missing_model'):
                            t.missing_model(gen.sat_out(covs) if side == 'treatment' else (sub + ' + A' if 'A' not in sub else sub),
                                            print_results=False)
                        t.outcome_model(gen.sat_out(covs) if side == 'outcome' else sub, custom_model=learner(lrn, 'q'),
                                        bound=bound_arg(c.get('outcome_bound')), print_results=False)
                        t.fit()
                        got = ({'RD': float(t.risk_difference), 'RR': float(t.risk_ratio), 'OR': float(t.odds_ratio)}
                               if ytype == 'binary' else {'ATE': float(t.average_treatment_effect)})
                    else:
                        wcol = c.get('weights')
                        a = AIPTW(df[covs + ['A', 'Y'] + ([wcol] if wcol else [])], exposure='A', outcome='Y', weights=wcol)
                        lrn = c.get('learners') or {}
                        a.exposure_model(gen.sat_cov(covs) if side == 'treatment' else sub, custom_model=learner(lrn, 'g'),
                                         bound=bound_arg(c.get('bound')), print_results=False)
                        a.outcome_model(gen.sat_out(covs) if side == 'outcome' else sub, custom_model=learner(lrn, 'q'),
                                        continuous_distribution='poisson' if ytype == 'poisson' else 'gaussian', print_results=False)
                        a.fit()
                        got = ({'RD': float(a.risk_difference), 'RR': float(a.risk_ratio)} if ytype == 'binary'
                               else {'ATE': float(a.average_treatment_effect)})
                else:
                    print('  (data set too large to be stored; rerun with the recorded seed)')
                    continue
        except Exception as ex:      # noqa: BLE001
            print('  raised:', repr(ex))
            n += 1
            continue
        bad = [k for k in got if not close(got[k], want[k], rtol=1e-6, atol=1e-6)]
        print('  impl', got, '| closed form', {k: want[k] for k in got}, '| differs in' if bad else '| agrees', bad or '')
        n += bool(bad)
    print('failures reproduced:', n)
    return 1 if n else 0
