"""C01 -- saturated nuisance models reproduce nonparametric standardization (IPTW, TimeFixedGFormula, AIPTW, TMLE)."""
import numpy as np
import statsmodels.api as sm
import statsmodels.formula.api as smf

import gen
from common import rq, fx, unfx, enc_list, close

REQUIRED = ['iptw_saturated', 'iptw_measures_saturated', 'gformula_saturated', 'gformula_generated', 'iptw_final_weight_generated', 'aipw_calc_generated', 'aipw_saturated',
            'bound_first_two', 'iptw_saturated_unreached_bound']
RULE = ('random data sets with 1-3 categorical covariates (arity 2-4, <= 12 strata), positivity by construction, '
        'round 4: per cell a truncation bound that is not reached, in a drawn accepted form (float / list / tuple, python or '
        'numpy floats, a limit of exactly 0 or 1, more than two entries), and reporting / diagnostic methods (summary, '
        'positivity, standardized_mean_differences, run_diagnostics, plot_*) called with drawn arguments between the model '
        'specification and fit() and between fit() and reading the estimates; '
        'outcome binary / normal / count, with and without integer frequency weights; configuration cells enumerated '
        'per data set: IPTW stabilized x standardize (6), g-formula standardize (3), AIPTW, TMLE; every nuisance model '
        'saturated.  distinct = (data-set hash, estimator, options); non-trivial = the data set has >= 2 strata whose '
        'treated fractions differ and whose cell means differ (so that crude and standardized estimates differ)')
ASSUMPTIONS = ['statsmodels GLM (canonical link, freq_weights) solves its score equations: fitted values of a saturated '
               'model are the weighted cell means/proportions (measured per case on a reference fit made by the harness: '
               'gate H; a case is discarded only if that reference fit misses 1e-7)',
               'statsmodels GEE with independence working correlation and weights returns, for the saturated MSM Y~A, '
               'the weighted arm means (identity link), their log ratio (log link) and log odds ratio (logit link)',
               'TMLE with a continuous outcome is compared with the closed form of the outcome clipped to '
               '[cb, 1-cb] on the unit scale (documented continuous_bound); cb=0 gives the raw closed form']

TOL = dict(rtol=1e-6, atol=1e-8)       # closed form vs implementation: admits IRLS convergence error only


def ref_fits(df, covs, wcol):
    """reference saturated fits made by the harness with the documented arguments (gate H)"""
    f = sm.families.family.Binomial()
    kw = {'freq_weights': df[wcol]} if wcol else {}
    m = smf.glm('A ~ ' + gen.sat_cov(covs), df, family=f, **kw).fit()
    return np.asarray(m.predict(df))


def exact_prop(df, covs, wcol):
    sid = gen.strata_ids(df, covs)
    w = df[wcol].values.astype(float) if wcol else np.ones(len(df))
    out = np.zeros(len(df))
    for s in set(sid.tolist()):
        sel = sid == s
        out[sel] = (w[sel] * df['A'].values[sel]).sum() / w[sel].sum()
    return out


def measures(m1, m0, ytype):
    m1, m0 = float(m1), float(m0)
    if ytype == 'binary':
        return {'RD': m1 - m0, 'RR': m1 / m0, 'OR': (m1 / (1 - m1)) / (m0 / (1 - m0))}
    return {'ATE': m1 - m0, 'ratio': m1 / m0}


def nontrivial(df, covs, cf):
    crude1 = df.loc[df.A == 1, 'Y'].mean()
    return abs(crude1 - float(cf[('population', 1)])) > 1e-6 and len(set(gen.strata_ids(df, covs).tolist())) >= 2


def cell_rng(rec, *cell):
    """the stream from which the options of one configuration cell of one data set are drawn (bound form, reporting
    methods called along the way): seeded by a number drawn from the check's rng when the data set was generated and
    stored with it, so that a replay makes the same calls"""
    return np.random.default_rng([int(rec.get('hist_seed', 0))] + [int(c) for c in cell])


def observed(chk, obj, kind, hs, fitted, rec, p_any=1.0):
    """gen.observe + a count of what was called and how it ended (input distribution of the evidence file)"""
    calls = gen.observe(obj, kind, hs, fitted, rec.get('plots', 0.1), p_any)
    for name, _, status in calls:
        chk.count('observer/%s/%s/%s/%s' % (kind, 'after fit' if fitted else 'before fit', name, status))
    return calls


def read_iptw(ipt, ytype):
    if ytype == 'binary':
        got = {'RD': ipt.risk_difference.loc['A', 'RD'], 'RR': ipt.risk_ratio.loc['A', 'RR'],
               'OR': ipt.odds_ratio.loc['A', 'OR'], 'm0': ipt.risk_difference.loc['Intercept', 'RD']}
    elif ytype == 'normal':
        got = {'ATE': ipt.average_treatment_effect.loc['A', 'ATE'],
               'm0': ipt.average_treatment_effect.loc['Intercept', 'ATE']}
    else:
        got = {'ratio': float(np.exp(ipt.average_treatment_effect.loc['A', 'ATE'])),
               'm0': float(np.exp(ipt.average_treatment_effect.loc['Intercept', 'ATE']))}
    return {k: float(v) for k, v in got.items()}


def run_iptw(chk, drv, df, covs, ytype, wcol, cf, dsid, rec):
    cols = covs + ['A', 'Y'] + ([wcol] if wcol else [])
    miss = bool(df['Y'].isna().any())
    exact_p = exact_prop(df, covs, wcol)
    for stab in (True, False):
        for tgt in ('population', 'exposed', 'unexposed'):
            guarded(chk, 'IPTW', {'estimator': 'IPTW', 'stabilized': stab, 'standardize': tgt, 'outcome': ytype,
                                  'weights': wcol, 'missing_model': miss, 'data': rec},
                    iptw_cell, chk, drv, df, covs, ytype, wcol, cf, dsid, rec, stab, tgt, cols, miss, exact_p)


def guarded(chk, what, case, fn, *args):
    """an estimator that raises on one of these (valid, positivity by construction) data sets does not report the
    standardized estimate: a failure of the property on that cell, and the other cells are still run"""
    try:
        fn(*args)
    except RuntimeError as ex:
        if 'driver' in str(ex):      # the model process, not the estimator: tool failure (exit 2)
            raise
        chk.d(False, '%s reports estimates on a valid data set (it raised)' % what, dict(case, impl_error=repr(ex)[:300]))
    except Exception as ex:      # noqa: BLE001
        import traceback
        chk.d(False, '%s reports estimates on a valid data set (it raised)' % what,
              dict(case, impl_error=repr(ex)[:300], traceback=traceback.format_exc()[-1200:]))


def iptw_cell(chk, drv, df, covs, ytype, wcol, cf, dsid, rec, stab, tgt, cols, miss, exact_p):
    from zepid.causal.ipw import IPTW
    dist = 'poisson' if ytype == 'poisson' else 'gaussian'
    case = {'estimator': 'IPTW', 'stabilized': stab, 'standardize': tgt, 'outcome': ytype, 'weights': wcol,
            'missing_model': miss, 'data': rec}
    chk.case(case, (dsid, 'IPTW', stab, tgt) if rec['_nontrivial'] else None)
    chk.count('IPTW/%s/%s/%s%s%s' % (ytype, tgt, 'stab' if stab else 'unstab', '/w' if wcol else '',
                                     '/miss' if miss else ''))
    # a truncation bound that no fitted probability (denominator or numerator) reaches changes nothing, in
    # whichever accepted form it is given: none / symmetric float / pair, list or tuple, python or numpy floats,
    # a limit exactly 0 or 1, more than two entries (only the first two are documented to be used)
    hs = cell_rng(rec, 1, stab, ('population', 'exposed', 'unexposed').index(tgt))
    bnd, case['bound'] = gen.unreached_bound(hs, exact_p)
    ipt = IPTW(df[cols], treatment='A', outcome='Y', weights=wcol, standardize=tgt)
    ipt.treatment_model(gen.sat_cov(covs), stabilized=stab, bound=bnd, print_results=False)
    if miss:
        ipt.missing_model(gen.sat_out(covs), stabilized=stab, print_results=False)
    # reporting / diagnostic methods a user calls between the model specification and fit(), and between fit()
    # and reading the results: none of them may move an estimate
    case['observers_before_fit'] = observed(chk, ipt, 'IPTW', hs, False, rec, 0.5)
    ipt.marginal_structural_model('A')
    ipt.fit(continuous_distribution=dist)
    got = read_iptw(ipt, ytype)
    case['impl'] = got
    case['observers_after_fit'] = observed(chk, ipt, 'IPTW', hs, True, rec)
    seen = read_iptw(ipt, ytype)
    case['impl_after_observers'] = seen
    # history: a second fit() of the same specification on the same object changes nothing, and fit() does not
    # write into the exposed weights (state leaking between calls shows up here)
    w_before = np.array(ipt.iptw, dtype=float, copy=True)
    ipt.fit(continuous_distribution=dist)
    again = read_iptw(ipt, ytype)
    chk.d(all(close(float(again[k]), got[k], rtol=1e-10, atol=1e-12) for k in got),
          'IPTW: a second fit() on the same object reproduces the first', dict(case, second=str(again)))
    chk.d(np.allclose(np.asarray(ipt.iptw, dtype=float), w_before, rtol=0, atol=0, equal_nan=True),
          'IPTW.fit leaves the exposed weights IPTW.iptw untouched', case)
    want = measures(cf[(tgt, 1)], cf[(tgt, 0)], ytype)
    want['m0'] = float(cf[(tgt, 0)])
    # with missing outcomes and a frequency-weight column the missingness model of IPTW is fitted unweighted
    sig = {'estimator': 'IPTW', 'weights': True, 'missing_model': True} if (wcol and miss) else None
    for k, v in got.items():
        chk.d(close(v, want[k], **TOL), 'IPTW %s = closed-form standardization (%s, %s)' %
              (k, tgt, 'stabilized' if stab else 'unstabilized'), dict(case, want=want), signature=sig)
    if case['observers_after_fit']:
        chk.d(all(close(seen[k], want[k], **TOL) for k in seen),
              'IPTW estimates read after the reporting methods = closed-form standardization (%s, %s)' %
              (tgt, 'stabilized' if stab else 'unstabilized'), dict(case, want=want), signature=sig)
    # K, nuisance layer: zEpid's fitted treatment probabilities are the cell proportions
    chk.k(np.allclose(ipt.df['__denom__'].values, exact_p, rtol=0, atol=1e-7),
          'IPTW fitted treatment probabilities = weighted cell proportions', case)
    # K, bound layer: the model's use site of the bound (Bounds.estimatorBound / iptwRow: a float b = [b, 1-b], a
    # collection = its entries 0 and 1) applied to the saturated probabilities gives zEpid's probabilities and weights
    if drv is not None and case['bound']:
        b = case['bound']
        spec = ('float:' + fx(b['values'][0])) if b['form'] == 'float' else 'seq:' + ';'.join(fx(v) for v in b['values'])
        wv = ipt.df[wcol].values.astype(float) if wcol else np.ones(len(ipt.df))
        av = ipt.df['A'].values.astype(float)
        nn = np.full(len(av), float((wv * av).sum() / wv.sum()) if stab else 1.0)
        rep, _ = drv.ask('bw', kind='iptw', spec=spec, falsy=0, stab=int(stab), std=tgt,
                         a=enc_list(av.astype(int), str), n=enc_list(nn, fx), d=enc_list(exact_prop(ipt.df, covs, wcol), fx))
        ok = rep['status'] == 'ok'
        if ok:
            # 1e-7: IRLS convergence of zEpid's two logistic fits (the same tolerance as the nuisance layer below)
            ok = np.allclose([unfx(t) for t in rep['d'].split(',')], ipt.df['__denom__'].values, rtol=0, atol=1e-7) and \
                np.allclose([unfx(t) for t in rep['w'].split(',')], np.asarray(ipt.iptw, dtype=float), rtol=1e-6, atol=1e-7)
        chk.k(ok, 'IPTW probabilities and weights under a bound = model of the bound (entries 0 and 1 of a collection) '
                  'on the saturated fit', dict(case, model={k: v for k, v in rep.items() if k in ('status', 'err')}))
    # K, arithmetic layer: generated weight formula + Hajek means on the implementation's own fitted values
    if drv is not None:
        d = ipt.df['__denom__'].values
        n = np.broadcast_to(np.asarray(ipt.df['__numer__'].values, dtype=float), d.shape)
        mw = np.ones(len(d)) if ipt.ipmw is None else np.where(np.isnan(ipt.ipmw), 0.0, ipt.ipmw)
        kw = gen.enc_rows(ipt.df, covs, wcol)
        rep, line = drv.ask('iptw', c='f', stab=int(stab), tgt=tgt, n=enc_list(n, fx), d=enc_list(d, fx),
                            mw=enc_list(mw, fx), **to_float(kw))
        ok = rep['status'] == 'ok'
        if ok:
            wts = np.array([unfx(t) for t in rep['iptw'].split(',')])
            ok = np.allclose(wts, ipt.iptw, rtol=1e-12, atol=0)
            mm = measures(unfx(rep['m1']), unfx(rep['m0']), ytype)
            mm['m0'] = unfx(rep['m0'])
            ok = ok and all(close(got[k], mm[k], rtol=1e-7, atol=1e-9) for k in got)
        chk.k(ok, 'IPTW weights and MSM estimates = model on the fitted values', dict(case, model=rep))


def run_gformula(chk, drv, df, covs, ytype, wcol, cf, dsid, rec):
    from zepid.causal.gformula import TimeFixedGFormula
    cols = covs + ['A', 'Y'] + ([wcol] if wcol else [])
    for tgt in ('population', 'exposed', 'unexposed'):
        case = {'estimator': 'TimeFixedGFormula', 'standardize': tgt, 'outcome': ytype, 'weights': wcol, 'data': rec}
        chk.case(case, (dsid, 'GF', tgt) if rec['_nontrivial'] else None)
        chk.count('GF/%s/%s%s' % (ytype, tgt, '/w' if wcol else ''))
        g = TimeFixedGFormula(df[cols], exposure='A', outcome='Y', outcome_type=ytype, standardize=tgt, weights=wcol)
        g.outcome_model(gen.sat_out(covs), print_results=False)
        # diagnostics called between the model and the fits, and between a fit and reading its result (both draw a
        # figure, so only some cells make such calls)
        hs = cell_rng(rec, 2, ('population', 'exposed', 'unexposed').index(tgt))
        obs = []
        obs += observed(chk, g, 'TimeFixedGFormula', hs, False, dict(rec, plots=1.0), rec.get('plots', 0.1))
        g.fit('all')
        obs += observed(chk, g, 'TimeFixedGFormula', hs, True, dict(rec, plots=1.0), rec.get('plots', 0.1))
        r1 = float(g.marginal_outcome)
        q1 = np.asarray(g.predicted_df['Y'], dtype=float)
        g.fit('none')
        obs += observed(chk, g, 'TimeFixedGFormula', hs, True, dict(rec, plots=1.0), rec.get('plots', 0.1))
        r0 = float(g.marginal_outcome)
        q0 = np.asarray(g.predicted_df['Y'], dtype=float)
        case['observers'] = obs
        # history: a stochastic fit in between must not leak into a later deterministic fit
        if ytype == 'binary':
            g.fit_stochastic(p=0.5, samples=3, seed=7)
            g.fit('all')
            chk.d(close(float(g.marginal_outcome), r1, rtol=1e-12, atol=1e-14),
                  "g-formula: fit('all') after fit_stochastic() on the same object reproduces the first fit('all') (%s)" % tgt,
                  dict(case, first=r1, after=float(g.marginal_outcome)))
        case['impl'] = [r1, r0]
        chk.d(close(r1, float(cf[(tgt, 1)]), **TOL) and close(r0, float(cf[(tgt, 0)]), **TOL),
              "g-formula fit('all')/fit('none') = closed-form standardization (%s)" % tgt,
              dict(case, want=[float(cf[(tgt, 1)]), float(cf[(tgt, 0)])]))
        if drv is not None:
            kw = gen.enc_rows(g.gf, covs, wcol)
            rep, _ = drv.ask('gform', c='f', tgt=tgt, q1=enc_list(q1, fx), q0=enc_list(q0, fx), **to_float(kw))
            chk.k(rep['status'] == 'ok' and close(unfx(rep['g1']), r1, rtol=1e-10) and close(unfx(rep['g0']), r0, rtol=1e-10),
                  'g-formula marginal = model on the predictions', dict(case, model=rep))
            for pred, got, lab in ((q1, r1, 'all'), (q0, r0, 'none')):
                rep2, _ = drv.ask('gfmarg', c='f', hasw=int(bool(wcol)), tgt=tgt, pred=enc_list(pred, fx), **to_float(kw))
                chk.k(rep2['status'] == 'ok' and close(unfx(rep2['m']), got, rtol=1e-10),
                      "g-formula fit('%s') marginal = definition generated from its source" % lab, dict(case, model=rep2))


def to_float(kw):
    from fractions import Fraction
    out = {}
    for k, v in kw.items():
        if k in ('y', 'w'):
            out[k] = ','.join('_' if t == '_' else fx(float(Fraction(t))) for t in v.split(','))
        else:
            out[k] = v
    return out


def run_aiptw(chk, drv, df, covs, ytype, wcol, cf, dsid, rec):
    from zepid.causal.doublyrobust import AIPTW
    cols = covs + ['A', 'Y'] + ([wcol] if wcol else [])
    case = {'estimator': 'AIPTW', 'outcome': ytype, 'weights': wcol, 'data': rec}
    chk.case(case, (dsid, 'AIPTW') if rec['_nontrivial'] else None)
    chk.count('AIPTW/%s%s' % (ytype, '/w' if wcol else ''))
    hs = cell_rng(rec, 3)
    bnd, case['bound'] = gen.unreached_bound(hs, exact_prop(df, covs, wcol))
    a = AIPTW(df[cols], exposure='A', outcome='Y', weights=wcol)
    a.exposure_model(gen.sat_cov(covs), bound=bnd, print_results=False)
    a.outcome_model(gen.sat_out(covs), continuous_distribution='poisson' if ytype == 'poisson' else 'gaussian',
                    print_results=False)
    case['observers_before_fit'] = observed(chk, a, 'AIPTW', hs, False, rec, 0.5)
    a.fit()
    want = measures(cf[('population', 1)], cf[('population', 0)], ytype)

    def read():
        if ytype == 'binary':
            return {'RD': float(a.risk_difference), 'RR': float(a.risk_ratio)}
        return {'ATE': float(a.average_treatment_effect)}
    got = read()
    case['impl'] = got
    case['observers_after_fit'] = observed(chk, a, 'AIPTW', hs, True, rec)
    seen = read()
    case['impl_after_observers'] = seen
    if case['observers_after_fit']:
        chk.d(all(close(seen[k], want[k], **TOL) for k in seen),
              'AIPTW estimates read after the reporting methods = closed-form standardization', dict(case, want=want))
    a.fit()
    again = ({'RD': float(a.risk_difference), 'RR': float(a.risk_ratio)} if ytype == 'binary'
             else {'ATE': float(a.average_treatment_effect)})
    chk.d(all(close(again[k], got[k], rtol=1e-12, atol=1e-14) for k in got),
          'AIPTW: a second fit() on the same object reproduces the first', dict(case, second=again))
    for k, v in got.items():
        chk.d(close(v, want[k], **TOL), 'AIPTW %s = closed-form standardization' % k, dict(case, want=want))
    if drv is not None:
        kw = gen.enc_rows(a.df, covs, wcol)
        rep, _ = drv.ask('aipw', c='f', q1=enc_list(a.df['_pY1_'], fx), q0=enc_list(a.df['_pY0_'], fx),
                         g1=enc_list(a.df['_g1_'], fx), g0=enc_list(a.df['_g0_'], fx), **to_float(kw))
        ok = rep['status'] == 'ok'
        if ok:
            mm = measures(unfx(rep['y1']), unfx(rep['y0']), ytype)
            ok = all(close(got[k], mm[k], rtol=1e-9, atol=1e-12) for k in got)
        chk.k(ok, 'AIPTW estimates = model (generated pseudo-outcomes) on the fitted values', dict(case, model=rep))


def run_tmle(chk, drv, df, covs, ytype, cf_raw, dsid, rec, cb):
    from zepid.causal.doublyrobust import TMLE
    cols = covs + ['A', 'Y']
    miss = bool(df['Y'].isna().any())
    case = {'estimator': 'TMLE', 'outcome': ytype, 'continuous_bound': cb, 'missing_model': miss, 'data': rec}
    chk.case(case, (dsid, 'TMLE', cb) if rec['_nontrivial'] else None)
    chk.count('TMLE/%s/cb=%s%s' % (ytype, cb, '/miss' if miss else ''))
    hs = cell_rng(rec, 4, int(cb * 1e4))
    bnd, case['bound'] = gen.unreached_bound(hs, exact_prop(df, covs, None))
    t = TMLE(df[cols], exposure='A', outcome='Y', continuous_bound=cb)
    t.exposure_model(gen.sat_cov(covs), bound=bnd, print_results=False)
    if miss:
        t.missing_model(gen.sat_out(covs), print_results=False)
    if ytype == 'binary':
        t.outcome_model(gen.sat_out(covs), print_results=False)
    else:
        t.outcome_model(gen.sat_out(covs), print_results=False,
                        continuous_distribution='poisson' if ytype == 'poisson' else 'gaussian')
    case['observers_before_fit'] = observed(chk, t, 'TMLE', hs, False, rec, 0.5)
    t.fit()

    def read():
        if ytype == 'binary':
            return {'RD': float(t.risk_difference), 'RR': float(t.risk_ratio), 'OR': float(t.odds_ratio)}
        return {'ATE': float(t.average_treatment_effect)}
    got = read()
    case['observers_after_fit'] = observed(chk, t, 'TMLE', hs, True, rec)
    seen = read()
    case['impl_after_observers'] = seen
    if ytype == 'binary':
        cf = cf_raw
    else:
        # closed form of the outcome clipped on the unit scale (documented continuous_bound)
        lo, hi = df['Y'].min(), df['Y'].max()
        d2 = df.copy()
        u = (d2['Y'] - lo) / (hi - lo)
        u = u.where(~(u < cb), cb).where(~(u > 1 - cb), 1 - cb)
        d2['Y'] = u * (hi - lo) + lo
        d2.loc[df['Y'].isna(), 'Y'] = np.nan
        cf = gen.closed_form(d2, covs)
    want = measures(cf[('population', 1)], cf[('population', 0)], ytype)
    case['impl'] = got
    for k, v in got.items():
        chk.d(close(v, want[k], rtol=1e-6, atol=1e-7), 'TMLE %s = closed-form standardization' % k,
              dict(case, want=want))
    if case['observers_after_fit']:
        chk.d(all(close(seen[k], want[k], rtol=1e-6, atol=1e-7) for k in seen),
              'TMLE estimates read after the reporting methods = closed-form standardization', dict(case, want=want))


def one_dataset(chk, drv, rng, ytype, wcol, missing, which, frac=False):
    df, covs = gen.cat_dataset(rng, outcome=ytype, weights=('frac' if frac else bool(wcol)), missing=missing,
                               index=str(rng.choice(['default', 'shifted', 'shuffled'])))
    cf = gen.closed_form(df, covs, wcol)
    rec = gen.describe(df, covs, outcome=ytype, weights=('non-integer' if frac else wcol), missing=missing)
    rec['frame'] = gen.frame_record(df)
    rec['_nontrivial'] = bool(nontrivial(df, covs, cf))
    rec['hist_seed'] = int(rng.integers(0, 2 ** 31))
    rec['plots'] = PLOTS
    dsid = hash(df.to_csv())
    # gate H: reference saturated fit reproduces the cell proportions
    chk.h_checked += 1
    if not np.allclose(ref_fits(df, covs, wcol), exact_prop(df, covs, wcol), atol=1e-7, rtol=0):
        chk.discard('reference GLM fit missed the cell proportions by > 1e-7')
        return
    # model's own closed form (Lean `std`, exact) against the harness's independent Fraction computation
    if drv is not None:
        rep, _ = drv.ask('std', **gen.enc_rows(df, covs, wcol))
        from fractions import Fraction
        names = {'pop1': ('population', 1), 'pop0': ('population', 0), 'exp1': ('exposed', 1),
                 'exp0': ('exposed', 0), 'unx1': ('unexposed', 1), 'unx0': ('unexposed', 0)}
        chk.k(rep['status'] == 'ok' and all(Fraction(rep[k]) == cf[v] for k, v in names.items()),
              'Lean std (exact) = independent closed form', {'data': rec, 'model': rep})
    if 'iptw' in which:
        run_iptw(chk, drv, df, covs, ytype, wcol, cf, dsid, rec)
    if 'gf' in which and not (missing and False):
        guarded(chk, 'TimeFixedGFormula', {'estimator': 'TimeFixedGFormula', 'outcome': ytype, 'weights': wcol, 'data': rec},
                run_gformula, chk, drv, df, covs, ytype, wcol, cf, dsid, rec)
    if 'aiptw' in which and not missing:
        guarded(chk, 'AIPTW', {'estimator': 'AIPTW', 'outcome': ytype, 'weights': wcol, 'data': rec},
                run_aiptw, chk, drv, df, covs, ytype, wcol, cf, dsid, rec)
    if 'tmle' in which and not wcol:
        for cb in ((0.0005, 0.0) if ytype != 'binary' else (0.0005,)):
            guarded(chk, 'TMLE', {'estimator': 'TMLE', 'outcome': ytype, 'continuous_bound': cb, 'data': rec},
                    run_tmle, chk, drv, df, covs, ytype, cf, dsid, rec, cb)


def aipw_calculator_direct(chk, drv, rng, n_cases):
    """gate K for the definition generated from the text of `aipw_calculator`: direct calls on random vectors, with
    missing (NaN) outcomes, with and without weights, difference and ratio (estimate and variance)"""
    from zepid.causal.utils import aipw_calculator
    import pandas as pd
    for _ in range(n_cases):
        n = int(rng.integers(8, 60))
        a = rng.integers(0, 2, size=n).astype(float)
        a[:2] = [0.0, 1.0]
        y = np.round(rng.uniform(0, 1, size=n), 3) if rng.uniform() < 0.5 else rng.integers(0, 2, size=n).astype(float)
        miss = rng.uniform(size=n) < float(rng.choice([0.0, 0.0, 0.2, 0.4]))
        miss[:4] = False
        y = np.where(miss, np.nan, y)
        q1, q0 = rng.uniform(0.05, 0.95, size=n), rng.uniform(0.05, 0.95, size=n)
        g1 = rng.uniform(0.1, 0.9, size=n)
        g0 = 1 - g1 if rng.uniform() < 0.5 else rng.uniform(0.1, 0.9, size=n)   # AIPTW bounds g1 and g0 separately
        hasw = bool(rng.uniform() < 0.5)
        w = rng.integers(1, 5, size=n).astype(float) if hasw else None
        diff = bool(rng.uniform() < 0.5)
        case = {'fn': 'aipw_calculator', 'n': n, 'difference': diff, 'weights': hasw, 'missing': int(miss.sum()),
                'a': a.tolist(), 'y': [None if np.isnan(v) else float(v) for v in y], 'q1': q1.tolist(), 'q0': q0.tolist(),
                'g1': g1.tolist(), 'g0': g0.tolist(), 'w': None if w is None else w.tolist()}
        chk.case(case, ('aipw_calculator', hash(str(case))) if miss.any() or hasw else None)
        chk.count('aipw_calculator/%s/%s/%s' % ('diff' if diff else 'ratio', 'w' if hasw else 'nw', 'nan' if miss.any() else 'complete'))
        est, var = aipw_calculator(y=y, a=a, py_a=q1, py_n=q0, pa1=g1, pa0=g0, difference=diff,
                                   weights=None if w is None else pd.Series(w), splits=None, continuous=True)
        if drv is None:
            continue
        rep, _ = drv.ask('aipwcalc', c='f', difference=int(diff), hasw=int(hasw), nan=fx(float('nan')),
                         s=enc_list([0] * n, str), a=enc_list(a.astype(int), str),
                         y=','.join('_' if np.isnan(v) else fx(v) for v in y),
                         w=enc_list(np.ones(n) if w is None else w, fx), q1=enc_list(q1, fx), q0=enc_list(q0, fx),
                         g1=enc_list(g1, fx), g0=enc_list(g0, fx))
        ok = rep['status'] == 'ok' and close(unfx(rep['est']), est, rtol=1e-10, atol=1e-12) and \
            close(unfx(rep['var']), var, rtol=1e-9, atol=1e-14)
        chk.k(ok, 'aipw_calculator = definition generated from its source (estimate and variance, NaN outcomes skipped)',
              dict(case, impl=[float(est), float(var)], model=rep))
    # gate D on the function itself: with the saturated outcome fit (cell means) as predictions and treatment
    # probabilities that are arbitrary functions of the stratum -- g1 and g0 need not sum to one: AIPTW truncates them
    # separately -- the pseudo-outcome means are the standardized means (Props/C02 aipw_dr_outcome, C01 aipw_saturated)
    for _ in range(max(20, n_cases // 3)):
        k = int(rng.integers(2, 4))
        n = int(rng.integers(6 * k, 60))
        s = rng.integers(0, k, size=n)
        a = rng.integers(0, 2, size=n).astype(float)
        for j in range(k):                      # every (stratum, arm) cell is occupied
            s[2 * j], a[2 * j], s[2 * j + 1], a[2 * j + 1] = j, 0.0, j, 1.0
        y = np.round(rng.uniform(0, 1, size=n), 3) if rng.uniform() < 0.5 else rng.integers(0, 2, size=n).astype(float)
        hasw = bool(rng.uniform() < 0.5)
        w = rng.integers(1, 5, size=n).astype(float) if hasw else np.ones(n)
        cm = {(j, v): float(np.sum((w * y)[(s == j) & (a == v)]) / np.sum(w[(s == j) & (a == v)]))
              for j in range(k) for v in (0.0, 1.0)}
        q1 = np.array([cm[(j, 1.0)] for j in s])
        q0 = np.array([cm[(j, 0.0)] for j in s])
        g1s, g0s = rng.uniform(0.1, 0.9, size=k), rng.uniform(0.1, 0.9, size=k)
        if rng.uniform() < 0.3:
            g0s = 1 - g1s
        g1, g0 = g1s[s], g0s[s]
        std1 = sum(np.sum(w[s == j]) * cm[(j, 1.0)] for j in range(k)) / np.sum(w)
        std0 = sum(np.sum(w[s == j]) * cm[(j, 0.0)] for j in range(k)) / np.sum(w)
        diff = bool(rng.uniform() < 0.5)
        case = {'fn': 'aipw_calculator', 'kind': 'saturated outcome predictions, treatment probabilities by stratum',
                'difference': diff, 'weights': hasw, 's': s.tolist(), 'a': a.tolist(), 'y': y.tolist(),
                'w': w.tolist(), 'g1': g1s.tolist(), 'g0': g0s.tolist(), 'std': [float(std1), float(std0)]}
        chk.case(case, ('aipw_calculator_sat', hash(str(case))))
        chk.count('aipw_calculator/saturated/%s/%s' % ('diff' if diff else 'ratio', 'w' if hasw else 'nw'))
        if not diff and abs(std0) < 1e-9:
            chk.discard('standardized risk under no treatment is 0: ratio undefined')
            continue
        try:
            est, _ = aipw_calculator(y=y, a=a, py_a=q1, py_n=q0, pa1=g1, pa0=g0, difference=diff,
                                     weights=pd.Series(w) if hasw else None, splits=None, continuous=True)
            want = std1 - std0 if diff else std1 / std0
            chk.d(close(float(est), want, rtol=1e-9, atol=1e-11),
                  'aipw_calculator with saturated outcome predictions = standardized %s (treatment probabilities arbitrary '
                  'by stratum, not complementary)' % ('difference' if diff else 'ratio'), dict(case, impl=float(est), want=float(want)))
        except Exception as e:
            chk.d(False, 'aipw_calculator raised on valid input: %s' % repr(e)[:200], case)



PLOTS = 0.2      # chance that a reporting call may be one that draws a figure (0.25 s each); thorough tier: 0.4


def run(chk, drv, rng, tier):
    global PLOTS
    PLOTS = 0.2 if tier == 'quick' else 0.4
    reps = 5 if tier == "quick" else 40
    aipw_calculator_direct(chk, drv, rng, 150 if tier == 'quick' else 2000)
    for _ in range(reps):
        for ytype in ('binary', 'normal', 'poisson'):
            # no weights / integer frequency weights / non-integer (sampling) weights varying inside the cells
            for wcol, frac in ((None, False), ('w', False), ('w', True)):
                one_dataset(chk, drv, rng, ytype, wcol, None, ('iptw', 'gf', 'aiptw', 'tmle'), frac=frac)
    # missing outcomes (C10 shares these cells): IPTW / TMLE with a saturated missingness model, g-formula prediction
    for _ in range(reps):
        for ytype in ('binary', 'normal'):
            for missing in ('mcar', 'mar'):
                one_dataset(chk, drv, rng, ytype, None, missing, ('iptw', 'gf', 'tmle'))


def replay(rec):
    import common
    chk = common.Check('C01', 'quick', rec.get('seed', 0))
    n = 0
    for f in rec.get('failures', []):
        c = f['case']
        print('replaying:', f['what'], {k: v for k, v in c.items() if k not in ('data',)})
        if c.get('fn') == 'aipw_calculator' and 'std' in c:
            from zepid.causal.utils import aipw_calculator
            import pandas as pd
            sidx = np.array(c['s'])
            a, y, w = np.array(c['a']), np.array(c['y']), np.array(c['w'])
            cm = {(j, v): float(np.sum((w * y)[(sidx == j) & (a == v)]) / np.sum(w[(sidx == j) & (a == v)]))
                  for j in set(c['s']) for v in (0.0, 1.0)}
            q1 = np.array([cm[(j, 1.0)] for j in sidx])
            q0 = np.array([cm[(j, 0.0)] for j in sidx])
            est, _ = aipw_calculator(y=y, a=a, py_a=q1, py_n=q0, pa1=np.array(c['g1'])[sidx], pa0=np.array(c['g0'])[sidx],
                                     difference=c['difference'], weights=pd.Series(w) if c['weights'] else None,
                                     splits=None, continuous=True)
            want = c['std'][0] - c['std'][1] if c['difference'] else c['std'][0] / c['std'][1]
            chk.d(close(float(est), want, rtol=1e-9, atol=1e-11), f['what'], dict(c, impl=float(est), want=want))
            print('  impl', float(est), 'standardized', want)
            n = len(chk.d_fail)
            continue
        data = c.get('data', {})
        if 'frame' not in data or 'columns' not in data['frame']:
            print('  (data set too large to be stored; rerun with the recorded seed)')
            continue
        df = gen.frame_from_record(data['frame'])
        covs = sorted(c for c in df.columns if c.startswith('L'))
        wcol = 'w' if 'w' in df.columns else None
        cf = gen.closed_form(df, covs, wcol)
        data['_nontrivial'] = True
        with common.quiet():
            fn = {'IPTW': run_iptw, 'TimeFixedGFormula': run_gformula, 'AIPTW': run_aiptw}.get(c['estimator'])
            if fn is not None:
                guarded(chk, c['estimator'], c, fn, chk, None, df, covs, c['outcome'], wcol, cf, 0, data)
            if c['estimator'] == 'TMLE':
                guarded(chk, 'TMLE', c, run_tmle, chk, None, df, covs, c['outcome'], cf, 0, data,
                        c.get('continuous_bound', 0.0005))
        n = len(chk.d_fail)
    print('failures reproduced:', n)
    return 1 if n else 0
