"""C14 -- stochastic and conditional treatment plans mean what they say
(StochasticIPTW, StochasticTMLE, TimeFixedGFormula.fit_stochastic)."""
import itertools
import sys
import warnings
from fractions import Fraction

import numpy as np
import pandas as pd
import statsmodels.api as sm
import statsmodels.formula.api as smf

import gen
from common import fx, unfx, rq, enc_list, close
from props.c05 import ref_fit, allclose, fxs, bits, unf_opt, guard, frame_hash, mixed_dataset, relabel, plan_prob

REQUIRED = ['numer_order_free', 'cond_const_eq_uncond', 'stoch_iptw_const_eq_uncond', 'stoch_iptw_order_free', 'mc_assign_order_free', 'gf_assign_order_free', 'p_one_zero',
            'gf_assign_empty_condition', 'gf_assign_iff_drawn',
            'gf_p_one_zero', 'tmle_mc_degenerate', 'stoch_iptw_mixture', 'mc_mixture_realised', 'mc_average_mixture',
            'tmle_eps_zero',
            # ties to the source (Props/C14_Gen, C14_GfStoch): generated definitions = the model
            'stoch_iptw_fit_generated', 'numer_order_free_generated', 'p_one_zero_generated', 'stoch_iptw_mixture_generated',
            'gf_stoch_fit_generated', 'gf_stoch_size_generated', 'gf_order_free_generated', 'gf_p_one_zero_generated',
            'mc_average_mixture_generated']
RULE = ('categorical data sets (1-3 covariates of arity 2-4, <= 12 strata, positivity by construction; binary / normal '
        'outcomes) with saturated models, and mixed data sets (categorical + continuous predictors) with non-saturated '
        'models; plans: unconditional p on the grid {0, .2, .5, .75, 1}, and 2-4 exclusive exhaustive conditions over the '
        'covariates (written over `df` / `g` as each class evaluates them), condition sets in which one condition is '
        'met by nobody in the data (a level absent from the sample), condition sets that refer to the observed treatment '
        '(alone and crossed with a covariate: keep a share of the treated, start a share of the untreated; [1,0] = the '
        'natural course), with random probabilities (incl. all-0 and '
        'all-1, and all-equal p) listed in EVERY order (all permutations), as the complementary strings of a two-cell partition, and '
        'as a one-pair listing selecting everybody; StochasticTMLE with custom stratum-proportion learners for the treatment / '
        'outcome / both models; frequency weights differing between arms within strata (StochasticIPTW); missing outcomes x '
        'predict_missing (stochastic g-formula, incl. 0/1-per-condition plans vs the deterministic custom rule); histories '
        'of plans and re-specified models on one object vs fresh objects; resamples in {1, 3, 5, 10, 50}; seeds fixed and the draws captured '
        'by wrapping np.random.choice / np.random.binomial at run time, then replayed attached to their conditions under '
        'each permutation.  distinct = (frame hash, estimator, plan, order); non-trivial = the plan is conditional with '
        '>= 2 different probabilities, or the strata have different treated fractions and cell means (mixture differs '
        'from the crude mean)')
ASSUMPTIONS = ['np.random.seed(s), for every s including 0, determines all later draws of the global generator; '
               'numpy RNG: np.random.choice(pool, size=k, replace=False) returns k distinct members of pool and '
               'np.random.binomial(1, p, n) a 0/1 vector of length n, all 1 (0) when p = 1 (0): measured on every captured '
               'draw (gate H); the distribution of the draws is not assumed (theorems hold for every draw)',
               'statsmodels GLM solves the score equations of the saturated treatment / outcome models (reference fits by '
               'the harness; gate H); the intercept-only targeting fit of StochasticTMLE returns the root of its score '
               'equation (measured: |eps| <= 1e-6 when both models are saturated)',
               'Monte-Carlo error itself (|realised - nominal| treated fraction) is measured and reported, not bounded']

TOLX = dict(rtol=1e-12, atol=1e-14)    # same computation on the same numbers
TOLD = dict(rtol=1e-9, atol=1e-12)     # documented formula on independent reference fits (same MLE)
TOLC = dict(rtol=1e-6, atol=1e-8)      # closed form that does not pass through fitted values (IRLS convergence)

SAMPLES = [1, 3, 10, 50]


# ------------------------------------------------------------------------------------------- helpers
def cells(df, covs, wcol=None):
    """exact per-stratum quantities: ids, N_s (all / exposed / unexposed), cell means (Fractions)"""
    sid = gen.strata_ids(df, covs)
    w = df[wcol].values if wcol else np.ones(len(df), dtype=int)
    out = {'sid': sid, 'S': sorted(set(sid.tolist())), 'N': {}, 'cm': {}}
    for s in out['S']:
        for a in (0, 1):
            sel = (sid == s) & (df['A'].values == a) & ~np.isnan(df['Y'].values.astype(float))
            num = sum(Fraction(float(wi)) * Fraction(float(yi)) for wi, yi in zip(w[sel], df['Y'].values[sel]))
            out['cm'][(s, a)] = num / sum(Fraction(float(wi)) for wi in w[sel])
    return out


def mixture_exact(df, cl, frac, target, wcol=None):
    """sum_s Nt_s (f_s ybar_s1 + (1-f_s) ybar_s0) / sum_s Nt_s with f = dict stratum -> Fraction"""
    sid = cl['sid']
    w = df[wcol].values if wcol else np.ones(len(df), dtype=int)
    num = den = Fraction(0)
    for s in cl['S']:
        nt = sum(Fraction(float(wi)) for wi in w[(sid == s) & target])
        num += nt * (frac[s] * cl['cm'][(s, 1)] + (1 - frac[s]) * cl['cm'][(s, 0)])
        den += nt
    return num / den


def target_mask(df, tgt):
    if tgt == 'population':
        return np.ones(len(df), dtype=bool)
    return (df['A'].values == 1) if tgt == 'exposed' else (df['A'].values == 0)


def cond_sets(df, covs, rng, who):
    """2-4 exclusive exhaustive conditions over the covariates, as strings over `who` ('df' or 'g')"""
    c0 = covs[0]
    lv = sorted(df[c0].unique())
    out = [["%s['%s']==%d" % (who, c0, v) for v in lv]]                                   # one per level (2-4)
    out.append(["%s['%s']==%d" % (who, c0, lv[0]), "%s['%s']!=%d" % (who, c0, lv[0])])    # 2 conditions
    if len(covs) > 1:
        c1 = covs[1]
        l1 = sorted(df[c1].unique())
        out.append(["(%s['%s']==%d) & (%s['%s']==%d)" % (who, c0, lv[0], who, c1, l1[0]),
                    "(%s['%s']==%d) & (%s['%s']!=%d)" % (who, c0, lv[0], who, c1, l1[0]),
                    "(%s['%s']!=%d) & (%s['%s']==%d)" % (who, c0, lv[0], who, c1, l1[0]),
                    "(%s['%s']!=%d) & (%s['%s']!=%d)" % (who, c0, lv[0], who, c1, l1[0])])  # 4 conditions
    return out


def cond_sets_r4(df, covs, rng, who):
    """[(tag, conditions)]: exclusive exhaustive condition sets of two kinds the plain sets do not contain --
    'empty': one of the conditions is met by nobody in this data set (a covariate level absent from the sample, placed at
    a random position of the listing; every listing order is tried by the cells anyway);
    'treat': the conditions refer to the OBSERVED treatment (keep a share of the treated on treatment, start a share of the
    untreated: an intervention that depends on the natural value of treatment), alone and crossed with a covariate"""
    c0 = covs[0]
    lv = sorted(df[c0].unique())
    absent = int(max(lv)) + 1 + int(rng.integers(0, 3))
    per_level = ["%s['%s']==%d" % (who, c0, v) for v in lv[:2]]
    if len(lv) > 2:
        per_level[1] = "%s['%s']>=%d" % (who, c0, lv[1])
    k = int(rng.integers(0, len(per_level) + 1))
    empty = per_level[:k] + ["%s['%s']==%d" % (who, c0, absent)] + per_level[k:]
    a1, a0 = "%s['A']==1" % who, "%s['A']==0" % who
    crossed = ["(%s) & (%s['%s']==%d)" % (a1, who, c0, lv[0]), "(%s) & (%s['%s']!=%d)" % (a1, who, c0, lv[0]), a0]
    if rng.uniform() < 0.5:
        crossed = [a1, "(%s) & (%s['%s']==%d)" % (a0, who, c0, lv[0]), "(%s) & (%s['%s']!=%d)" % (a0, who, c0, lv[0])]
    return [('empty', empty), ('treat', [a1, a0]), ('treat', crossed)]


def plan_excludes_everyone(df, p, conds):
    """the plan gives the treatment each row actually received probability 0 (possible only when the conditions refer to
    the observed treatment, e.g. `treated -> 0, untreated -> 1`): every inverse-probability weight is 0 and the weighted
    mean / the weighted targeting fit do not exist.  The simulating g-formula has no such restriction."""
    pi = plan_prob(df, p, conds)
    return bool(np.all(np.where(df['A'].values == 1, pi, 1 - pi) == 0))


def refers_to_treatment(conds):
    return conds is not None and any("['A']" in c for c in conds)


def masks_of(df, conds):
    return [np.asarray(eval(c, {'df': df, 'g': df, 'np': np}), dtype=bool) for c in conds]


def enc_rows_f(df, sid, wcol=None):
    return dict(s=enc_list([int(v) for v in sid], str), a=bits(df['A'].values == 1), y=fxs(df['Y'].values),
                w=fxs(df[wcol].values if wcol else np.ones(len(df))))


def plan_kw(p, conds, df):
    if conds is None:
        return {'p': fx(p)}
    return {'ps': fxs(p), 'masks': ';'.join(bits(m) for m in masks_of(df, conds))}


class Tap:
    """run-time wrap of np.random.choice / np.random.binomial: record every draw, or replay recorded draws attached
    to their conditions (so that a permuted listing order meets the same draws)"""

    def __init__(self, m, replay=None, perm=None):
        self.m, self.replay, self.perm, self.calls = m, replay, perm, []
        self._choice, self._binom = np.random.choice, np.random.binomial
        self.assign = []       # treatment column of every frame handed to the outcome model's predict (one per resample)
        self.unknown_pools = 0  # replaying: draws asked for from a set of rows no condition of the original listing selected

    def __enter__(self):
        import statsmodels.base.model as bm
        np.random.choice, np.random.binomial = self.choice, self.binomial
        self._predict = bm.Results.predict
        tap = self

        def predict(self_, exog=None, *a, **k):
            if isinstance(exog, pd.DataFrame) and 'A' in exog.columns:
                tap.assign.append(np.asarray(exog['A'], dtype=float).copy())
            return tap._predict(self_, exog, *a, **k)
        bm.Results.predict = predict
        return self

    def __exit__(self, *a):
        import statsmodels.base.model as bm
        np.random.choice, np.random.binomial = self._choice, self._binom
        bm.Results.predict = self._predict

    def choice(self, a, size=None, replace=True, p=None):
        pool = tuple(int(v) for v in np.asarray(a))
        k = len(self.calls)
        if self.replay is None:
            res = self._choice(a, size=size, replace=replace, p=p)
        elif (k // self.m, pool) in self.replay:
            res = np.array(self.replay[(k // self.m, pool)], dtype=int)
        else:
            # the same conditions in another order must select the same sets of rows; if they do not there is no recorded
            # draw to attach: counted (the caller fails the order-freeness predicate) and drawn afresh
            self.unknown_pools += 1
            res = self._choice(a, size=size, replace=replace, p=p)
        self.calls.append({'pool': pool, 'size': int(size), 'res': [int(v) for v in res], 'replace': replace})
        return res

    def binomial(self, n, p, size=None):
        k = len(self.calls)
        if self.replay is None:
            res = self._binom(n=n, p=p, size=size)
        else:
            res = np.array(self.replay[(k // self.m) * self.m + self.perm[k % self.m]], dtype=int)
        self.calls.append({'p': float(p), 'size': int(size), 'res': [int(v) for v in np.asarray(res)]})
        return res


def log10_binom(m, k):
    from math import lgamma, log
    return (lgamma(m + 1) - lgamma(k + 1) - lgamma(m - k + 1)) / log(10)


def complement_listing(conds):
    """the same two-cell partition written with the complementary condition strings: c1 == ~c2, c2 == ~c1"""
    return ['~(%s)' % conds[1], '~(%s)' % conds[0]]


def everyone(who, covs):
    return ["%s['%s']>=0" % (who, covs[0])]


_SEEDS = [0]


def pick_seed(rng):
    """Monte-Carlo seeds: the legitimate value 0 every third time, otherwise random"""
    _SEEDS[0] += 1
    return 0 if _SEEDS[0] % 3 == 0 else int(rng.integers(1, 10 ** 6))


def disturb_global_rng():
    """leave numpy's global random state somewhere else: a seeded call must not depend on it"""
    np.random.seed(int(np.random.randint(0, 2 ** 31 - 1)) ^ 0x5bd1e995)
    np.random.uniform(size=11)


def perms_of(m, tier):
    """every listing order; in the quick tier 4 conditions get 9 of their 24 orders (reversal, the rotations, swaps)"""
    ps = list(itertools.permutations(range(m)))
    if tier == 'quick' and m >= 4:
        keep = {(3, 2, 1, 0), (1, 2, 3, 0), (2, 3, 0, 1), (3, 0, 1, 2), (1, 0, 2, 3), (0, 2, 1, 3), (0, 1, 3, 2),
                (2, 1, 0, 3), (0, 1, 2, 3)}
        ps = [q for q in ps if q in keep]
    return ps


# ------------------------------------------------------------------------------------------- StochasticIPTW
def siptw_fit(df, cols, model, p, conds, wcol=None):
    from zepid.causal.ipw import StochasticIPTW
    s = StochasticIPTW(df[cols], treatment='A', outcome='Y', weights=wcol)
    s.treatment_model(model, print_results=False)
    s.fit(p=p, conditional=conds)
    return float(s.marginal_outcome)


def siptw_cell(chk, drv, df, cfg, rec):
    covs, model, p, conds, sat, wcol = cfg['covs'], cfg['model'], cfg['p'], cfg['conditional'], cfg['saturated'], cfg['weights']
    cols = [c for c in df.columns if c != 'w' or wcol]
    case = {'kind': 'StochasticIPTW', 'cfg': cfg, 'data': rec}
    if plan_excludes_everyone(df, p, conds):
        chk.count('SIPTW/plan gives the treatment received probability 0 in every row (weights all zero: no estimate exists)')
        return
    base = siptw_fit(df, cols, model, p, conds, wcol)
    nontriv = conds is not None and len(set(p)) > 1
    chk.case(case, (frame_hash(df), 'SIPTW', repr(p), repr(conds), wcol) if (nontriv or sat) else None,
             sample={'kind': 'StochasticIPTW', 'p': p, 'conditional': conds, 'n': len(df)} if chk.evals % 23 == 0 else None)
    chk.count('SIPTW/%s/%s' % ('uncond' if conds is None else 'cond%d' % len(conds), 'sat' if sat else 'nonsat'))
    case['impl'] = base
    # D: every listing order gives the same estimate
    if conds is not None:
        for perm in perms_of(len(conds), chk.tier):
            got = siptw_fit(df, cols, model, [p[i] for i in perm], [conds[i] for i in perm], wcol)
            chk.d(close(got, base, **TOLX), 'StochasticIPTW: listing order of the (condition, p) pairs changes nothing',
                  dict(case, order=list(perm), permuted=got))
        if len(set(p)) == 1:
            # theorem stoch_iptw_const_eq_uncond: exact
            unc = siptw_fit(df, cols, model, float(p[0]), None, wcol)
            chk.d(close(unc, base, **TOLX), 'StochasticIPTW: a conditional plan whose conditions all carry the same p = the '
                  'unconditional plan p', dict(case, unconditional=unc))
        if len(conds) == 2:
            got = siptw_fit(df, cols, model, p, complement_listing(conds), wcol)
            chk.d(close(got, base, **TOLX), 'StochasticIPTW: the same partition written with the complementary condition '
                  'strings gives the same estimate', dict(case, complementary=got))
    else:
        one = siptw_fit(df, cols, model, [p], everyone('df', covs), wcol)
        chk.d(close(one, base, **TOLX), 'StochasticIPTW: a one-pair listing whose condition selects everybody = the '
              'unconditional plan', dict(case, one_pair=one))
    # reference treatment model
    m = ref_fit(chk, 'A ~ ' + model, df, wcol)
    if m is None:
        return
    g = np.asarray(m.predict(df))
    A = df['A'].values == 1
    pi = plan_prob(df, p, conds)
    wts = np.where(A, pi, 1 - pi) / np.where(A, g, 1 - g) * (df[wcol].values if wcol else 1.0)
    chk.d(close(base, float(np.sum(df['Y'].values * wts) / np.sum(wts)), **TOLD),
          'StochasticIPTW = mean weighted by plan probability / fitted probability of the treatment received', case)
    # D: p == 1 / p == 0 everywhere -> the unstabilized IPTW arm means (marginal structural model Y ~ A)
    if np.all(pi == 1.0) or np.all(pi == 0.0):
        from zepid.causal.ipw import IPTW
        ipt = IPTW(df[cols], treatment='A', outcome='Y', weights=wcol)
        ipt.treatment_model(model, stabilized=False, print_results=False)
        ipt.marginal_structural_model('A')
        ipt.fit()
        if ipt.risk_difference is not None:
            m0 = float(ipt.risk_difference.loc['Intercept', 'RD'])
            m1 = m0 + float(ipt.risk_difference.loc['A', 'RD'])
        else:
            m0 = float(ipt.average_treatment_effect.loc['Intercept', 'ATE'])
            m1 = m0 + float(ipt.average_treatment_effect.loc['A', 'ATE'])
        want = m1 if np.all(pi == 1.0) else m0
        chk.d(close(base, want, **TOLC), 'StochasticIPTW with p = %d everywhere = IPTW marginal structural '
              'model arm mean (treat-%s)' % (int(pi[0]), 'all' if pi[0] == 1 else 'none'), dict(case, iptw_arm=want))
    cl = None
    if sat:
        # D: exact standardized mixture
        cl = cells(df, covs, wcol)
        frac = {}
        for s in cl['S']:
            vals = set(pi[cl['sid'] == s].tolist())
            frac[s] = Fraction(vals.pop()) if len(vals) == 1 else None
        if all(v is not None for v in frac.values()):
            want = mixture_exact(df, cl, frac, np.ones(len(df), dtype=bool), wcol)
            chk.d(close(base, float(want), **TOLC), 'StochasticIPTW (saturated treatment model) = standardized mixture '
                  'sum_s (N_s/N)(p_s ybar_s1 + (1-p_s) ybar_s0)', dict(case, want=float(want)))
            if drv is not None:
                pis = [frac.get(s, Fraction(0)) for s in range(max(cl['S']) + 1)]
                kw = gen.enc_rows(df, covs, None)
                if wcol:
                    kw['w'] = enc_list(df[wcol].tolist(), rq)
                rep, _ = drv.ask('mixture', tgt='population', pis=enc_list(pis, rq), **kw)
                chk.k(rep['status'] == 'ok' and Fraction(rep['m']) == want,
                      'Lean mixture (exact) = independent closed form', dict(case, model=rep))
    if drv is not None:
        sid = cl['sid'] if cl else np.zeros(len(df), dtype=int)
        orders = [None] if conds is None else [list(range(len(conds))), list(range(len(conds)))[::-1]]
        for od in orders:
            pp, cc = (p, conds) if od is None else ([p[i] for i in od], [conds[i] for i in od])
            # the op runs the definition regenerated from the text of StochasticIPTW.fit (Gen.stoch_iptw_fit); `hasw` = a
            # weight column was given (the `if self.weights is not None` branch)
            rep, _ = drv.ask('stochw', c='f', g=fxs(g), hasw=int(bool(wcol)), **enc_rows_f(df, sid, wcol),
                             **plan_kw(pp, cc, df))
            chk.k(rep['status'] == 'ok' and rep['m'] != '_' and close(unfx(rep['m']), base, **TOLD),
                  'StochasticIPTW = Lean model on the reference predictions', dict(case, model=rep.get('m'), order=od))


# ------------------------------------------------------------------------------------------- stochastic g-formula
def gf_fit(df, cols, model, ytype, tgt, p, conds, samples, seed, tap, wcol=None, pm=True):
    from zepid.causal.gformula import TimeFixedGFormula
    g = TimeFixedGFormula(df[cols], exposure='A', outcome='Y', outcome_type=ytype, standardize=tgt, weights=wcol)
    g.outcome_model(model, print_results=False)
    with tap:
        g.fit_stochastic(p=p, conditional=conds, samples=samples, seed=seed, predict_missing=pm)
    return float(g.marginal_outcome), g


def gf_cell(chk, drv, df, cfg, rec):
    covs, model, p, conds, sat, tgt, ytype, samples, seed = (cfg[k] for k in (
        'covs', 'model', 'p', 'conditional', 'saturated', 'standardize', 'outcome', 'samples', 'seed'))
    wcol = cfg.get('weights')
    cols = [c for c in df.columns if c != 'w' or wcol]
    pm = cfg.get('predict_missing', True)

    def gf_fit_w(*a, **k):
        return gf_fit(*a, wcol=wcol, **k)
    case = {'kind': 'TimeFixedGFormula.fit_stochastic', 'cfg': cfg, 'data': rec}
    m = 1 if conds is None else len(conds)
    tap = Tap(m)
    if conds is not None:
        chk.count('GF/%sconditions: %s%s' % ('weights/' if wcol else '',
                                            'on the observed treatment' if refers_to_treatment(conds) else 'on covariates',
                                            ', one met by nobody' if any(not mk.any() for mk in masks_of(df, conds)) else ''))
    base, gobj = gf_fit_w(df, cols, model, ytype, tgt, p, conds, samples, seed, tap, pm=pm)
    nontriv = conds is not None and len(set(p)) > 1
    chk.case(case, (frame_hash(df), 'GF', repr(p), repr(conds), tgt, samples, seed) if (nontriv or sat) else None,
             sample={'kind': 'GF', 'p': p, 'conditional': conds, 'samples': samples, 'n': len(df)}
             if chk.evals % 19 == 0 else None)
    chk.count('GF/%s%s%s/%s/%s/samples=%d' % ('' if pm else 'predict_missing=False/', 'weights/' if wcol else '', 'uncond' if conds is None else 'cond%d' % len(conds), tgt, ytype, samples))
    case['impl'] = base
    masks = [np.ones(len(df), dtype=bool)] if conds is None else masks_of(df, conds)
    plist = [p] if conds is None else list(p)
    n = len(df)
    # the realised assignment of every resample = the treatment column handed to the outcome model (observed at the
    # predict call, so it does not depend on which numpy RNG entry point zEpid uses)
    if len(tap.assign) != samples or any(len(a) != n or not set(np.unique(a)) <= {0.0, 1.0} for a in tap.assign):
        chk.k(False, 'stochastic g-formula: one 0/1 treatment assignment per resample reaches the outcome model',
              dict(case, predict_calls=len(tap.assign)))
        return
    treated = [a == 1.0 for a in tap.assign]
    # D: within every condition exactly int(p * n_c) units are treated, nobody outside the conditions
    ok_size = all(int((t & mk).sum()) == int(pk * int(mk.sum())) for t in treated for mk, pk in zip(masks, plist)) and \
        all(not np.any(t & ~np.any(masks, axis=0)) for t in treated)
    chk.d(ok_size, 'stochastic g-formula treats int(p*n_c) units among the rows selected by each condition',
          dict(case, pools=[int(mk.sum()) for mk in masks], treated=[[int((t & mk).sum()) for mk in masks]
                                                                      for t in treated[:3]]))
    # H: the captured np.random.choice draws are what numpy promises (needed only to replay draws under permutations)
    draws_ok = len(tap.calls) == samples * m
    for k, c in enumerate(tap.calls):
        chk.h_checked += 1
        draws_ok = draws_ok and len(set(c['res'])) == len(c['res']) == c['size'] and set(c['res']) <= set(c['pool'])
    if draws_ok:
        ok_pool = all(sorted(c['pool']) == np.flatnonzero(masks[k % m]).tolist() for k, c in enumerate(tap.calls))
        ok_sz = all(c['size'] == int(plist[k % m] * len(c['pool'])) for k, c in enumerate(tap.calls))
        chk.d(ok_pool and ok_sz, 'stochastic g-formula draws int(p*n_c) units among the rows selected by each condition',
              dict(case, pools=[len(c['pool']) for c in tap.calls[:m]], sizes=[c['size'] for c in tap.calls[:m]]))
    else:
        chk.count('GF/draws-not-capturable-through-np.random.choice')
    # D: the resamples are different draws.  If every resample drew independently, the probability that ALL `samples`
    # treated sets coincide is prod_c C(n_c, k_c)^-(samples-1) (uniform draws of k_c among n_c, independent over
    # conditions and resamples); the predicate is judged only in cells where that bound is < 1e-9.
    lg = sum(log10_binom(int(mk.sum()), int(pk * int(mk.sum()))) for mk, pk in zip(masks, plist))
    if wcol is None and samples >= 5 and min(int(mk.sum()) for mk in masks) >= 12 and (samples - 1) * lg > 9.0:
        chk.count('GF/judged-resamples-differ')
        chk.d(any(not np.array_equal(t, treated[0]) for t in treated[1:]),
              'stochastic g-formula: the %d resamples do not all treat the same units (false-alarm probability '
              '< 10^-%d)' % (samples, int((samples - 1) * lg)), dict(case, first_treated=np.flatnonzero(treated[0])[:20].tolist()))
    # D: same seed, same order -> same estimate (the estimate is a function of the draws only)
    disturb_global_rng()
    again, _ = gf_fit_w(df, cols, model, ytype, tgt, p, conds, samples, seed, Tap(m), pm=pm)
    chk.d(close(again, base, **TOLX), 'stochastic g-formula: the same seed (0 included) gives the same estimate whatever the '
          'global random state before the call', dict(case, again=again))
    # D: a one-pair listing whose condition selects everybody consumes the identical draw stream as the unconditional
    # plan (same np.random.choice calls), so for a fixed seed the raw estimates coincide exactly
    if conds is None:
        one, _ = gf_fit_w(df, cols, model, ytype, tgt, [p], everyone('g', covs), samples, seed, Tap(1), pm=pm)
        chk.d(close(one, base, **TOLX), 'stochastic g-formula, fixed seed: one-pair listing selecting everybody = '
              'unconditional plan (identical draw stream)', dict(case, one_pair=one))
    # D: every listing order, meeting the same draws, gives the same estimate
    if conds is not None and draws_ok:
        store = {(k // m, c['pool']): c['res'] for k, c in enumerate(tap.calls)}
        for perm in perms_of(m, chk.tier):
            tp = Tap(m, replay=store)
            got, _ = gf_fit_w(df, cols, model, ytype, tgt, [p[i] for i in perm], [conds[i] for i in perm], samples, seed,
                            tp, pm=pm)
            chk.d(tp.unknown_pools == 0 and close(got, base, **TOLX), 'stochastic g-formula: listing order of the '
                  '(condition, p) pairs changes nothing (each condition selects the same rows; draws attached to their '
                  'conditions)', dict(case, order=list(perm), permuted=got, draws_from_unknown_row_sets=tp.unknown_pools))
        if m == 2:
            tp = Tap(m, replay=store)
            got, _ = gf_fit_w(df, cols, model, ytype, tgt, p, complement_listing(conds), samples, seed, tp, pm=pm)
            chk.d(tp.unknown_pools == 0 and close(got, base, **TOLX), 'stochastic g-formula: the same partition written '
                  'with the complementary condition strings gives the same estimate',
                  dict(case, complementary=got, draws_from_unknown_row_sets=tp.unknown_pools))
    # D: degenerate plans
    pi = plan_prob(df, p, conds)
    if np.all(pi == 1.0) or np.all(pi == 0.0):
        gobj.fit('all' if pi[0] == 1.0 else 'none', predict_missing=pm)
        chk.d(close(base, float(gobj.marginal_outcome), **TOLX), "stochastic g-formula with p = %d everywhere = "
              "fit('%s')" % (int(pi[0]), 'all' if pi[0] == 1 else 'none'), dict(case, det=float(gobj.marginal_outcome)))
        if conds is not None:
            unc, _ = gf_fit_w(df, cols, model, ytype, tgt, float(pi[0]), None, samples, seed, Tap(1), pm=pm)
            chk.d(close(unc, base, **TOLX), 'stochastic g-formula: conditional [%d,...,%d] = unconditional %d exactly'
                  % (int(pi[0]), int(pi[0]), int(pi[0])), dict(case, unconditional=unc))
    if conds is not None and set(pi.tolist()) == {0.0, 1.0}:
        rule = ' | '.join('(%s)' % c for c, pk in zip(conds, p) if pk == 1.0)
        gobj.fit(rule, predict_missing=pm)
        chk.d(close(base, float(gobj.marginal_outcome), **TOLX), 'stochastic g-formula with probabilities 0/1 per condition = '
              'fit(custom deterministic rule)', dict(case, rule=rule, det=float(gobj.marginal_outcome)))
    # target rows: the standardization target, restricted to rows with an observed outcome when predict_missing=False
    tm = target_mask(df, tgt) & (np.ones(len(df), dtype=bool) if pm else df['Y'].notna().values)
    cl = cells(df, covs, wcol) if sat else None
    if sat:
        # D: exact identity -- estimate = mean over resamples of the mixture at the REALISED treated fractions
        vals, dev = [], 0.0
        for t in treated:
            frac = {}
            for s in cl['S']:
                sel = (cl['sid'] == s) & tm
                wv = df[wcol].values if wcol else np.ones(len(df))
                frac[s] = sum(Fraction(float(v)) for v in wv[t & sel]) / sum(Fraction(float(v)) for v in wv[sel])
                nominal = set(pi[sel].tolist())
                if len(nominal) == 1:
                    dev = max(dev, abs(float(frac[s]) - nominal.pop()))
            vals.append(mixture_exact(df, cl, frac, tm, wcol))
        want = float(sum(vals) / len(vals))
        chk.d(close(base, want, **TOLC), 'stochastic g-formula (saturated outcome model) = mixture at the realised treated '
              'fractions, averaged over the resamples', dict(case, want=want))
        chk.extra['gf_max_abs_realised_minus_nominal'] = max(chk.extra.get('gf_max_abs_realised_minus_nominal', 0.0), dev)
    if drv is not None:
        # reference outcome model -> predictions under A=1 / A=0
        fam = {'binary': sm.families.family.Binomial(), 'normal': sm.families.family.Gaussian()}[ytype]
        with warnings.catch_warnings():
            warnings.simplefilter('ignore')
            dd = df.dropna(subset=['Y'])
            om = smf.glm('Y ~ ' + model, dd, family=fam, **({'freq_weights': dd[wcol]} if wcol else {})).fit()
        chk.h_checked += 1
        q1 = np.asarray(om.predict(df.assign(A=1)))
        q0 = np.asarray(om.predict(df.assign(A=0)))
        sid = cl['sid'] if cl else np.zeros(len(df), dtype=int)
        chosen = '|'.join(';'.join(enc_list(np.flatnonzero(t & mk).tolist(), str) for mk in masks) for t in treated)
        # the op runs the definition regenerated from the text of fit_stochastic (Gen.gf_stoch_fit) on the captured
        # draws: rows carry the observed flag, the options are the call's own (`mm` = hand model, for cross-check)
        rows = enc_rows_f(df.assign(Y=df['Y'].fillna(0.0)), sid, wcol)
        rows['obs'] = bits(df['Y'].notna().values)
        plan = {} if conds is None else {'ps': fxs(p), 'masks': ';'.join(bits(mk) for mk in masks)}
        rep, _ = drv.ask('gfstoch', c='f', tgt=tgt, hascond=int(conds is not None), hasw=int(bool(wcol)), pm=int(bool(pm)),
                         q1=fxs(q1), q0=fxs(q0), chosen=chosen, **rows, **plan)
        chk.k(rep['status'] == 'ok' and close(unfx(rep['m']), base, **TOLD),
              'stochastic g-formula = Lean model on the reference predictions and the captured draws',
              dict(case, model=rep.get('m')))
        chk.k(rep['status'] == 'ok' and close(unfx(rep['mm']), unfx(rep['m']), **TOLD),
              'stochastic g-formula: generated definition = hand model on the same draws', dict(case, model=rep.get('mm')))
        ok = True
        for mk, pk in zip(masks, plist):
            r2, _ = drv.ask('plansize', c='f', p=fx(pk), n=int(mk.sum()), cond=int(conds is not None))
            ok = ok and r2['status'] == 'ok' and int(r2['size']) == int((treated[0] & mk).sum())
        chk.k(ok, 'treated counts = Lean planSize (floor of the floating-point product)', case)


# ------------------------------------------------------------------------------------------- StochasticTMLE
def stmle_fit(df, cols, gmodel, qmodel, p, conds, samples, seed, tap):
    from zepid.causal.doublyrobust import StochasticTMLE
    t = StochasticTMLE(df[cols], exposure='A', outcome='Y')
    t.exposure_model(gmodel)
    t.outcome_model(qmodel)
    with tap:
        t.fit(p=p, conditional=conds, samples=samples, seed=seed)
    return t


def stmle_cell(chk, drv, df, cfg, rec):
    covs, gmodel, qmodel, p, conds, sat, samples, seed = (cfg[k] for k in (
        'covs', 'gmodel', 'qmodel', 'p', 'conditional', 'saturated', 'samples', 'seed'))
    cols = [c for c in df.columns if c != 'w']
    case = {'kind': 'StochasticTMLE', 'cfg': cfg, 'data': rec}
    m = 1 if conds is None else len(conds)
    tap = Tap(m)
    if plan_excludes_everyone(df, p, conds):
        chk.count('STMLE/plan gives the treatment received probability 0 in every row (clever covariate all zero: no '
                  'targeting fit exists)')
        return
    t = stmle_fit(df, cols, gmodel, qmodel, p, conds, samples, seed, tap)
    base, eps, mv = float(t.marginal_outcome), float(t.epsilon), np.asarray(t.marginals_vector, dtype=float)
    if conds is not None:
        chk.count('STMLE/conditions: %s%s' % ('on the observed treatment' if refers_to_treatment(conds) else 'on covariates',
                                             ', one met by nobody' if any(not mk.any() for mk in masks_of(df, conds)) else ''))
    if refers_to_treatment(conds):
        # the plan gives every row a probability (the conditions are exclusive and exhaustive on the OBSERVED data), so
        # every resample must hand the outcome model a 0/1 treatment for every row and the estimate is a number
        ok = np.isfinite(base) and len(tap.assign) == samples and \
            all(len(a) == len(df) and set(np.unique(a)) <= {0.0, 1.0} for a in tap.assign)
        chk.d(ok, 'StochasticTMLE: conditions that refer to the observed treatment are evaluated on the observed data (every '
              'resample assigns 0/1 to every row; the estimate is a number)',
              dict(case, impl={'marginal': base, 'epsilon': eps},
                   rows_without_assignment=[int(np.isnan(a).sum()) for a in tap.assign[:3]]))
        if not ok:
            chk.case(case, None)
            return
    nontriv = conds is not None and len(set(p)) > 1
    chk.case(case, (frame_hash(df), 'STMLE', repr(p), repr(conds), samples, seed) if (nontriv or sat) else None,
             sample={'kind': 'StochasticTMLE', 'p': p, 'conditional': conds, 'samples': samples, 'n': len(df)}
             if chk.evals % 19 == 0 else None)
    chk.count('STMLE/%s/%s/samples=%d' % ('uncond' if conds is None else 'cond%d' % len(conds), 'sat' if sat else 'nonsat',
                                          samples))
    case['impl'] = {'marginal': base, 'epsilon': eps}
    plist = [p] if conds is None else list(p)
    n = len(df)
    masks = [np.ones(n, dtype=bool)] if conds is None else masks_of(df, conds)
    pi = plan_prob(df, p, conds)
    cse = float(t.conditional_se)           # deterministic function of the clever covariate and the initial predictions
    # realised assignment of every resample = the treatment column handed to the outcome model's predict
    if len(tap.assign) != samples or any(len(a) != n or not set(np.unique(a)) <= {0.0, 1.0} for a in tap.assign):
        chk.k(False, 'StochasticTMLE: one 0/1 treatment assignment per resample reaches the outcome model',
              dict(case, predict_calls=len(tap.assign)))
        return
    assigned = [a == 1.0 for a in tap.assign]
    # H: the captured np.random.binomial draws are what numpy promises (needed only to replay draws under permutations)
    draws_ok = len(tap.calls) == samples * m
    for k, c in enumerate(tap.calls):
        chk.h_checked += 1
        pk = plist[k % m]
        draws_ok = draws_ok and len(c['res']) == n and set(c['res']) <= {0, 1} and c['p'] == pk and \
            (pk != 1.0 or all(v == 1 for v in c['res'])) and (pk != 0.0 or all(v == 0 for v in c['res']))
    if not draws_ok:
        chk.count('STMLE/draws-not-capturable-through-np.random.binomial')
    # D: rows with plan probability 1 (0) are treated (untreated) in every resample
    chk.d(all(np.all(a[pi == 1.0]) and not np.any(a[pi == 0.0]) for a in assigned),
          'StochasticTMLE: rows whose plan probability is 1 (0) are treated (untreated) in every resample', case)
    # D: the resamples are different draws.  With independent Bernoulli(p_i) draws the probability that all `samples`
    # assignment vectors coincide is prod_i (p_i^samples + (1-p_i)^samples); judged only where that is < 1e-9.
    lg = float(np.sum(np.log10(pi ** samples + (1 - pi) ** samples)))
    if samples >= 5 and lg < -9.0:
        chk.count('STMLE/judged-resamples-differ')
        chk.d(any(not np.array_equal(a, assigned[0]) for a in assigned[1:]),
              'StochasticTMLE: the %d resamples do not all assign the same treatments (false-alarm probability < 10^%d)'
              % (samples, int(lg)), dict(case, first=assigned[0][:30].astype(int).tolist()))
    # D: the estimate is a function of data, plan, samples and seed only: repeating the call with the same seed (0 is a
    # legitimate seed) after numpy's global random state has been moved elsewhere returns the same numbers
    disturb_global_rng()
    tr = stmle_fit(df, cols, gmodel, qmodel, p, conds, samples, seed, Tap(m))
    chk.d(same_snapshot(snapshot(t), snapshot(tr)), 'StochasticTMLE: the same seed (0 included) gives the same results '
          '(estimate, resample vector, SEs, limits) whatever the global random state before the call',
          dict(case, again={k2: v for k2, v in snapshot(tr).items() if k2 != 'mv'}))
    # D: every listing order, meeting the same draws: same clever covariate (epsilon) and same estimate
    if conds is not None and draws_ok:
        store = [c['res'] for c in tap.calls]
        variants = [([p[i] for i in perm], [conds[i] for i in perm], list(perm), 'listing order of the (condition, p) pairs')
                    for perm in perms_of(m, chk.tier)]
        if m == 2:
            variants.append((p, complement_listing(conds), [0, 1], 'writing the partition with the complementary condition '
                             'strings'))
        for pp, cc, perm, what in variants:
            t2 = stmle_fit(df, cols, gmodel, qmodel, pp, cc, samples, seed, Tap(m, replay=store, perm=perm))
            chk.d(close(float(t2.epsilon), eps, rtol=1e-9, atol=1e-12) and close(float(t2.marginal_outcome), base, **TOLX)
                  and allclose(np.asarray(t2.marginals_vector, dtype=float), mv, **TOLX)
                  and close(float(t2.conditional_se), cse, rtol=1e-9, atol=1e-12),
                  'StochasticTMLE: %s changes nothing (draws attached to their conditions)' % what,
                  dict(case, order=perm, permuted={'marginal': float(t2.marginal_outcome), 'epsilon': float(t2.epsilon)}))
    # D: a conditional plan whose conditions all carry the same p has the clever covariate of the unconditional plan p
    # (theorem cond_const_eq_uncond): same targeting (epsilon, conditional SE); with p in {0, 1} the Monte-Carlo
    # integration is degenerate, so the estimates coincide exactly too
    if conds is not None and len(set(p)) == 1:
        tu = stmle_fit(df, cols, gmodel, qmodel, float(p[0]), None, samples, seed, Tap(1))
        ok = close(float(tu.epsilon), eps, rtol=1e-9, atol=1e-12) and close(float(tu.conditional_se), cse, rtol=1e-9, atol=1e-12)
        if p[0] in (0.0, 1.0):
            ok = ok and close(float(tu.marginal_outcome), base, **TOLX) and \
                allclose(np.asarray(tu.marginals_vector, dtype=float), mv, **TOLX)
        chk.d(ok, 'StochasticTMLE: a conditional plan whose conditions all carry the same p targets exactly like the '
              'unconditional plan p (epsilon, conditional SE; estimates too when p is 0 or 1)',
              dict(case, unconditional={'marginal': float(tu.marginal_outcome), 'epsilon': float(tu.epsilon),
                                        'conditional_se': float(tu.conditional_se)}, conditional_se=cse))
    # D: a one-pair listing whose condition selects everybody consumes the identical draw stream as the unconditional
    # plan, so for a fixed seed everything coincides exactly
    if conds is None:
        t1 = stmle_fit(df, cols, gmodel, qmodel, [p], everyone('df', covs), samples, seed, Tap(1))
        chk.d(close(float(t1.epsilon), eps, rtol=1e-9, atol=1e-12) and close(float(t1.marginal_outcome), base, **TOLX)
              and allclose(np.asarray(t1.marginals_vector, dtype=float), mv, **TOLX)
              and close(float(t1.conditional_se), cse, rtol=1e-9, atol=1e-12),
              'StochasticTMLE, fixed seed: one-pair listing selecting everybody = unconditional plan (identical draw stream)',
              dict(case, one_pair={'marginal': float(t1.marginal_outcome), 'epsilon': float(t1.epsilon)}))
    # D: degenerate plans: Monte-Carlo integration is degenerate (all resamples identical, seed irrelevant)
    if np.all(pi == 1.0) or np.all(pi == 0.0):
        t3 = stmle_fit(df, cols, gmodel, qmodel, p, conds, samples, seed + 17, Tap(m))
        chk.d(float(mv.max() - mv.min()) <= 1e-14 and close(float(t3.marginal_outcome), base, **TOLX),
              'StochasticTMLE with p = %d everywhere: every resample identical, independent of the seed' % int(pi[0]),
              dict(case, spread=float(mv.max() - mv.min()), other_seed=float(t3.marginal_outcome)))
    cl = cells(df, covs) if sat else None
    if sat:
        chk.h_checked += 1
        chk.extra['stmle_max_abs_epsilon_saturated'] = max(chk.extra.get('stmle_max_abs_epsilon_saturated', 0.0), abs(eps))
        if abs(eps) > 1e-6:
            chk.k(False, 'StochasticTMLE: fluctuation parameter of doubly saturated models is 0 (root of the score '
                  'equation, tmle_eps_zero)', dict(case, epsilon=eps))
        vals, dev = [], 0.0
        tm = np.ones(n, dtype=bool)
        for a in assigned:
            frac = {}
            for s in cl['S']:
                sel = cl['sid'] == s
                frac[s] = Fraction(int((a & sel).sum()), int(sel.sum()))
                nominal = set(pi[sel].tolist())
                if len(nominal) == 1:
                    dev = max(dev, abs(float(frac[s]) - nominal.pop()))
            vals.append(mixture_exact(df, cl, frac, tm))
        want = float(sum(vals) / len(vals))
        chk.d(close(base, want, **TOLC), 'StochasticTMLE (saturated models) = mixture at the realised treated fractions, '
              'averaged over the resamples', dict(case, want=want))
        chk.extra['stmle_max_abs_realised_minus_nominal'] = max(chk.extra.get('stmle_max_abs_realised_minus_nominal', 0.0),
                                                                dev)
        if np.all(pi == 1.0) or np.all(pi == 0.0):
            cf = gen.closed_form(df, covs)
            chk.d(close(base, float(cf[('population', int(pi[0]))]), **TOLC), 'StochasticTMLE with p = %d everywhere '
                  '(saturated) = standardized mean of the arm' % int(pi[0]), case)
    if drv is not None:
        gm = ref_fit(chk, 'A ~ ' + gmodel, df)
        with warnings.catch_warnings():
            warnings.simplefilter('ignore')
            om = smf.glm('Y ~ ' + qmodel, df, family=sm.families.family.Binomial()).fit()
        chk.h_checked += 1
        if gm is None:
            return
        g = np.asarray(gm.predict(df))
        q1 = np.asarray(om.predict(df.assign(A=1)))
        q0 = np.asarray(om.predict(df.assign(A=0)))
        qa = np.asarray(om.predict(df))
        sid = cl['sid'] if cl else np.zeros(n, dtype=int)
        # clever covariate from the Lean model -> reference targeting fit -> epsilon
        rep, _ = drv.ask('stochw', c='f', g=fxs(g), hasw=0, **enc_rows_f(df, sid), **plan_kw(p, conds, df))
        ok = rep['status'] == 'ok' and '_' not in rep['haw'].split(',')
        if ok:
            haw = unf_opt(rep['haw'])
            with warnings.catch_warnings():
                warnings.simplefilter('ignore')
                tg = sm.GLM(df['Y'].values, np.ones(n), offset=np.log(qa / (1 - qa)), freq_weights=haw,
                            family=sm.families.family.Binomial()).fit()
            ok = close(float(np.asarray(tg.params)[0]), eps, rtol=1e-6, atol=1e-8)
        chk.k(ok, 'StochasticTMLE epsilon = targeting fit on the Lean clever covariate (plan probability / fitted '
              'probability of the received treatment)', dict(case, ref_eps=float(np.asarray(tg.params)[0]) if ok or
                                                             rep['status'] == 'ok' else None))
        draws = '|'.join(';'.join(bits(a) for _ in range(m)) for a in assigned)
        rep, _ = drv.ask('tmlemc', q1=fxs(q1), q0=fxs(q0), eps=fx(eps), masks=';'.join(bits(mk) for mk in masks),
                         draws=draws, **enc_rows_f(df, sid))
        ok = rep['status'] == 'ok' and rep['m'] != '_' and close(unfx(rep['m']), base, **TOLD) and \
            allclose(unf_opt(rep['ms']), mv, **TOLD)
        chk.k(ok, 'StochasticTMLE marginals = Lean Monte-Carlo model on the reference predictions, epsilon and the '
              'captured draws', dict(case, model=rep.get('m')))


# ------------------------------------------------------------------------------------------- custom learners, histories
class CellProportion:
    """sklearn-style learner: the mean of y among training rows with the same design row (= what a saturated GLM fits)"""

    def fit(self, X, y):
        X, y = np.asarray(X, dtype=float), np.asarray(y, dtype=float)
        acc = {}
        for row, v in zip(map(tuple, np.round(X, 9)), y):
            t = acc.setdefault(row, [0.0, 0])
            t[0] += v
            t[1] += 1
        self.table_ = {k: t[0] / t[1] for k, t in acc.items()}
        return self

    def _p(self, X):
        return np.array([self.table_[row] for row in map(tuple, np.round(np.asarray(X, dtype=float), 9))])

    def predict_proba(self, X):
        p = self._p(X)
        return np.column_stack([1 - p, p])


class CellMeanPredictOnly(CellProportion):
    """the same learner exposing only `predict` (the other branch of zEpid's custom-model dispatch)"""
    predict_proba = None

    def __getattribute__(self, name):
        if name == 'predict_proba':
            raise AttributeError(name)
        return object.__getattribute__(self, name)

    def predict(self, X):
        return self._p(X)


def stmle_custom_cell(chk, drv, df, cfg, rec):
    """custom_model= for the treatment and / or the outcome model: a learner returning the stratum proportions must
    reproduce the built-in saturated logistic models for every plan (same seed = same draw stream)"""
    from zepid.causal.doublyrobust import StochasticTMLE
    covs, p, conds, samples, seed, which, learner = (cfg[k] for k in ('covs', 'p', 'conditional', 'samples', 'seed',
                                                                      'custom', 'learner'))
    cols = [c for c in df.columns if c != 'w']
    case = {'kind': 'StochasticTMLE-custom', 'cfg': cfg, 'data': rec}
    satg, satq = gen.sat_cov(covs), gen.sat_out(covs)
    m = 1 if conds is None else len(conds)
    chk.case(case, (frame_hash(df), 'STMLE-custom', repr(p), repr(conds), which, learner, samples, seed),
             sample={'kind': 'StochasticTMLE-custom', 'custom': which, 'p': p, 'n': len(df)} if chk.evals % 11 == 0 else None)
    chk.count('STMLE/custom=%s/%s' % (which, learner))
    mk = {'proba': CellProportion, 'predict': CellMeanPredictOnly}[learner]
    t = StochasticTMLE(df[cols], exposure='A', outcome='Y')
    t.exposure_model(satg, custom_model=(mk() if which in ('g', 'both') else None))
    t.outcome_model(satq, custom_model=(mk() if which in ('q', 'both') else None))
    tap = Tap(m)
    with tap:
        t.fit(p=p, conditional=conds, samples=samples, seed=seed)
    disturb_global_rng()
    ref = stmle_fit(df, cols, satg, satq, p, conds, samples, seed, Tap(m))
    got = {'marginal': float(t.marginal_outcome), 'epsilon': float(t.epsilon)}
    chk.d(close(got['marginal'], float(ref.marginal_outcome), **TOLC) and abs(got['epsilon'] - float(ref.epsilon)) <= 1e-6
          and allclose(np.asarray(t.marginals_vector, dtype=float), np.asarray(ref.marginals_vector, dtype=float), **TOLC),
          'StochasticTMLE with a custom stratum-proportion learner (%s model) = built-in saturated models, same seed'
          % which, dict(case, custom=got, builtin={'marginal': float(ref.marginal_outcome), 'epsilon': float(ref.epsilon)}))
    # D: the mixture at the realised treated fractions, from the captured Bernoulli draws
    n = len(df)
    if len(tap.calls) == samples * m and all(len(c['res']) == n for c in tap.calls):
        masks = [np.ones(n, dtype=bool)] if conds is None else masks_of(df, conds)
        cl = cells(df, covs)
        vals = []
        for sidx in range(samples):
            a = np.zeros(n, dtype=bool)
            for k in range(m):
                a = np.where(masks[k], np.asarray(tap.calls[sidx * m + k]['res'], dtype=bool), a)
            frac = {st: Fraction(int((a & (cl['sid'] == st)).sum()), int((cl['sid'] == st).sum())) for st in cl['S']}
            vals.append(mixture_exact(df, cl, frac, np.ones(n, dtype=bool)))
        want = float(sum(vals) / len(vals))
        chk.d(close(got['marginal'], want, **TOLC), 'StochasticTMLE with custom learners = mixture at the realised treated '
              'fractions, averaged over the resamples', dict(case, want=want))


def snapshot(t):
    return {'marginal': float(t.marginal_outcome), 'epsilon': float(t.epsilon), 'conditional_se': float(t.conditional_se),
            'marginal_se': float(t.marginal_se), 'marginal_ci': [float(v) for v in t.marginal_ci],
            'conditional_ci': [float(v) for v in t.conditional_ci],
            'mv': [float(v) for v in np.asarray(t.marginals_vector, dtype=float)]}


def same_snapshot(a, b):
    return close(a['marginal'], b['marginal'], **TOLX) and close(a['epsilon'], b['epsilon'], rtol=1e-9, atol=1e-12) and \
        close(a['conditional_se'], b['conditional_se'], rtol=1e-9, atol=1e-12) and allclose(a['mv'], b['mv'], **TOLX) and \
        close(a['marginal_se'], b['marginal_se'], rtol=1e-9, atol=1e-12) and \
        allclose(a['marginal_ci'], b['marginal_ci'], rtol=1e-9, atol=1e-12) and \
        allclose(a['conditional_ci'], b['conditional_ci'], rtol=1e-9, atol=1e-12)


def stmle_history_cell(chk, drv, df, cfg, rec):
    """several plans (and re-specified nuisance models) on ONE StochasticTMLE object: every fit must equal the fit of a
    fresh object given the last specification, same plan and same seed; the stored data must stay the caller's data"""
    from zepid.causal.doublyrobust import StochasticTMLE
    steps, samples = cfg['steps'], cfg['samples']
    cols = [c for c in df.columns if c != 'w']
    case = {'kind': 'StochasticTMLE-history', 'cfg': cfg, 'data': rec}
    chk.case(case, (frame_hash(df), 'STMLE-history', repr(steps)),
             sample={'kind': 'StochasticTMLE-history', 'steps': len(steps), 'n': len(df)} if chk.evals % 5 == 0 else None)
    chk.count('STMLE/history')
    t = StochasticTMLE(df[cols], exposure='A', outcome='Y')
    gm = qm = None
    a0 = df['A'].values.copy()
    for k, st in enumerate(steps):
        if st['op'] == 'g':
            gm = st['model']
            t.exposure_model(gm, bound=st.get('bound', False))
            gb = st.get('bound', False)
        elif st['op'] == 'q':
            qm = st['model']
            t.outcome_model(qm)
        else:
            m = 1 if st['conditional'] is None else len(st['conditional'])
            with Tap(m):
                t.fit(p=st['p'], conditional=st['conditional'], samples=samples, seed=st['seed'])
            fresh = StochasticTMLE(df[cols], exposure='A', outcome='Y')
            fresh.exposure_model(gm, bound=gb)
            fresh.outcome_model(qm)
            with Tap(m):
                fresh.fit(p=st['p'], conditional=st['conditional'], samples=samples, seed=st['seed'])
            chk.d(same_snapshot(snapshot(t), snapshot(fresh)), 'StochasticTMLE.fit on a reused object (step %d) = fit of a '
                  'fresh object given the last specification, same plan, same seed' % k,
                  dict(case, step=k, reused={k2: v for k2, v in snapshot(t).items() if k2 != 'mv'},
                       fresh={k2: v for k2, v in snapshot(fresh).items() if k2 != 'mv'}))
            chk.d(np.array_equal(np.asarray(t.df['A'].values, dtype=float), a0.astype(float)),
                  'StochasticTMLE: the stored data still carry the observed treatment after fit (step %d)' % k,
                  dict(case, step=k))


def light_history_cell(chk, drv, df, cfg, rec):
    """StochasticIPTW and TimeFixedGFormula: several plans on one object (deterministic fits in between) vs fresh objects"""
    from zepid.causal.ipw import StochasticIPTW
    from zepid.causal.gformula import TimeFixedGFormula
    cols = [c for c in df.columns if c != 'w']
    case = {'kind': 'history-IPTW-GF', 'cfg': cfg, 'data': rec}
    chk.case(case, (frame_hash(df), 'history-IPTW-GF', repr(cfg['plans'])))
    chk.count('SIPTW+GF/history')
    s = StochasticIPTW(df[cols], treatment='A', outcome='Y')
    s.treatment_model(cfg['gmodel'], print_results=False)
    g = TimeFixedGFormula(df[cols], exposure='A', outcome='Y')
    g.outcome_model(cfg['qmodel'], print_results=False)
    for k, (p, cs_df, cs_g, seed) in enumerate(cfg['plans']):
        s.fit(p=p, conditional=cs_df)
        fresh = siptw_fit(df, cols, cfg['gmodel'], p, cs_df)
        chk.d(close(float(s.marginal_outcome), fresh, **TOLX), 'StochasticIPTW.fit on a reused object (plan %d) = fresh '
              'object' % k, dict(case, step=k, reused=float(s.marginal_outcome), fresh=fresh))
        m = 1 if cs_g is None else len(cs_g)
        with Tap(m):
            g.fit_stochastic(p=p, conditional=cs_g, samples=3, seed=seed)
        got = float(g.marginal_outcome)
        fr, _ = gf_fit(df, cols, cfg['qmodel'], 'binary', 'population', p, cs_g, 3, seed, Tap(m))
        chk.d(close(got, fr, **TOLX), 'fit_stochastic on a reused object (plan %d, deterministic fits in between) = fresh '
              'object, same seed' % k, dict(case, step=k, reused=got, fresh=fr))
        g.fit('all' if k % 2 else 'none')


# ------------------------------------------------------------------------------------------- driver
P_GRID = [0.0, 0.2, 0.5, 0.75, 1.0]


def plans_for(df, covs, rng, who):
    """[(p, conditional)]: the unconditional grid and, per condition set, random / all-one / all-zero probabilities"""
    out = [(p, None) for p in P_GRID]
    for i, cs in enumerate(cond_sets(df, covs, rng, who)):
        out.append(([float(v) for v in np.round(rng.uniform(0.05, 0.95, size=len(cs)), 2)], cs))
        if i == 0:
            out.append(([1.0] * len(cs), cs))
            out.append(([0.0] * len(cs), cs))
            out.append(([0.3] * len(cs), cs))
            mixed = [float(v) for v in rng.choice([0.0, 1.0, 0.5], size=len(cs))]
            out.append((mixed, cs))
    for i, (tag, cs) in enumerate(cond_sets_r4(df, covs, rng, who)):
        out.append(([float(v) for v in np.round(rng.uniform(0.05, 0.95, size=len(cs)), 2)], cs))
        if tag == 'empty':
            out.append(([1.0] * len(cs), cs))                              # = treat-all although one stratum is empty
        elif i == 1:
            out.append(([1.0, 0.0], cs))                                    # = the natural course
        else:
            out.append(([float(v) for v in rng.choice([0.0, 1.0], size=len(cs))], cs))
    return out


def run(chk, drv, rng, tier):
    nsat = 3 if tier == 'quick' else 24
    t = 0
    for i in range(nsat):
        ytype = 'binary' if i % 3 != 2 else 'normal'
        df, covs = gen.cat_dataset(rng, outcome=ytype, ncov=1 + i % 3, n_extra=int(rng.integers(60, 260)),
                                   index=['default', 'shifted', 'shuffled'][i % 3])
        rec = {'frame': gen.frame_record(df), 'n': len(df), 'covs': covs}
        satg, satq = gen.sat_cov(covs), gen.sat_out(covs)
        for p, cs in plans_for(df, covs, rng, 'df'):
            cfg = dict(covs=covs, model=satg, p=p, conditional=cs, saturated=True, weights=None)
            guard(chk, 'StochasticIPTW', cfg, rec, siptw_cell, drv, df, cfg, rec)
        for p, cs in plans_for(df, covs, rng, 'g'):
            t += 1
            tgt = ['population', 'exposed', 'unexposed'][t % 3] if cs is not None or p not in (0.0, 1.0) else 'population'
            cfg = dict(covs=covs, model=satq, p=p, conditional=cs, saturated=True, standardize=tgt, outcome=ytype,
                       samples=SAMPLES[t % 4], seed=pick_seed(rng))
            guard(chk, 'TimeFixedGFormula.fit_stochastic', cfg, rec, gf_cell, drv, df, cfg, rec)
        cs0 = cond_sets(df, covs, rng, 'g')[1]
        for p, cs in ((0.5, None), ([float(v) for v in np.round(rng.uniform(0.3, 0.7, size=2), 2)], cs0)):
            cfg = dict(covs=covs, model=satq, p=p, conditional=cs, saturated=True, standardize='population', outcome=ytype,
                       samples=5, seed=pick_seed(rng))
            guard(chk, 'TimeFixedGFormula.fit_stochastic', cfg, rec, gf_cell, drv, df, cfg, rec)
        if ytype == 'binary':
            for p, cs in plans_for(df, covs, rng, 'df'):
                t += 1
                cfg = dict(covs=covs, gmodel=satg, qmodel=satq, p=p, conditional=cs, saturated=True,
                           samples=SAMPLES[t % 4], seed=pick_seed(rng))
                guard(chk, 'StochasticTMLE', cfg, rec, stmle_cell, drv, df, cfg, rec)
    # StochasticTMLE with custom learners (treatment / outcome / both; predict_proba and predict-only dispatch)
    for i in range(1 if tier == 'quick' else 5):
        df, covs = gen.cat_dataset(rng, outcome='binary', ncov=1 + i % 2, n_extra=int(rng.integers(60, 200)),
                                   index=['shuffled', 'default', 'shifted'][i % 3])
        rec = {'frame': gen.frame_record(df), 'n': len(df), 'covs': covs}
        cs = cond_sets(df, covs, rng, 'df')[0]
        plans = [(1.0, None), (0.0, None), (0.35, None), ([float(v) for v in np.round(rng.uniform(0.1, 0.9, size=len(cs)), 2)], cs),
                 ([1.0] * len(cs), cs)]
        for j, which in enumerate(('q', 'g', 'both')):
            for k, (p, c) in enumerate(plans):
                t += 1
                cfg = dict(covs=covs, p=p, conditional=c, samples=[2, 5, 3][k % 3], seed=pick_seed(rng),
                           custom=which, learner=['proba', 'predict'][(i + j + k) % 2])
                guard(chk, 'StochasticTMLE-custom', cfg, rec, stmle_custom_cell, drv, df, cfg, rec)
    # weights= : frequency weights that differ between the arms within strata (StochasticIPTW)
    for i in range(1 if tier == 'quick' else 5):
        df, covs = gen.cat_dataset(rng, outcome=['binary', 'normal'][i % 2], ncov=1 + i % 2, weights=True,
                                   n_extra=int(rng.integers(60, 260)), index=['shifted', 'shuffled', 'default'][i % 3])
        df['w'] = df['w'] + 2 * df['A'] * (gen.strata_ids(df, covs) % 2) + (1 - df['A']) * (gen.strata_ids(df, covs) % 3)
        if i % 2 == 0:
            df['w'] = np.round(df['w'] * rng.uniform(0.4, 1.6, size=len(df)), 2)      # fractional, varying inside cells
        rec = {'frame': gen.frame_record(df), 'n': len(df), 'covs': covs}
        for p, cs in plans_for(df, covs, rng, 'df'):
            cfg = dict(covs=covs, model=gen.sat_cov(covs), p=p, conditional=cs, saturated=True, weights='w')
            guard(chk, 'StochasticIPTW', cfg, rec, siptw_cell, drv, df, cfg, rec)
    # missing outcomes (related to treatment and covariates) x predict_missing (stochastic g-formula)
    for i in range(1 if tier == 'quick' else 5):
        ytype = ['binary', 'normal'][i % 2]
        df, covs = gen.cat_dataset(rng, outcome=ytype, ncov=1 + i % 2, missing='mar', n_extra=int(rng.integers(80, 260)),
                                   index=['default', 'shuffled', 'shifted'][i % 3])
        rec = {'frame': gen.frame_record(df), 'n': len(df), 'covs': covs}
        cs = cond_sets(df, covs, rng, 'g')[0]
        alt = [float(k % 2) for k in range(len(cs))]
        plans = [(1.0, None), (0.0, None), (0.4, None), (alt, cs), ([1.0 - v for v in alt], cs), ([1.0] * len(cs), cs),
                 ([float(v) for v in np.round(rng.uniform(0.2, 0.8, size=len(cs)), 2)], cs)]
        for tag, c4 in cond_sets_r4(df, covs, rng, 'g')[:2]:
            plans.append(([float(v) for v in np.round(rng.uniform(0.2, 0.8, size=len(c4)), 2)], c4))
        for pm in (False, True):
            for k, (p, c) in enumerate(plans):
                t += 1
                cfg = dict(covs=covs, model=gen.sat_out(covs), p=p, conditional=c, saturated=True,
                           standardize=['population', 'exposed', 'unexposed'][(k + int(pm)) % 3], outcome=ytype,
                           samples=[3, 5, 1][k % 3], seed=pick_seed(rng), predict_missing=pm)
                guard(chk, 'TimeFixedGFormula.fit_stochastic', cfg, rec, gf_cell, drv, df, cfg, rec)
    # weights= x standardize x missing outcomes (stochastic g-formula): fractional weights varying inside cells
    for i in range(1 if tier == 'quick' else 4):
        ytype = ['binary', 'normal'][i % 2]
        df, covs = gen.cat_dataset(rng, outcome=ytype, ncov=1 + i % 2, weights=True, missing=[None, 'mar'][i % 2],
                                   n_extra=int(rng.integers(80, 220)), index=['shuffled', 'shifted', 'default'][i % 3])
        df['w'] = np.round(df['w'] * rng.uniform(0.4, 1.6, size=len(df)) + 0.5 * df['A'], 2)
        rec = {'frame': gen.frame_record(df), 'n': len(df), 'covs': covs}
        cs = cond_sets(df, covs, rng, 'g')[0]
        plans = [(1.0, None), (0.0, None), (0.6, None), ([float(k % 2) for k in range(len(cs))], cs),
                 ([float(v) for v in np.round(rng.uniform(0.2, 0.8, size=len(cs)), 2)], cs)]
        for tag, c4 in cond_sets_r4(df, covs, rng, 'g')[:2]:
            plans.append(([float(v) for v in np.round(rng.uniform(0.2, 0.8, size=len(c4)), 2)], c4))
        for k, (p, c) in enumerate(plans):
            for pm in ((True, False) if df['Y'].isna().any() else (True,)):
                t += 1
                cfg = dict(covs=covs, model=gen.sat_out(covs), p=p, conditional=c, saturated=True,
                           standardize=['population', 'exposed', 'unexposed'][(k + i) % 3], outcome=ytype,
                           samples=[3, 5, 2][k % 3], seed=pick_seed(rng), predict_missing=pm, weights='w')
                guard(chk, 'TimeFixedGFormula.fit_stochastic', cfg, rec, gf_cell, drv, df, cfg, rec)
    # non-saturated models on data with a continuous predictor: order-freeness and degenerate plans do not need saturation
    for i in range(2 if tier == 'quick' else 12):
        df = relabel(mixed_dataset(rng), rng, ['shuffled', 'default', 'shifted'][i % 3]).drop(columns=['w', 'wf'])
        rec = {'frame': gen.frame_record(df), 'n': len(df), 'covs': ['L1', 'L2']}
        covs = ['L1', 'L2']
        gm, qm = 'C(L1) + L2 + x', 'A + C(L1) + L2 + x + A:L2'
        for who, fn, kind in (('df', siptw_cell, 'StochasticIPTW'), ('g', gf_cell, 'TimeFixedGFormula.fit_stochastic'),
                              ('df', stmle_cell, 'StochasticTMLE')):
            k1 = sorted(df['L1'].unique())
            css = [["(%s['L1']==%d) & (%s['x']>0)" % (who, k1[0], who), "(%s['L1']==%d) & (%s['x']<=0)" % (who, k1[0], who),
                    "%s['L1']!=%d" % (who, k1[0])],
                   ["%s['x']>0.5" % who, "%s['x']<=0.5" % who]]
            plans = [(1.0, None), (0.0, None), (0.4, None)]
            for cs in css:
                plans.append(([float(v) for v in np.round(rng.uniform(0.05, 0.95, size=len(cs)), 2)], cs))
            plans.append(([1.0] * 3, css[0]))
            plans.append(([0.0] * 3, css[0]))
            plans.append(([0.3] * 3, css[0]))
            plans.append(([0.8] * 2, css[1]))
            plans.append((0.5, None, 5))
            plans.append(([float(v) for v in np.round(rng.uniform(0.3, 0.7, size=2), 2)], css[1], 5))
            # a condition nobody meets; conditions on the observed treatment (crossed with a continuous predictor)
            plans.append(([float(v) for v in np.round(rng.uniform(0.05, 0.95, size=3), 2)],
                          ["%s['x']>0.5" % who, "%s['x']>1e6" % who, "%s['x']<=0.5" % who]))
            plans.append(([float(v) for v in np.round(rng.uniform(0.05, 0.95, size=3), 2)],
                          ["(%s['A']==1) & (%s['x']>0)" % (who, who), "(%s['A']==1) & (%s['x']<=0)" % (who, who),
                           "%s['A']==0" % who]))
            for pl in plans:
                p, cs = pl[0], pl[1]
                t += 1
                if kind == 'StochasticIPTW':
                    cfg = dict(covs=covs, model=gm, p=p, conditional=cs, saturated=False, weights=None)
                elif kind == 'StochasticTMLE':
                    cfg = dict(covs=covs, gmodel=gm, qmodel=qm, p=p, conditional=cs, saturated=False,
                               samples=(pl[2] if len(pl) > 2 else SAMPLES[t % 4]), seed=pick_seed(rng))
                else:
                    cfg = dict(covs=covs, model=qm, p=p, conditional=cs, saturated=False, standardize='population',
                               outcome='binary', samples=(pl[2] if len(pl) > 2 else SAMPLES[t % 4]),
                               seed=pick_seed(rng))
                guard(chk, kind, cfg, rec, fn, drv, df, cfg, rec)
        # histories on one object (non-saturated: epsilon != 0, so a corrupted stored treatment shows)
        k1 = sorted(df['L1'].unique())
        c01 = ["df['L1']==%d" % k1[0], "df['L1']!=%d" % k1[0]]
        sd = [int(v) for v in rng.integers(1, 10 ** 6, size=6)]
        sd[0] = sd[3] = 0
        steps = [dict(op='g', model=gm), dict(op='q', model=qm),
                 dict(op='fit', p=0.5, conditional=None, seed=sd[0]),
                 dict(op='fit', p=[1.0, 0.0], conditional=c01, seed=sd[1]),
                 dict(op='fit', p=[0.0, 1.0], conditional=c01[::-1], seed=sd[2]),
                 dict(op='q', model='A + C(L1) + x'),
                 dict(op='fit', p=0.3, conditional=None, seed=sd[3]),
                 dict(op='g', model='L2 + x', bound=[0.3, 0.7]),
                 dict(op='fit', p=[0.2, 0.9], conditional=c01, seed=sd[4])]
        cfg = dict(steps=steps, samples=3)
        guard(chk, 'StochasticTMLE-history', cfg, rec, stmle_history_cell, drv, df, cfg, rec)
        g01 = [c.replace('df[', 'g[') for c in c01]
        cfg = dict(gmodel=gm, qmodel=qm, plans=[(0.5, None, None, sd[0]), ([1.0, 0.0], c01, g01, sd[1]),
                                                ([0.3, 0.6], c01[::-1], g01[::-1], sd[2]), (1.0, None, None, sd[3])])
        guard(chk, 'history-IPTW-GF', cfg, rec, light_history_cell, drv, df, cfg, rec)


def replay(rec):
    import common
    from props.c05 import _frame
    chk = common.Check('C14', 'quick', rec.get('seed', 0))
    for f in rec.get('failures', []):
        c = f['case']
        print('replaying:', f['what'])
        print('  kind=%s cfg=%s' % (c.get('kind'), {k: v for k, v in c.get('cfg', {}).items()}))
        data = c.get('data', {})
        if 'frame' not in data or 'columns' not in data['frame']:
            print('  (data set too large to be stored; rerun with the recorded seed)')
            continue
        df = _frame(data)
        fn = {'StochasticIPTW': siptw_cell, 'TimeFixedGFormula.fit_stochastic': gf_cell, 'StochasticTMLE': stmle_cell,
              'StochasticTMLE-custom': stmle_custom_cell, 'StochasticTMLE-history': stmle_history_cell,
              'history-IPTW-GF': light_history_cell}[c['kind']]
        with common.quiet():
            guard(chk, c['kind'], c['cfg'], data, fn, None, df, c['cfg'], data)     # as in run(): an exception is a failure
    for f in chk.d_fail:
        print('  FAILS:', f['what'], f['case'].get('order'))
    print('failures reproduced:', len(chk.d_fail))
    return 1 if chk.d_fail else 0
